// lavacheck decides lava properties from /repo's source (see /verif/DESIGN.md).
package main

import (
	"flag"
	"fmt"
	"os"
	"path/filepath"
	"sort"
	"strings"
	"time"

	"golang.org/x/tools/go/ssa"

	"lavaverif/checker/ir"
	"lavaverif/checker/rules"
)

func main() {
	prop := flag.String("prop", "", "property id(s), comma separated, or 'all'")
	tier := flag.String("tier", "quick", "quick|thorough")
	repo := flag.String("repo", "/repo", "lava source tree")
	out := flag.String("out", "/verif/evidence", "evidence directory")
	kf := flag.String("known", "/verif/known_findings.json", "known findings file")
	dump := flag.String("dump", "", "debug: dump guards of every call in the named function (substring match)")
	warm := flag.Bool("warm", false, "load the repository once (warms the build cache)")
	list := flag.Bool("list", false, "list function keys matching -dump substring")
	flag.StringVar(&sinkFilter, "sink", "", "debug: with -dump, only show instructions containing this substring")
	grepCalls := flag.String("grepcalls", "", "debug: list call sites whose callee key contains the substring")
	seedsDir := flag.String("seeds", "", "directory of kept seeded changes for the thorough tier's self-test (default: ../seeded next to the binary)")
	overlayDir := flag.String("overlay", "", "directory whose files (by path relative to it) replace or add to the files of -repo for this run; used by the thorough tier's self-test")
	flag.Parse()
	if *overlayDir != "" {
		ir.Overlay = map[string][]byte{}
		absRepo, _ := filepath.Abs(*repo)
		err := filepath.Walk(*overlayDir, func(path string, info os.FileInfo, err error) error {
			if err != nil || info.IsDir() || !info.Mode().IsRegular() {
				return err
			}
			rel, _ := filepath.Rel(*overlayDir, path)
			b, err := os.ReadFile(path)
			if err != nil {
				return err
			}
			ir.Overlay[filepath.Join(absRepo, rel)] = b
			return nil
		})
		if err != nil {
			fmt.Printf("UNDECIDED: cannot read overlay %s: %v\n", *overlayDir, err)
			os.Exit(2)
		}
	}
	if os.Getenv("VERIF_TIER") != "" && *tier == "" {
		*tier = os.Getenv("VERIF_TIER")
	}
	t0 := time.Now()
	p, err := ir.Load(*repo)
	if err != nil {
		fmt.Printf("UNDECIDED: cannot load %s: %v\n", *repo, err)
		os.Exit(2)
	}
	if *warm {
		fmt.Printf("loaded %d packages, %d functions in %.1fs\n", len(p.Pkgs), len(p.AllFuncs), time.Since(t0).Seconds())
		return
	}
	if *grepCalls != "" {
		cnt := map[string]int{}
		for _, f := range p.AllFuncs {
			ir.EachInstr(f, func(in ssa.Instruction) {
				if call := ir.CallOf(in); call != nil {
					n := ir.CalleeName(call)
					if strings.Contains(n, *grepCalls) {
						fmt.Printf("%s\t%s\t%s\n", p.InstrPos(in), ir.FuncName(f), n)
						cnt[n]++
					}
				}
			})
		}
		for n, k := range cnt {
			fmt.Printf("# %d\t%s\n", k, n)
		}
		return
	}
	if *dump != "" {
		dumpFuncs(p, *dump, *list)
		return
	}
	if *prop == "" {
		fmt.Println("need -prop")
		os.Exit(2)
	}
	ids := strings.Split(*prop, ",")
	if *prop == "all" {
		ids = rules.IDs()
	}
	code := 0
	for _, id := range ids {
		if *tier == "thorough" {
			exe, err := os.Executable()
			if err != nil {
				exe = os.Args[0]
			}
			seeds := *seedsDir
			if seeds == "" {
				seeds = filepath.Join(filepath.Dir(filepath.Dir(exe)), "seeded")
			}
			rules.RunSelfTests(id, *repo, seeds, exe, *kf)
		}
		c := rules.Run(p, id, *tier, *out, *kf, t0)
		if c > code {
			code = c
		}
	}
	os.Exit(code)
}

var sinkFilter string

func dumpFuncs(p *ir.Program, sub string, listOnly bool) {
	var names []string
	for n := range p.Funcs {
		if strings.Contains(n, sub) {
			names = append(names, n)
		}
	}
	sort.Strings(names)
	for _, n := range names {
		fn := p.Funcs[n]
		fmt.Printf("== %s  (%s)\n", n, p.Pos(fn.Pos()))
		if listOnly {
			continue
		}
		for _, b := range fn.Blocks {
			shown := false
			for _, in := range b.Instrs {
				show := false
				var what string
				switch x := in.(type) {
				case *ssa.Call, *ssa.Defer, *ssa.Go:
					show = true
					what = ir.CalleeName(ir.CallOf(in))
					if what == "dynamic" {
						what = "dyn " + ir.Desc(ir.CallOf(in).Value)
					}
					_ = x
				case *ssa.Store:
					show = true
					what = "store " + ir.Desc(x.Addr) + " := " + ir.DescN(x.Val, 3)
				case *ssa.Return:
					show = true
					var rs []string
					for _, r := range x.Results {
						rs = append(rs, ir.DescN(r, 3))
					}
					what = "return " + strings.Join(rs, ", ")
				case *ssa.BinOp:
					if x.Op.String() == "-" || x.Op.String() == "+" {
						show = true
						what = "binop " + ir.DescN(x, 4)
					}
				case *ssa.Send:
					show = true
					what = "send " + ir.Desc(x.Chan) + " <- " + ir.DescN(x.X, 3)
				case *ssa.MapUpdate:
					show = true
					what = "mapupdate " + ir.Desc(x.Map) + "[" + ir.DescN(x.Key, 3) + "]"
				}
				if strings.HasPrefix(what, "builtin:") || strings.HasPrefix(what, "utils.LogAttr") || strings.HasPrefix(what, "fmt.") || strings.HasPrefix(what, "store local(") || strings.HasPrefix(what, "strconv.") {
					show = false
				}
				if sinkFilter != "" && !strings.Contains(what, sinkFilter) {
					show = false
				}
				if !show {
					continue
				}
				if !shown {
					shown = true
					fmt.Printf(" b%d guards:\n", b.Index)
					for _, g := range ir.GuardsOfBlock(b) {
						fmt.Printf("        | %s\n", g.Fact)
					}
				}
				fmt.Printf("  b%d %s  %s\n", b.Index, p.InstrPos(in), what)
			}
		}
	}
}
