package rules

import (
	"sort"
	"strings"

	"golang.org/x/tools/go/ssa"

	"lavaverif/checker/ir"
)

const ccK = "ecosystem/cache."

// capturedParam: v is a load of the local into which parameter #idx was spilled because a
// closure captures it, and no closure of the function assigns that variable.
func capturedParam(v ssa.Value, idx int) bool {
	if p, ok := v.(*ssa.Parameter); ok {
		return len(p.Parent().Params) > idx && p.Parent().Params[idx] == p
	}
	ld, ok := v.(*ssa.UnOp)
	if !ok {
		return false
	}
	a, ok := ld.X.(*ssa.Alloc)
	if !ok || a.Referrers() == nil {
		return false
	}
	fn := a.Parent()
	for _, r := range *a.Referrers() {
		switch x := r.(type) {
		case *ssa.Store:
			if x.Addr == a {
				p, isP := x.Val.(*ssa.Parameter)
				if !isP || len(fn.Params) <= idx || fn.Params[idx] != p {
					return false
				}
			}
		case *ssa.MakeClosure:
			clo := x.Fn.(*ssa.Function)
			for i, b := range x.Bindings {
				if b != ssa.Value(a) || i >= len(clo.FreeVars) {
					continue
				}
				fv := clo.FreeVars[i]
				if fv.Referrers() != nil {
					for _, rr := range *fv.Referrers() {
						if st, isSt := rr.(*ssa.Store); isSt && st.Addr == ssa.Value(fv) {
							return false
						}
						if _, isMC := rr.(*ssa.MakeClosure); isMC {
							return false
						}
					}
				}
			}
		}
	}
	return true
}

// stripBox: the value inside an interface boxing.
func stripBox(v ssa.Value) ssa.Value {
	if mi, ok := v.(*ssa.MakeInterface); ok {
		return mi.X
	}
	return v
}

func init() {
	register("C36", "other", func(c *Ctx) {
		c.Explain = "The relay cache never serves the wrong or corrupted reply — structural part: HashCacheRequest hashes CacheHash{Request: the whole request data, ChainId} after clearing exactly the fields the property allows to differ (salt, seen block, request/task/tx ids, requested block; data only through the id-stripping formatter), registers the restoring defer before the first mutation, and the defer puts back every mutated field from a copy taken before the mutation; the cache server's key is request hash ‖ requested block on both the set and the get side; a reply is returned only for a found entry whose stored hash is nil or equals the request's block hash; a non-finalized entry keeps its block hash; the compressed flag stored with an entry is the flag CompressData returned for the bytes that were stored, and decompression happens exactly under that flag on a copy of the entry."
		hcr := c.Fn(cl + "HashCacheRequest")
		gri := c.Fn(ccK + "RelayerCacheServer.getRelayInner")
		set := c.Fn(ccK + "RelayerCacheServer.SetRelay")
		fhk := c.Fn(ccK + "RelayerCacheServer.formatHashKey")
		fcv := c.Fn(ccK + "formatCacheValue")
		tcr := c.Fn(ccK + "CacheValue.ToCacheReply")
		fia := c.Fn(ccK + "RelayerCacheServer.findInAllCaches")
		cd := c.Fn("protocol/common.CompressData")
		if hcr == nil || gri == nil || set == nil || fhk == nil || fcv == nil || tcr == nil || fia == nil || cd == nil {
			return
		}

		c.Rule("C36a restore: every field of the request that HashCacheRequest overwrites is written back by its deferred function from a variable that was assigned that same field before the first overwrite; the defer is registered before the first overwrite")
		type mut struct {
			st  *ssa.Store
			val string
		}
		muts := map[string]mut{}
		var firstMut ssa.Instruction
		ir.EachInstr(hcr, func(in ssa.Instruction) {
			st, ok := in.(*ssa.Store)
			if !ok {
				return
			}
			fa, ok := st.Addr.(*ssa.FieldAddr)
			if !ok || !strings.HasPrefix(ir.FieldKey(fa), pt+"RelayPrivateData.") || !capturedParam(fa.X, 0) {
				return
			}
			f := strings.TrimPrefix(ir.FieldKey(fa), pt+"RelayPrivateData.")
			muts[f] = mut{st, ir.Desc(st.Val)}
			if firstMut == nil || instrBefore(st, firstMut) {
				firstMut = st
			}
		})
		var dfr *ssa.Defer
		var clo *ssa.Function
		var mc *ssa.MakeClosure
		ir.EachInstr(hcr, func(in ssa.Instruction) {
			if d, ok := in.(*ssa.Defer); ok {
				if m, ok := d.Call.Value.(*ssa.MakeClosure); ok {
					dfr, mc = d, m
					clo = m.Fn.(*ssa.Function)
				}
			}
		})
		if len(muts) == 0 || dfr == nil {
			c.Undecided("C36a: HashCacheRequest no longer mutates the request under a restoring defer (mutations=%d, defer=%v)", len(muts), dfr != nil)
		} else {
			restored := map[string]string{} // field -> field the saved copy was taken from
			ir.EachInstr(clo, func(in ssa.Instruction) {
				st, ok := in.(*ssa.Store)
				if !ok {
					return
				}
				fa, ok := st.Addr.(*ssa.FieldAddr)
				if !ok || !strings.HasPrefix(ir.FieldKey(fa), pt+"RelayPrivateData.") {
					return
				}
				f := strings.TrimPrefix(ir.FieldKey(fa), pt+"RelayPrivateData.")
				ld, ok := st.Val.(*ssa.UnOp)
				if !ok {
					return
				}
				fv, ok := ld.X.(*ssa.FreeVar)
				if !ok {
					return
				}
				for i, v := range clo.FreeVars {
					if v != fv || i >= len(mc.Bindings) {
						continue
					}
					a, ok := mc.Bindings[i].(*ssa.Alloc)
					if !ok {
						continue
					}
					// the saved copy: assigned once in HashCacheRequest, only read by the closure
					var sv ssa.Value
					nst := 0
					if a.Referrers() != nil {
						for _, r := range *a.Referrers() {
							if s2, ok := r.(*ssa.Store); ok && s2.Addr == ssa.Value(a) {
								nst++
								sv = s2.Val
							}
						}
					}
					if fv.Referrers() != nil {
						for _, r := range *fv.Referrers() {
							if s2, ok := r.(*ssa.Store); ok && s2.Addr == ssa.Value(fv) {
								nst++
							}
						}
					}
					if nst != 1 || sv == nil {
						continue
					}
					if sl, ok := sv.(*ssa.UnOp); ok {
						if sfa, ok := sl.X.(*ssa.FieldAddr); ok && capturedParam(sfa.X, 0) && firstMut != nil && instrBefore(sl, firstMut) {
							restored[f] = strings.TrimPrefix(ir.FieldKey(sfa), pt+"RelayPrivateData.")
						}
					}
				}
			})
			var names []string
			for f := range muts {
				names = append(names, f)
			}
			sort.Strings(names)
			for _, f := range names {
				key := "C36a/HashCacheRequest/restores=" + f
				if restored[f] == f {
					c.OK(key, c.P.InstrPos(muts[f].st), "saved before the first overwrite, written back in the defer")
				} else if restored[f] != "" {
					c.Fail(key, c.P.InstrPos(muts[f].st), "field "+f+" is restored from the saved value of "+restored[f])
				} else {
					c.Fail(key, c.P.InstrPos(muts[f].st), "field "+f+" of the caller's request is overwritten for hashing and never put back: computing the cache key changes the request that is then sent/signed")
				}
			}
			if instrBefore(dfr, firstMut) {
				c.OK("C36a/HashCacheRequest/defer-before-first-overwrite", c.P.InstrPos(dfr), "restored on every exit including panics in the formatter")
			} else {
				c.Fail("C36a/HashCacheRequest/defer-before-first-overwrite", c.P.InstrPos(dfr), "a field is overwritten before the restoring defer is registered")
			}

			c.Rule("C36b key content: the overwritten fields are exactly {Data, Salt, SeenBlock, RequestId, XTaskId, XTxId, RequestBlock}; all but Data are set to their zero value and Data to inputFormatter(Data); the hashed message is CacheHash{Request: the request, ChainId: the chain id parameter}; the returned key is HashMsg(Marshal(that message))")
			want := []string{"Data", "RequestBlock", "RequestId", "Salt", "SeenBlock", "XTaskId", "XTxId"}
			if strings.Join(names, ",") == strings.Join(want, ",") {
				c.OK("C36b/HashCacheRequest/ignored-fields-exactly", c.P.Pos(hcr.Pos()), strings.Join(names, ","))
			} else {
				c.Fail("C36b/HashCacheRequest/ignored-fields-exactly", c.P.Pos(hcr.Pos()), "fields removed from the cache key are {"+strings.Join(names, ",")+"}, the property allows exactly {"+strings.Join(want, ",")+"}: requests differing in another field share a cache entry (or identical requests miss)")
			}
			for _, f := range names {
				v := muts[f].val
				key := "C36b/HashCacheRequest/cleared-value=" + f
				if f == "Data" {
					okData := false
					if call, isCall := muts[f].st.Val.(*ssa.Call); isCall && len(call.Call.Args) == 1 {
						// formatter := FormatterForRelayRequestAndResponse(relayData.ApiInterface)#0 ; formatter(relayData.Data)
						fromField := func(x ssa.Value, field string) bool {
							ld, ok := x.(*ssa.UnOp)
							if !ok {
								return false
							}
							fa, ok := ld.X.(*ssa.FieldAddr)
							return ok && ir.FieldKey(fa) == pt+"RelayPrivateData."+field && capturedParam(fa.X, 0)
						}
						if ex, isEx := call.Call.Value.(*ssa.Extract); isEx && ex.Index == 0 {
							if mk, _ := callOfValue(ex.Tuple); mk != nil && strings.HasSuffix(ir.CalleeName(&mk.Call), "FormatterForRelayRequestAndResponse") && fromField(mk.Call.Args[0], "ApiInterface") {
								okData = fromField(call.Call.Args[0], "Data")
							}
						}
					}
					if okData {
						c.OK(key, c.P.InstrPos(muts[f].st), "inputFormatter(relayData.Data)")
					} else {
						c.Fail(key, c.P.InstrPos(muts[f].st), "request data enters the key as "+trunc(v, 120)+" instead of the id-stripped data")
					}
					continue
				}
				if v == "nil" || v == "const(0)" || v == "const(\"\")" {
					c.OK(key, c.P.InstrPos(muts[f].st), v)
				} else {
					c.Fail(key, c.P.InstrPos(muts[f].st), "field "+f+" is replaced by "+trunc(v, 80)+", not cleared")
				}
			}
			var ch *ssa.Alloc
			ir.EachInstr(hcr, func(in ssa.Instruction) {
				if a, ok := in.(*ssa.Alloc); ok && strings.HasSuffix(ir.TypeName(a.Type()), "CacheHash") {
					ch = a
				}
			})
			f := structFieldStores(ch)
			req, cid := "", ""
			if v, ok := f["Request"]; ok {
				req = ir.Desc(v)
				if capturedParam(v, 0) {
					req = "param#0"
				}
			}
			if v, ok := f["ChainId"]; ok {
				cid = ir.Desc(v)
			}
			if req == "param#0" && cid == "param#1" {
				c.OK("C36b/HashCacheRequest/hashes-whole-request-and-chain", c.P.Pos(hcr.Pos()), "CacheHash{Request: relayData, ChainId: chainId}")
			} else {
				c.Fail("C36b/HashCacheRequest/hashes-whole-request-and-chain", c.P.Pos(hcr.Pos()), "hashed message is CacheHash{Request: "+trunc(req, 60)+", ChainId: "+trunc(cid, 60)+"}")
			}
			for _, r := range c.SuccessReturns(hcr) {
				d := ir.Desc(RetVal(r.Instr.(*ssa.Return), 0))
				if strings.HasPrefix(d, "call(utils/sigs.HashMsg)(call(github.com/golang/protobuf/proto.Marshal)(") {
					c.OK("C36b/HashCacheRequest/key=HashMsg(Marshal(CacheHash))", c.P.InstrPos(r.Instr), "")
				} else {
					c.Fail("C36b/HashCacheRequest/key=HashMsg(Marshal(CacheHash))", c.P.InstrPos(r.Instr), "returned key is "+trunc(d, 120))
				}
			}
		}

		c.Rule("C36c server key: formatHashKey appends the requested block to the request hash; SetRelay and getRelayInner both use formatHashKey(RequestHash, RequestedBlock) of their own message; findInAllCaches returns only a value looked up under the key it was given")
		okKey := false
		for _, r := range c.AllReturns(fhk) {
			d := ir.Desc(r.Instr.(*ssa.Return).Results[0])
			if strings.Contains(d, "AppendUint64)(") && strings.HasSuffix(d, ",param#0,conv<uint64>(param#1))") {
				okKey = true
			}
		}
		if okKey {
			c.OK("C36c/formatHashKey/hash‖requested-block", c.P.Pos(fhk.Pos()), "AppendUint64(hash, uint64(block))")
		} else {
			c.Fail("C36c/formatHashKey/hash‖requested-block", c.P.Pos(fhk.Pos()), "the cache key no longer consists of the request hash followed by the requested block: entries of different blocks share a key")
		}
		for name, fn := range map[string]*ssa.Function{"SetRelay": set, "getRelayInner": gri} {
			sites := c.CallsIn(fn, fhk, false)
			if len(sites) != 1 {
				c.Undecided("C36c: expected one formatHashKey call in %s, found %d", name, len(sites))
				continue
			}
			call := ir.CallOf(sites[0].Instr)
			a, b := ir.Desc(call.Args[1]), ir.Desc(call.Args[2])
			if a == "param#0.RequestHash" && b == "param#0.RequestedBlock" || a == "param#1.RequestHash" && b == "param#1.RequestedBlock" {
				c.OK("C36c/"+name+"/key=formatHashKey(RequestHash,RequestedBlock)", c.P.InstrPos(sites[0].Instr), "")
			} else {
				c.Fail("C36c/"+name+"/key=formatHashKey(RequestHash,RequestedBlock)", c.P.InstrPos(sites[0].Instr), "key built from ("+trunc(a, 60)+", "+trunc(b, 60)+")")
			}
		}
		// SetWithTTL keys and values in SetRelay
		nset := 0
		ir.EachInstr(set, func(in ssa.Instruction) {
			call := ir.CallOf(in)
			if call == nil || !strings.Contains(ir.CalleeName(call), "SetWithTTL") {
				return
			}
			nset++
			k, v := ir.Desc(call.Args[1]), ir.Desc(call.Args[2])
			key := "C36c/SetRelay/store#" + itoa(nset)
			// the stored value is the local that holds formatCacheValue's result (and nothing else)
			if a := allocOf(stripBox(call.Args[2])); a != nil && a.Referrers() != nil {
				nst := 0
				for _, r := range *a.Referrers() {
					if st, ok := r.(*ssa.Store); ok && st.Addr == a {
						nst++
						v = ir.Desc(st.Val)
					}
				}
				if nst != 1 {
					v = "a local assigned " + itoa(nst) + " times"
				}
			}
			if strings.HasPrefix(k, "conv<string>(call("+ccK+"RelayerCacheServer.formatHashKey)(") && strings.Contains(v, "call("+ccK+"formatCacheValue)(") {
				c.OK(key, c.P.InstrPos(in), "cache[string(cacheKey)] = formatCacheValue(...)")
			} else {
				c.Fail(key, c.P.InstrPos(in), "stores "+trunc(v, 60)+" under "+trunc(k, 60))
			}
		})
		if nset < 3 {
			c.Undecided("C36c: expected >=3 SetWithTTL stores in SetRelay, found %d", nset)
		}
		for _, fn := range ir.WithClosures(fia) {
			for _, s := range c.CallsByName(fn, false, ccK+"getNonExpiredFromCache") {
				d := ir.Desc(ir.CallOf(s.Instr).Args[1])
				if d == "conv<string>(param#1)" {
					c.OK("C36c/findInAllCaches/lookup-under-given-key@"+c.P.InstrPos(s.Instr)[strings.LastIndex(c.P.InstrPos(s.Instr), "/")+1:], c.P.InstrPos(s.Instr), "")
				} else {
					c.Fail("C36c/findInAllCaches/lookup-under-given-key", c.P.InstrPos(s.Instr), "lookup under "+trunc(d, 80))
				}
			}
		}

		c.Rule("C36d serve: getRelayInner returns a reply only for a found entry, under stored hash == nil or bytes.Equal(stored hash, request.BlockHash), and the reply is ToCacheReply() of that entry; formatCacheValue keeps the block hash for non-finalized entries")
		nrep := 0
		for _, r := range c.SuccessReturns(gri) {
			ret := r.Instr.(*ssa.Return)
			d := ir.Desc(ret.Results[0])
			if d == "nil" {
				continue
			}
			nrep++
			facts := ir.GuardFacts(ret)
			found := ir.HasFact(facts, "call("+ccK+"RelayerCacheServer.findInAllCaches)(recv,param#0.Finalized,call("+ccK+"RelayerCacheServer.formatHashKey)(recv,param#0.RequestHash,param#0.RequestedBlock))#2")
			hashOK := ir.HasFact(facts, "(local("+ccK+"CacheValue).Hash == nil)") || ir.HasFact(facts, "call(bytes.Equal)(local("+ccK+"CacheValue).Hash,param#0.BlockHash)")
			from := strings.HasPrefix(d, "call("+ccK+"CacheValue.ToCacheReply)(local("+ccK+"CacheValue))")
			key := "C36d/getRelayInner/reply#" + itoa(nrep)
			switch {
			case !found:
				c.Fail(key, c.P.InstrPos(ret), "a reply is returned without the entry having been found")
			case !hashOK:
				c.Fail(key, c.P.InstrPos(ret), "a reply is returned without the stored block hash being nil or equal to the request's block hash: a non-finalized entry of another fork is served")
			case !from:
				c.Fail(key, c.P.InstrPos(ret), "the reply is "+trunc(d, 100)+", not the found entry")
			default:
				c.OK(key, c.P.InstrPos(ret), "found ∧ (hash == nil ∨ hash == request hash)")
			}
		}
		if nrep != 2 {
			c.Undecided("C36d: expected two reply returns in getRelayInner, found %d", nrep)
		}
		// the entry the hash test looks at is the one findInAllCaches returned
		okEntry := false
		ir.EachInstr(gri, func(in ssa.Instruction) {
			if st, ok := in.(*ssa.Store); ok {
				if a, ok := st.Addr.(*ssa.Alloc); ok && strings.HasSuffix(ir.TypeName(a.Type()), "CacheValue") {
					if strings.HasPrefix(ir.Desc(st.Val), "call("+ccK+"RelayerCacheServer.findInAllCaches)(") && strings.HasSuffix(ir.Desc(st.Val), "#0") {
						okEntry = true
					}
				}
			}
		})
		if okEntry {
			c.OK("C36d/getRelayInner/entry=findInAllCaches-result", c.P.Pos(gri.Pos()), "")
		} else {
			c.Fail("C36d/getRelayInner/entry=findInAllCaches-result", c.P.Pos(gri.Pos()), "the entry whose hash is tested is not the one found under the key")
		}
		for _, r := range c.AllReturns(fcv) {
			ret := r.Instr.(*ssa.Return)
			f := structFieldStores(allocOf(ret.Results[0]))
			facts := ir.GuardFacts(ret)
			h := "nil"
			if v, ok := f["Hash"]; ok {
				h = ir.Desc(v)
			}
			comp := ""
			if v, ok := f["IsCompressed"]; ok {
				comp = ir.Desc(v)
			}
			nonFinal := ir.HasFact(facts, "!param#2")
			key := "C36d/formatCacheValue/finalized-entry"
			if nonFinal {
				key = "C36d/formatCacheValue/non-finalized-entry"
			}
			if nonFinal && h != "param#1" {
				c.Fail(key+"/keeps-block-hash", c.P.InstrPos(ret), "a non-finalized entry is stored with hash "+h+": it will be served to requests carrying any block hash")
			} else {
				c.OK(key+"/keeps-block-hash", c.P.InstrPos(ret), "Hash="+h)
			}
			if comp == "call(protocol/common.CompressData)(param#0.Data,const(protocol/common.CompressionThreshold))#1" || strings.HasPrefix(comp, "call(protocol/common.CompressData)(param#0.Data,") && strings.HasSuffix(comp, "#1") {
				c.OK(key+"/flag=CompressData-flag", c.P.InstrPos(ret), "")
			} else {
				c.Fail(key+"/flag=CompressData-flag", c.P.InstrPos(ret), "IsCompressed is "+trunc(comp, 80)+", not the flag CompressData returned for the stored bytes")
			}
		}

		c.Rule("C36e compression: formatCacheValue replaces the data by the compressed bytes only under err == nil ∧ isCompressed; CompressData returns true only together with the gzip buffer and false only together with its input; ToCacheReply decompresses only under IsCompressed, into a copy of the entry")
		ir.EachInstr(fcv, func(in ssa.Instruction) {
			st, ok := in.(*ssa.Store)
			if !ok {
				return
			}
			fa, ok := st.Addr.(*ssa.FieldAddr)
			if !ok || ir.FieldKey(fa) != pt+"RelayReply.Data" {
				return
			}
			facts := ir.GuardFacts(st)
			v := ir.Desc(st.Val)
			if strings.HasPrefix(v, "call(protocol/common.CompressData)(param#0.Data,") && strings.HasSuffix(v, "#0") &&
				hasResultFact(facts, "protocol/common.CompressData)(", 1, true) && ir.HasFact(facts, "call(protocol/common.CompressData)(param#0.Data,", ")#2 == nil)") {
				c.OK("C36e/formatCacheValue/stores-compressed-only-when-flagged", c.P.InstrPos(st), "")
			} else {
				c.Fail("C36e/formatCacheValue/stores-compressed-only-when-flagged", c.P.InstrPos(st), "response data replaced by "+trunc(v, 80)+" without err == nil ∧ isCompressed")
			}
		})
		for _, r := range c.AllReturns(cd) {
			ret := r.Instr.(*ssa.Return)
			if ret.Block() == cd.Recover {
				continue
			}
			v0 := RetVal(ret, 0)
			d0, d1 := ir.Desc(v0), ir.Desc(RetVal(ret, 1))
			key := "C36e/CompressData/return(" + d1 + ")"
			switch d1 {
			case "const(true)":
				if strings.HasPrefix(d0, "call(bytes.Buffer.Bytes)(") && !IsFailureReturn(ret) {
					// ownership: the buffer behind the returned bytes is allocated by this call
					var root ssa.Value
					if call, _ := callOfValue(v0); call != nil && len(call.Call.Args) > 0 {
						root = call.Call.Args[0]
						for {
							if fa, ok := root.(*ssa.FieldAddr); ok {
								root = fa.X
								continue
							}
							break
						}
					}
					if a, ok := root.(*ssa.Alloc); ok && a.Parent() == cd {
						c.OK(key, c.P.InstrPos(ret), "compressed bytes of a buffer allocated in this call")
					} else {
						c.Fail(key+"/owned-buffer", c.P.InstrPos(ret), "the compressed bytes returned alias a buffer that outlives the call ("+trunc(ir.Desc(root), 80)+"): a later compression overwrites the bytes already stored in the cache")
					}
				} else {
					c.Fail(key, c.P.InstrPos(ret), "reports compressed=true with "+trunc(d0, 60))
				}
			case "const(false)":
				if d0 == "param#0" || d0 == "nil" {
					c.OK(key+"/"+d0, c.P.InstrPos(ret), "input unchanged (or error)")
				} else {
					c.Fail(key, c.P.InstrPos(ret), "reports compressed=false with "+trunc(d0, 60)+": gzip bytes would be served as the reply")
				}
			default:
				c.Fail(key, c.P.InstrPos(ret), "non-constant compressed flag")
			}
		}
		for _, s := range c.CallsByName(tcr, false, "protocol/common.DecompressData") {
			if ir.HasFact(ir.GuardFacts(s.Instr), "recv.IsCompressed") {
				c.OK("C36e/ToCacheReply/decompress-iff-flag", c.P.InstrPos(s.Instr), "")
			} else {
				c.Fail("C36e/ToCacheReply/decompress-iff-flag", c.P.InstrPos(s.Instr), "decompression is attempted on entries not flagged as compressed")
			}
		}
		if len(c.CallsByName(tcr, false, "protocol/common.DecompressData")) != 1 {
			c.Fail("C36e/ToCacheReply/decompresses", c.P.Pos(tcr.Pos()), "compressed entries are returned without decompression")
		}
		c.RequirePure("C36e", ccK+"CacheValue.ToCacheReply", ccK+"RelayerCacheServer.getRelayInner")
		c.Rule("C36f the input formatter rewrites nothing but the id: in ecosystem/cache/format every sjson rewrite of the request (or reply) bytes names the constant path \"id\", nothing is deleted, and no function of the package decodes request JSON into interface{} values (json.RawMessage keeps the bytes and is fine) — a decode/re-encode of params through interface{} turns integers above 2^53 into floats, so requests that differ only there would get one cache key")
		{
			const fpk = "ecosystem/cache/format."
			nSet, bad := 0, ""
			var at ssa.Instruction
			for _, f := range c.P.AllFuncs {
				if !inProd(f) || !strings.HasPrefix(ir.FuncName(f), fpk) {
					continue
				}
				ir.EachInstr(f, func(in ssa.Instruction) {
					call := ir.CallOf(in)
					if call == nil {
						return
					}
					n := ir.CalleeName(call)
					switch {
					case strings.HasPrefix(n, "github.com/tidwall/sjson.Set"):
						nSet++
						if len(call.Args) < 2 || ir.Desc(call.Args[1]) != "const(\"id\")" {
							bad, at = "rewrites the JSON path "+trunc(ir.Desc(call.Args[1]), 60)+" of the cached request, not only its id", in
						}
					case strings.HasPrefix(n, "github.com/tidwall/sjson.Delete"):
						bad, at = "deletes a field of the cached request ("+n+")", in
					case n == "encoding/json.Unmarshal" || n == "encoding/json.Decoder.Decode":
						// decoding into raw messages keeps the bytes; decoding into interface{} values does not keep numbers
						tgt := call.Args[len(call.Args)-1]
						if mi, ok := tgt.(*ssa.MakeInterface); ok {
							tgt = mi.X
						}
						if t := tgt.Type().String(); strings.Contains(t, "interface{}") || strings.Contains(t, "any") && !strings.Contains(t, "RawMessage") {
							bad, at = "decodes request JSON into "+t+": numbers become float64 and lose precision above 2^53 when written back", in
						}
					}
				})
			}
			switch {
			case bad != "":
				c.Fail("C36f/format/only-the-id-is-rewritten", c.P.InstrPos(at), "the cache-key formatter "+bad)
			case nSet < 3:
				c.Undecided("C36f: expected >=3 sjson.Set* calls in ecosystem/cache/format, found %d", nSet)
			default:
				c.OK("C36f/format/only-the-id-is-rewritten", "-", itoa(nSet)+" sjson.Set* calls, all on path \"id\"; no delete, no re-encoding")
			}
		}
		c.NotCovered("that gzip round-trips; hash collisions; expiry and eviction; GetRelay's seen-block logic")
	})
}
