package rules

import (
	"go/token"
	"go/types"
	"strings"

	"golang.org/x/tools/go/ssa"

	"lavaverif/checker/ir"
)

const (
	cswpK = "protocol/lavasession.ConsumerSessionsWithProvider."
	scsK  = "protocol/lavasession.SingleConsumerSession."
	csmK  = "protocol/lavasession.ConsumerSessionManager."
)

func init() {
	register("C28", "other", func(c *Ctx) {
		c.Explain = "Consumer sessions account CU exactly and are never shared — structural part: a provider's used CU is written only by addUsedComputeUnits/decreaseUsedComputeUnits with the provider's write lock held and under their limit / underflow guards; session CU fields are written only with the session held (after the VerifyLock assertion, or in SetUsageForSession right after the session was acquired and its CU reserved); every completion/failure handler releases the session exactly once on every path; completed CU is added to CuSum only on completion, the reservation is given back only on failure, by the amount read before it is zeroed; relay numbers are only ever incremented."
		add := c.Fn(cswpK + "addUsedComputeUnits")
		dec := c.Fn(cswpK + "decreaseUsedComputeUnits")
		done := c.Fn(csmK + "OnSessionDone")
		fail := c.Fn(csmK + "OnSessionFailure")
		inc := c.Fn(csmK + "OnSessionDoneIncreaseCUOnly")
		gs := c.Fn(csmK + "GetSessions")
		if add == nil || dec == nil || done == nil || fail == nil || inc == nil || gs == nil {
			return
		}
		c.Rule("C28a provider CU: ConsumerSessionsWithProvider.UsedComputeUnits is stored only in addUsedComputeUnits (after Lock(), on the within-limit outcome of used+cu > max*(virtualEpoch+1)) and decreaseUsedComputeUnits (after Lock(), with cu <= used established)")
		nst := 0
		for _, a := range c.fieldAccesses("protocol/lavasession.ConsumerSessionsWithProvider.UsedComputeUnits") {
			if a.Kind != "write" || a.Fresh {
				continue
			}
			nst++
			fn := topName(a.Fn)
			key := "C28a/UsedComputeUnits/writer=" + fn
			if fn != cswpK+"addUsedComputeUnits" && fn != cswpK+"decreaseUsedComputeUnits" {
				c.Fail(key, c.P.InstrPos(a.Instr), "provider used CU written outside add/decreaseUsedComputeUnits")
				continue
			}
			locked := c.mustPassBefore(a.Fn, a.Instr, func(in ssa.Instruction) bool {
				call := ir.CallOf(in)
				if call == nil {
					return false
				}
				if _, isDefer := in.(*ssa.Defer); isDefer {
					return false
				}
				return ir.CalleeName(call) == "sync.RWMutex.Lock" && strings.HasSuffix(ir.Desc(call.Args[0]), "recv.Lock")
			})
			if locked {
				c.OK(key+"/under-write-lock", c.P.InstrPos(a.Instr), "cswp.Lock.Lock() precedes the store on every path")
			} else {
				c.Fail(key+"/under-write-lock", c.P.InstrPos(a.Instr), "used CU is modified without the provider's write lock")
			}
		}
		if nst < 2 {
			c.Undecided("expected >=2 stores to ConsumerSessionsWithProvider.UsedComputeUnits, found %d", nst)
		}
		c.RequireGuards("C28a", c.SuccessReturns(add), "return-nil", FactHas("within-limit", "recv.UsedComputeUnits", " <= (", "recv.MaxComputeUnits"))
		c.RequireNoUnsignedWrap("C28a", cswpK+"decreaseUsedComputeUnits", 1)
		c.RequireCallers("C28a", cswpK+"addUsedComputeUnits", csmK+"GetSessions")
		c.RequireCallers("C28a", cswpK+"decreaseUsedComputeUnits", csmK+"OnSessionFailure")

		c.Rule("C28b session fields: SingleConsumerSession.{CuSum, LatestRelayCu, RelayNum} are stored only past the VerifyLock assertion (handlers) or in SetUsageForSession, which GetSessions calls only on the nil outcome of addUsedComputeUnits for a session obtained from GetConsumerSessionInstanceFromEndpoint (acquired with TryUseSession); RelayNum is only ever increased")
		for _, fld := range []string{"CuSum", "LatestRelayCu", "RelayNum"} {
			n := 0
			for _, a := range c.fieldAccesses("protocol/lavasession.SingleConsumerSession." + fld) {
				if a.Kind != "write" || a.Fresh {
					continue
				}
				n++
				fn := topName(a.Fn)
				if fn == scsK+"SetUsageForSession" {
					c.OK("C28b/"+fld+"/writer=SetUsageForSession", c.P.InstrPos(a.Instr), "called with the session held (checked below)")
				} else {
					c.RequireGuards("C28b", []Site{{Fn: a.Fn, Instr: a.Instr}}, fld+":=", ErrNil(scsK+"VerifyLock"))
				}
				if fld == "RelayNum" {
					b, ok := a.Instr.(*ssa.Store).Val.(*ssa.BinOp)
					if ok && b.Op == token.ADD {
						c.OK("C28b/RelayNum/only-incremented@"+fn, c.P.InstrPos(a.Instr), ir.Desc(b))
					} else {
						c.Fail("C28b/RelayNum/only-incremented@"+fn, c.P.InstrPos(a.Instr), "relay number assigned "+ir.Desc(a.Instr.(*ssa.Store).Val))
					}
				}
			}
			if n == 0 {
				c.Undecided("no store to SingleConsumerSession.%s found", fld)
			}
		}
		c.RequireCallers("C28b", scsK+"SetUsageForSession", csmK+"GetSessions")
		c.RequireGuards("C28b", c.CallsByName(gs, true, scsK+"SetUsageForSession"), "SetUsageForSession", ErrNil(cswpK+"addUsedComputeUnits"), ErrNil(cswpK+"GetConsumerSessionInstanceFromEndpoint"))
		// the reserved CU and the CU recorded in the session are one value
		for _, s := range c.CallsByName(gs, true, scsK+"SetUsageForSession") {
			cu := ir.CallOf(s.Instr).Args[1]
			same := false
			for _, g := range ir.Guards(s.Instr) {
				if ErrNil(cswpK + "addUsedComputeUnits").Match(g) {
					v, _ := stripNot(g.If.Cond, g.Edge)
					if b, ok := v.(*ssa.BinOp); ok {
						if call, _ := callOfValue(b.X); call != nil && call.Call.Args[1] == cu {
							same = true
						}
					}
				}
			}
			if same {
				c.OK("C28b/GetSessions/reserved-cu=session-cu", c.P.InstrPos(s.Instr), "addUsedComputeUnits and SetUsageForSession get the same CU value")
			} else {
				c.Fail("C28b/GetSessions/reserved-cu=session-cu", c.P.InstrPos(s.Instr), "the CU reserved at the provider differs from the CU recorded in the session (what failure gives back)")
			}
		}
		// a session whose reservation failed is released
		for _, ie := range c.IfsMatching(gs, ErrNonNil(cswpK+"addUsedComputeUnits")) {
			b := ie.If.Block()
			s := b.Succs[0]
			if !ie.Edge {
				s = b.Succs[1]
			}
			r := c.MustPassOpt(gs, s.Instrs[0], IsCallTo(scsK+"Free"), nil, func(iff *ssa.If, edge bool) bool {
				// stay inside the failing outcome's region
				return false
			})
			_ = r
			reach := ir.Reachable(s, func(x *ssa.BasicBlock) bool { return x.Dominates(b) && x != b })
			freed := false
			for blk := range reach {
				for _, in := range blk.Instrs {
					if IsCallTo(scsK + "Free")(in) {
						freed = true
					}
				}
			}
			if freed {
				c.OK("C28b/GetSessions/failed-reservation-frees-session", c.P.InstrPos(ie.If), "Free on the reservation-failed outcome")
			} else {
				c.Fail("C28b/GetSessions/failed-reservation-frees-session", c.P.InstrPos(ie.If), "a session acquired but not reserved stays locked")
			}
		}

		c.Rule("C28c release once: OnSessionDone, OnSessionDoneIncreaseCUOnly and OnSessionFailure reach SingleConsumerSession.Free (directly or deferred) on every path past the VerifyLock assertion, including the block-listed early return")
		for _, f := range []*ssa.Function{done, inc, fail} {
			var start ssa.Instruction
			for _, ie := range c.IfsMatching(f, ErrNil(scsK+"VerifyLock")) {
				b := ie.If.Block()
				s := b.Succs[0]
				if !ie.Edge {
					s = b.Succs[1]
				}
				start = s.Instrs[0]
			}
			if start == nil {
				c.Fail("C28c/"+ir.FuncName(f)+"/asserts-lock", c.P.Pos(f.Pos()), "no VerifyLock assertion")
				continue
			}
			free := IsCallTo(scsK + "Free")
			r := c.MustPass(f, start, func(in ssa.Instruction) bool { return free(in) }, nil)
			if free(start) {
				r.OK = true
			}
			if r.OK {
				c.OK("C28c/"+ir.FuncName(f)+"/free-on-all-paths", c.P.Pos(f.Pos()), "every path past the assertion frees the session")
			} else {
				c.Fail("C28c/"+ir.FuncName(f)+"/free-on-all-paths", c.P.Pos(f.Pos()), "the session stays held: "+r.Witness)
			}
			// at most once: no path passes two non-deferred Free calls
			n := 0
			ir.EachInstr(f, func(in ssa.Instruction) {
				if free(in) {
					n++
				}
			})
			if (f == fail && n == 2) || (f != fail && n == 1) {
				c.OK("C28c/"+ir.FuncName(f)+"/free-sites", c.P.Pos(f.Pos()), itoa(n)+" Free site(s) on disjoint paths")
			} else {
				c.Fail("C28c/"+ir.FuncName(f)+"/free-sites", c.P.Pos(f.Pos()), "unexpected number of Free sites: "+itoa(n))
			}
		}
		// OnSessionFailure's two Free sites are on disjoint paths
		var frees []ssa.Instruction
		ir.EachInstr(fail, func(in ssa.Instruction) {
			if IsCallTo(scsK + "Free")(in) {
				frees = append(frees, in)
			}
		})
		if len(frees) == 2 {
			if reaches(frees[0].Block(), frees[1].Block()) || reaches(frees[1].Block(), frees[0].Block()) {
				c.Fail("C28c/OnSessionFailure/free-paths-disjoint", c.P.InstrPos(frees[1]), "a path frees the session twice (unlock of an unlocked mutex / second holder released)")
			} else {
				c.OK("C28c/OnSessionFailure/free-paths-disjoint", c.P.InstrPos(frees[1]), "block-listed return and normal path are disjoint")
			}
		}

		c.Rule("C28d accounting: completion handlers add LatestRelayCu to CuSum and then zero it; OnSessionFailure reads LatestRelayCu before zeroing it and gives exactly that amount back with decreaseUsedComputeUnits after releasing the session; OnSessionFailure never adds to CuSum")
		for _, f := range []*ssa.Function{done, inc} {
			addOK, zeroAfter := false, false
			var addAt ssa.Instruction
			ir.EachInstr(f, func(in ssa.Instruction) {
				st, ok := in.(*ssa.Store)
				if !ok {
					return
				}
				fa, ok := st.Addr.(*ssa.FieldAddr)
				if !ok {
					return
				}
				switch ir.FieldKey(fa) {
				case "protocol/lavasession.SingleConsumerSession.CuSum":
					if ir.Desc(st.Val) == "(param#0.CuSum + param#0.LatestRelayCu)" {
						addOK = true
						addAt = in
					}
				case "protocol/lavasession.SingleConsumerSession.LatestRelayCu":
					if isZeroConst(st.Val) && addAt != nil && instrBefore(addAt, in) {
						zeroAfter = true
					}
				}
			})
			if addOK && zeroAfter {
				c.OK("C28d/"+ir.FuncName(f)+"/CuSum+=LatestRelayCu;LatestRelayCu=0", c.P.Pos(f.Pos()), "in this order")
			} else {
				c.Fail("C28d/"+ir.FuncName(f)+"/CuSum+=LatestRelayCu;LatestRelayCu=0", c.P.Pos(f.Pos()), "completed CU is not added to the session's cumulative CU (the next relay signs a wrong CuSum)")
			}
		}
		for _, s := range c.CallsByName(fail, false, cswpK+"decreaseUsedComputeUnits") {
			arg := ir.CallOf(s.Instr).Args[1]
			ld, ok := arg.(*ssa.UnOp)
			good := false
			if ok {
				if fa, isFA := ld.X.(*ssa.FieldAddr); isFA && ir.FieldKey(fa) == "protocol/lavasession.SingleConsumerSession.LatestRelayCu" {
					// the load precedes the zeroing store
					good = true
					ir.EachInstr(fail, func(in ssa.Instruction) {
						if st, isSt := in.(*ssa.Store); isSt {
							if f2, isF := st.Addr.(*ssa.FieldAddr); isF && ir.FieldKey(f2) == "protocol/lavasession.SingleConsumerSession.LatestRelayCu" && instrBefore(in, ld) {
								good = false
							}
						}
					})
				}
			}
			if good {
				c.OK("C28d/OnSessionFailure/gives-back=LatestRelayCu-read-before-zeroing", c.P.InstrPos(s.Instr), "cuToDecrease := LatestRelayCu; …; LatestRelayCu = 0; decreaseUsedComputeUnits(cuToDecrease)")
			} else {
				c.Fail("C28d/OnSessionFailure/gives-back=LatestRelayCu-read-before-zeroing", c.P.InstrPos(s.Instr), "the amount given back on failure is not the session's reservation as it was before being zeroed: "+ir.Desc(arg))
			}
			for _, fr := range frees {
				_ = fr
			}
		}
		// once the session's reservation is zeroed, the provider's counter must be decreased on every exit
		nz := 0
		ir.EachInstr(fail, func(in ssa.Instruction) {
			st, ok := in.(*ssa.Store)
			if !ok || !isZeroConst(st.Val) {
				return
			}
			fa, ok := st.Addr.(*ssa.FieldAddr)
			if !ok || ir.FieldKey(fa) != "protocol/lavasession.SingleConsumerSession.LatestRelayCu" {
				return
			}
			nz++
			res := c.MustPass(fail, st, IsCallTo(cswpK+"decreaseUsedComputeUnits"), func(*ssa.Return) bool { return true })
			if res.OK {
				c.OK("C28d/OnSessionFailure/reservation-zeroed=>provider-counter-decreased-on-every-exit", c.P.InstrPos(st), "every path from LatestRelayCu = 0 to a return calls decreaseUsedComputeUnits")
			} else {
				c.Fail("C28d/OnSessionFailure/reservation-zeroed=>provider-counter-decreased-on-every-exit", c.P.InstrPos(st), "a path from LatestRelayCu = 0 returns without decreaseUsedComputeUnits ("+res.Witness+"): the failed relay's reservation stays in the provider's used CU")
			}
		})
		if nz == 0 {
			c.Undecided("C28d: OnSessionFailure no longer zeroes LatestRelayCu")
		}
		cuSumInFail := false
		for _, a := range c.fieldAccesses("protocol/lavasession.SingleConsumerSession.CuSum") {
			if a.Kind == "write" && topName(a.Fn) == csmK+"OnSessionFailure" {
				cuSumInFail = true
			}
		}
		if cuSumInFail {
			c.Fail("C28d/OnSessionFailure/does-not-touch-CuSum", c.P.Pos(fail.Pos()), "a failed relay changes the cumulative CU")
		} else {
			c.OK("C28d/OnSessionFailure/does-not-touch-CuSum", c.P.Pos(fail.Pos()), "no store to CuSum")
		}
		c.Rule("C28e blocked providers: every address getValidProviderAddresses returns without error comes from the unblocked list — it is either the result of a selection call that was given getValidAddresses(...) as its candidate list, or a single address returned under slices.Contains(getValidAddresses(...), address); the blocked-provider list is consulted (tryGetConsumerSessionWithProviderFromBlockedProviderList) only under PairingListEmptyError.Is(err) of the normal selection")
		if gvp := c.Fn(csmK + "getValidProviderAddresses"); gvp != nil {
			valid := ""
			for _, s := range c.CallsByName(gvp, false, csmK+"getValidAddresses") {
				valid = ir.Desc(s.Instr.(ssa.Value))
			}
			if valid == "" {
				c.Undecided("C28e: getValidProviderAddresses no longer obtains its candidates from getValidAddresses")
			}
			nret := 0
			for _, r := range c.SuccessReturns(gvp) {
				ret := r.Instr.(*ssa.Return)
				// string sources of result #0
				var bad []string
				seen := map[ssa.Value]bool{}
				var walk, single func(v ssa.Value)
				walk = func(v ssa.Value) {
					if v == nil || seen[v] {
						return
					}
					seen[v] = true
					switch x := v.(type) {
					case *ssa.Const:
						return
					case *ssa.Phi:
						for _, e := range x.Edges {
							walk(e)
						}
					case *ssa.Slice:
						walk(x.X)
					case *ssa.Alloc:
						if refs := x.Referrers(); refs != nil {
							for _, rr := range *refs {
								if ia, ok := rr.(*ssa.IndexAddr); ok {
									walkStores(ia, walk)
								}
							}
						}
					case *ssa.Call:
						n := ir.CalleeName(&x.Call)
						if n == "builtin:append" {
							for _, a := range x.Call.Args {
								walk(a)
							}
							return
						}
						given := false
						for _, a := range x.Call.Args {
							if ir.Desc(a) == valid {
								given = true
							}
						}
						if !given {
							bad = append(bad, "result of "+n+" which was not given the unblocked list")
						}
					case *ssa.Extract:
						walk(x.Tuple)
					case *ssa.UnOp:
						if ia, ok := x.X.(*ssa.IndexAddr); ok && x.Op == token.MUL {
							if _, isSlice := ia.X.Type().Underlying().(*types.Slice); isSlice {
								walk(ia.X) // an element of a slice: where the slice came from
								return
							}
						}
						single(v)
					default:
						single(v)
					}
				}
				single = func(v ssa.Value) {
					{
						// a single address: must have been found in the unblocked list
						d := ir.Desc(v)
						ok := false
						for _, f := range ir.GuardFacts(ret) {
							if strings.HasPrefix(f, "call(slices.Contains") && strings.Contains(f, "("+valid+","+d+")") {
								ok = true
							}
						}
						if !ok {
							bad = append(bad, "address "+trunc(d, 80)+" returned without slices.Contains(getValidAddresses(...), it)")
						}
					}
				}
				walk(RetVal(ret, 0))
				nret++
				key := "C28e/getValidProviderAddresses/return@" + itoa(nret) + "/addresses-from-unblocked-list"
				if len(bad) == 0 {
					c.OK(key, c.P.InstrPos(ret), "")
				} else {
					c.Fail(key, c.P.InstrPos(ret), "a provider can be chosen although it is blocked in this epoch and unblocked providers exist: "+strings.Join(bad, "; "))
				}
			}
			if nret < 3 {
				c.Undecided("C28e: expected >=3 success returns in getValidProviderAddresses, found %d", nret)
			}
		}
		if gsw := c.Fn(csmK + "getSessionWithProviderOrError"); gsw != nil {
			sites := c.CallsByName(gsw, false, csmK+"tryGetConsumerSessionWithProviderFromBlockedProviderList")
			if len(sites) == 0 {
				c.Undecided("C28e: blocked-list fallback call not found in getSessionWithProviderOrError")
			}
			c.RequireGuards("C28e", sites, "blocked-list-fallback",
				ErrNonNil(csmK+"getValidConsumerSessionsWithProvider"),
				FactPrefix("pairing-list-empty", "call(cosmossdk.io/errors.Error.Is)(", "PairingListEmptyError"))
			for _, s := range c.References(c.Fn(csmK + "tryGetConsumerSessionWithProviderFromBlockedProviderList")) {
				if ir.FuncName(s.Fn) != csmK+"getSessionWithProviderOrError" {
					c.Fail("C28e/blocked-list-fallback/only-caller", c.P.InstrPos(s.Instr), "the blocked-provider list is also consulted from "+ir.FuncName(s.Fn))
				}
			}
		}
		c.Rule("C28f 'no unblocked provider left' is decided from the unblocked list only: in getValidProviderAddresses the ignored-providers set is looked up only with elements of getValidAddresses(...) as the key (the recount of ignored providers that really occupy a slot of the valid list), and the function never reads csm.pairing, which still contains the providers blocked in this epoch — counting against it reports the list empty, and sends the relay to a blocked provider, while an unblocked one remains")
		if gvp := c.Fn(csmK + "getValidProviderAddresses"); gvp != nil {
			nLook, bad := 0, ""
			var at ssa.Instruction
			ir.EachInstr(gvp, func(in ssa.Instruction) {
				switch x := in.(type) {
				case *ssa.Lookup:
					if p, ok := x.X.(*ssa.Parameter); ok && len(gvp.Params) > 3 && p == gvp.Params[3] {
						nLook++
						at = in
						if !strings.HasPrefix(ir.Desc(x.Index), "call("+csmK+"getValidAddresses)(") {
							bad = "the ignored-providers set is looked up with " + trunc(ir.Desc(x.Index), 100) + ", not with an address of the unblocked list"
							at = in
						}
					}
				case *ssa.FieldAddr:
					if ir.FieldKey(x) == csmK+"pairing" {
						bad = "getValidProviderAddresses reads csm.pairing, which includes the providers blocked in this epoch"
						at = in
					}
				}
			})
			switch {
			case bad != "":
				c.Fail("C28f/getValidProviderAddresses/empty-verdict-from-unblocked-list-only", c.P.InstrPos(at), bad)
			case nLook == 0:
				c.Fail("C28f/getValidProviderAddresses/empty-verdict-from-unblocked-list-only", c.P.Pos(gvp.Pos()), "the ignored providers are no longer matched against the unblocked list before the list is declared empty")
			default:
				c.OK("C28f/getValidProviderAddresses/empty-verdict-from-unblocked-list-only", c.P.InstrPos(at), itoa(nLook)+" lookup(s) of valid addresses in the ignored set; csm.pairing untouched")
			}
		}
		c.Note("C28/cross-reference/UsedComputeUnits-atomic-read", "-", "UsedComputeUnits is written under the provider mutex but read with atomic.LoadUint64 without it (atomicReadUsedComputeUnits): a data race by the Go memory model, harmless on 64-bit targets; not part of the property")
		c.NotCovered("blocked-provider preference; accounting equalities over all schedules; QoS bookkeeping")
	})
}
