package rules

import (
	"fmt"
	"go/token"
	"go/types"
	"strings"

	"golang.org/x/tools/go/ssa"

	"lavaverif/checker/ir"
)

// E5 — unsigned wrap-around. An unsigned subtraction x-y is discharged when every path
// to it has established y<=x on the same access paths:
//   - a dominating comparison (y <= x), (y < x), (x == y) in canonical form;
//   - (a + y') <= x or (y' + a) <= x with y' == y (a sum bounded by x bounds its terms);
//   - x is a phi: each incoming value is discharged at its predecessor block, or is the
//     same access path as y (x-x);
//   - y is the constant 0, or x == y syntactically;
//   - x is (y + a) / (a + y) (the subtraction undoes an addition);
//   - y is x % m or x / m style reduction of x itself (y <= x by construction).
//
// Access paths are compared by canonical descriptor; a store to either path between the
// comparison and the subtraction is not tracked (stated in DESIGN.md §8) except that the
// comparison must dominate the subtraction.

func isUnsigned(t types.Type) bool {
	b, ok := t.Underlying().(*types.Basic)
	return ok && b.Info()&types.IsUnsigned != 0
}

// UnsignedSubs lists the unsigned subtraction instructions of fn (closures included).
func UnsignedSubs(fn *ssa.Function) []*ssa.BinOp {
	var out []*ssa.BinOp
	for _, f := range ir.WithClosures(fn) {
		ir.EachInstr(f, func(in ssa.Instruction) {
			if b, ok := in.(*ssa.BinOp); ok && b.Op == token.SUB && isUnsigned(b.Type()) {
				out = append(out, b)
			}
		})
	}
	return out
}

func isZeroConst(v ssa.Value) bool {
	c, ok := v.(*ssa.Const)
	return ok && c.Value != nil && c.Value.String() == "0"
}

// leProved: facts (at block b) establish y <= x.
func leProved(x, y ssa.Value, b *ssa.BasicBlock, depth int) (bool, string) {
	dx, dy := ir.Desc(x), ir.Desc(y)
	if isZeroConst(y) {
		return true, "subtrahend is 0"
	}
	if dx == dy {
		return true, "x - x"
	}
	// x = y + a
	if bo, ok := x.(*ssa.BinOp); ok && bo.Op == token.ADD {
		if ir.Desc(bo.X) == dy || ir.Desc(bo.Y) == dy {
			return true, "minuend is subtrahend + something"
		}
	}
	// y = x % m, x / m, x >> k, min(x, _)
	if bo, ok := y.(*ssa.BinOp); ok && (bo.Op == token.REM || bo.Op == token.QUO || bo.Op == token.SHR) && ir.Desc(bo.X) == dx {
		return true, "subtrahend is a reduction of the minuend"
	}
	// constants
	if cx, ok := x.(*ssa.Const); ok {
		if cy, ok := y.(*ssa.Const); ok && cx.Value != nil && cy.Value != nil {
			if cx.Uint64() >= cy.Uint64() {
				return true, "constants"
			}
		}
	}
	for _, g := range ir.GuardsOfBlock(b) {
		a, op, c, ok := splitCmp(g.Fact)
		if !ok {
			continue
		}
		switch op {
		case "<", "<=":
			if a == dy && c == dx {
				return true, "dominated by " + trunc(g.Fact, 120)
			}
			// (y + k) <= x  or (k + y) <= x
			if c == dx && strings.HasPrefix(a, "(") {
				if l, o, r, ok2 := splitBin(a); ok2 && o == "+" && (l == dy || r == dy) {
					return true, "dominated by " + trunc(g.Fact, 120)
				}
			}
			// y - 1 style: x > 0 for y == 1
			if cy, ok := y.(*ssa.Const); ok && cy.Value != nil && cy.Value.String() == "1" && op == "<" && a == "const(0)" && c == dx {
				return true, "dominated by " + g.Fact
			}
		case "==":
			if (a == dy && c == dx) || (a == dx && c == dy) {
				return true, "dominated by " + trunc(g.Fact, 120)
			}
		case "!=":
			// x != 0 and y == 1
			if cy, ok := y.(*ssa.Const); ok && cy.Value != nil && cy.Value.String() == "1" {
				if (a == dx && c == "const(0)") || (c == dx && a == "const(0)") {
					return true, "dominated by " + g.Fact
				}
			}
		}
	}
	if depth > 0 {
		if phi, ok := x.(*ssa.Phi); ok {
			var why []string
			for i, e := range phi.Edges {
				ok, w := leProved(e, y, phi.Block().Preds[i], depth-1)
				if !ok {
					// facts on the edge itself: pred ends in If whose taken edge leads here
					ok, w = leOnEdge(e, y, phi.Block().Preds[i], phi.Block())
				}
				if !ok {
					return false, ""
				}
				why = append(why, w)
			}
			return true, "phi: " + strings.Join(why, " | ")
		}
	}
	return false, ""
}

// leOnEdge: the edge pred->blk is the outcome of pred's If that establishes y<=x.
func leOnEdge(x, y ssa.Value, pred, blk *ssa.BasicBlock) (bool, string) {
	if len(pred.Instrs) == 0 {
		return false, ""
	}
	iff, ok := pred.Instrs[len(pred.Instrs)-1].(*ssa.If)
	if !ok || len(pred.Succs) != 2 || pred.Succs[0] == pred.Succs[1] {
		return false, ""
	}
	edge := pred.Succs[0] == blk
	f := ir.Fact(iff.Cond, edge)
	a, op, c, ok := splitCmp(f)
	if !ok {
		return false, ""
	}
	dx, dy := ir.Desc(x), ir.Desc(y)
	if (op == "<" || op == "<=") && a == dy && c == dx {
		return true, "edge " + trunc(f, 100)
	}
	if (op == "<" || op == "<=") && c == dx {
		if l, o, r, ok2 := splitBin(a); ok2 && o == "+" && (l == dy || r == dy) {
			return true, "edge " + trunc(f, 100)
		}
	}
	return false, ""
}

// splitBin splits a canonical "(L op R)" arithmetic descriptor at its top-level operator.
func splitBin(f string) (l, op, r string, ok bool) {
	if len(f) < 2 || f[0] != '(' || f[len(f)-1] != ')' {
		return
	}
	s := f[1 : len(f)-1]
	depth := 0
	for i := 0; i < len(s); i++ {
		switch s[i] {
		case '(', '[', '{':
			depth++
		case ')', ']', '}':
			depth--
		}
		if depth == 0 && s[i] == ' ' && i+2 < len(s) && s[i+2] == ' ' {
			o := string(s[i+1])
			if strings.Contains("+-*/%", o) {
				return s[:i], o, s[i+3:], true
			}
		}
	}
	return
}

type SubAudit struct {
	Match  string // substring of "x - y" descriptor
	Reason string
}

// RequireNoUnsignedWrap checks every unsigned subtraction of the named functions. Audited
// beliefs (by descriptor substring, each with the invariant relied upon) are recorded as
// such; subtractions whose result flows only into logging are cross-references.
func (c *Ctx) RequireNoUnsignedWrap(rule string, fnName string, min int, audits ...SubAudit) {
	fn := c.Fn(fnName)
	if fn == nil {
		return
	}
	subs := UnsignedSubs(fn)
	if len(subs) < min {
		c.Undecided("%s: %s has %d unsigned subtractions, expected at least %d (frozen count)", rule, fnName, len(subs), min)
	}
	for _, s := range subs {
		d := fmt.Sprintf("%s - %s", ir.DescN(s.X, 4), ir.DescN(s.Y, 4))
		key := fmt.Sprintf("%s/%s/sub/%s", rule, fnName, trunc(d, 110))
		if ok, why := leProved(s.X, s.Y, s.Block(), 3); ok {
			c.OK(key, c.P.InstrPos(s), why)
			continue
		}
		if onlyLogged(s) {
			c.Note(key, c.P.InstrPos(s), "result flows only into logging/attributes")
			continue
		}
		audited := false
		for _, a := range audits {
			if strings.Contains(d, a.Match) {
				c.Audit(key, c.P.InstrPos(s), a.Reason)
				audited = true
				break
			}
		}
		if !audited {
			c.Fail(key, c.P.InstrPos(s), "unsigned subtraction "+d+" is not dominated by a comparison establishing subtrahend <= minuend: it wraps to ~2^64 when the subtrahend is larger")
		}
	}
}

// onlyLogged: every use of v is (transitively through conversions/boxing/Attribute
// construction) an argument of a utils.LavaFormat*/LogAttr call.
func onlyLogged(v ssa.Value) bool {
	seen := map[ssa.Value]bool{}
	var ok func(v ssa.Value) bool
	ok = func(v ssa.Value) bool {
		if seen[v] {
			return true
		}
		seen[v] = true
		refs := v.Referrers()
		if refs == nil || len(*refs) == 0 {
			return true
		}
		for _, r := range *refs {
			switch x := r.(type) {
			case *ssa.DebugRef:
			case *ssa.MakeInterface:
				if !ok(x) {
					return false
				}
			case *ssa.Convert:
				if !ok(x) {
					return false
				}
			case *ssa.Store:
				// stored into an Attribute{Value: …} literal
				fa, isFA := x.Addr.(*ssa.FieldAddr)
				if !isFA || !strings.HasSuffix(ir.FieldKey(fa), "utils.Attribute.Value") {
					return false
				}
			case ssa.CallInstruction:
				n := ir.CalleeName(x.Common())
				if !strings.HasPrefix(n, "utils.LavaFormat") && !strings.HasPrefix(n, "utils.LogAttr") && !strings.HasPrefix(n, "strconv.Format") {
					return false
				}
				if call, isCall := r.(*ssa.Call); isCall && strings.HasPrefix(n, "strconv.Format") && !ok(call) {
					return false
				}
			default:
				return false
			}
		}
		return true
	}
	return ok(v)
}
