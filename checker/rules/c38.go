package rules

import (
	"strings"

	"golang.org/x/tools/go/ssa"

	"lavaverif/checker/ir"
)

func init() {
	register("C38", "other", func(c *Ctx) {
		c.Explain = "Request parsing is total and consistent on both sides — structural part (consistency only): consumer and provider both obtain their chain message from chainlib.ParseAndValidateMessage, which returns a message only past ParseMsg and ValidateMessage of the same parser having succeeded; parsers are created only by NewChainParser, which maps the four API interfaces to their four implementations; the provider parses exactly the url, data, connection type and metadata of the relay it received and passes the consumer's extensions as a non-nil ExtensionOverride, so it never re-derives extensions itself; the consumer puts into the relay exactly the url, data and connection type it parsed, the requested block, add-on and extensions of its own parse result; the provider rejects a relay whose add-on differs from its own parse. Totality (no panic or hang on arbitrary bytes) is not decided."
		pav := c.Fn(cl + "ParseAndValidateMessage")
		ncp := c.Fn(cl + "NewChainParser")
		ir0 := c.Fn("protocol/rpcprovider.RPCProviderServer.initRelay")
		pr := c.Fn("protocol/rpcconsumer.RPCConsumerServer.ParseRelay")
		vae := c.Fn("protocol/rpcprovider.RPCProviderServer.ValidateAddonsExtensions")
		if pav == nil || ncp == nil || ir0 == nil || pr == nil || vae == nil {
			return
		}

		c.Rule("C38a one path: ParseAndValidateMessage returns a non-nil message only past parser.ParseMsg == nil error and parser.ValidateMessage == nil error on that message, forwarding its own arguments; NewChainParser returns the JSON-RPC, Tendermint, REST and gRPC parsers under their interface constants and is the only constructor call site family (rpcconsumer, rpcprovider and tooling)")
		for _, r := range c.SuccessReturns(pav) {
			ret := r.Instr.(*ssa.Return)
			if ir.Desc(ret.Results[0]) == "nil" {
				continue
			}
			f := ir.GuardFacts(ret)
			okP := ir.HasFact(f, "invoke("+cl+"ChainParser.ParseMsg)(param#0,param#1,param#2,param#3,param#4,param#5)#1 == nil)")
			okV := ir.HasFact(f, "invoke("+cl+"ChainParser.ValidateMessage)(param#0,invoke("+cl+"ChainParser.ParseMsg)(", " == nil)")
			if okP && okV && strings.HasPrefix(ir.Desc(ret.Results[0]), "invoke("+cl+"ChainParser.ParseMsg)(param#0,") {
				c.OK("C38a/ParseAndValidateMessage/parsed-and-validated-by-same-parser", c.P.InstrPos(ret), "")
			} else {
				c.Fail("C38a/ParseAndValidateMessage/parsed-and-validated-by-same-parser", c.P.InstrPos(ret), "a message is returned without ParseMsg and ValidateMessage of the given parser having succeeded on the given input")
			}
		}
		want := map[string]string{"APIInterfaceJsonRPC": "NewJrpcChainParser", "APIInterfaceTendermintRPC": "NewTendermintRpcChainParser", "APIInterfaceRest": "NewRestChainParser", "APIInterfaceGrpc": "NewGrpcChainParser"}
		for k, ctor := range want {
			kc := c.Const("x/spec/types", k)
			ok := false
			for _, s := range c.CallsByName(ncp, false, cl+ctor) {
				if ir.HasFact(ir.GuardFacts(s.Instr), "(param#0 == "+kc+")") {
					ok = true
				}
			}
			if ok && kc != "" {
				c.OK("C38a/NewChainParser/"+k+"->"+ctor, c.P.Pos(ncp.Pos()), "")
			} else {
				c.Fail("C38a/NewChainParser/"+k+"->"+ctor, c.P.Pos(ncp.Pos()), "interface "+k+" is no longer parsed by "+ctor+" on both sides")
			}
		}

		c.Rule("C38b provider: initRelay parses through ParseAndValidateMessage with its own chain parser the relay's ApiUrl, Data, ConnectionType and metadata, with ExtensionInfo whose override is the relay's Extensions (an empty list when nil) and LatestBlock 0")
		sites := c.CallsIn(ir0, pav, false)
		if len(sites) != 1 {
			c.Undecided("C38b: expected one ParseAndValidateMessage call in initRelay, found %d", len(sites))
		} else {
			call := ir.CallOf(sites[0].Instr)
			got := []string{ir.Desc(call.Args[0]), ir.Desc(call.Args[1]), ir.Desc(call.Args[2]), ir.Desc(call.Args[3]), ir.Desc(call.Args[4])}
			wantArgs := []string{"recv.chainParser", "param#1.RelayData.ApiUrl", "param#1.RelayData.Data", "param#1.RelayData.ConnectionType", "call(" + pt + "RelayPrivateData.GetMetadata)(param#1.RelayData)"}
			ok := true
			for i := range got {
				if got[i] != wantArgs[i] {
					ok = false
				}
			}
			if ok {
				c.OK("C38b/initRelay/parses-the-relay-it-received", c.P.InstrPos(sites[0].Instr), "")
			} else {
				c.Fail("C38b/initRelay/parses-the-relay-it-received", c.P.InstrPos(sites[0].Instr), "provider parses ("+strings.Join(got, ", ")+")")
			}
			// extension info
			a := allocOf(call.Args[5])
			okOv := false
			if a != nil {
				var vals []string
				if a.Referrers() != nil {
					for _, r := range *a.Referrers() {
						if fa, isFA := r.(*ssa.FieldAddr); isFA && fieldNameOfAddr(fa) == "ExtensionOverride" {
							walkStores(fa, func(v ssa.Value) { vals = append(vals, ir.Desc(v)) })
						}
					}
				}
				n := 0
				for _, v := range vals {
					if v == "param#1.RelayData.Extensions" || strings.HasPrefix(v, "slice(") || strings.HasPrefix(v, "makeslice") || strings.Contains(v, "[0]string") {
						n++
					}
				}
				okOv = len(vals) == 2 && n == 2
			}
			if okOv {
				c.OK("C38b/initRelay/override=consumer's-extensions-never-nil", c.P.InstrPos(sites[0].Instr), "the provider does not re-derive extensions")
			} else {
				c.Fail("C38b/initRelay/override=consumer's-extensions-never-nil", c.P.InstrPos(sites[0].Instr), "the provider does not pass the consumer's extension list as a non-nil override: it applies its own extension rules and can disagree on add-on/CU")
			}
		}

		c.Rule("C38e override semantics and non-empty batches: BaseChainParser.ExtensionParsing derives extensions itself only under ExtensionOverride == nil (an empty, non-nil override means 'the consumer chose none'); in the JSON-RPC and Tendermint parsers the code after the per-message loop (which dereferences the api collection assigned inside the loop) is reached only past len(msgs) != 0, tested directly or by a helper all of whose nil returns are under its length parameter != 0")
		if ep := c.Fn(cl + "BaseChainParser.ExtensionParsing"); ep != nil {
			c.RequireGuards("C38e", c.CallsByName(ep, false, cl+"BaseChainParser.extensionParsingInner"), "derive-extensions", FactHas("override-is-nil", "(param#2.ExtensionOverride == nil)"))
		}
		for _, pn := range []string{"JsonRPCChainParser", "TendermintChainParser"} {
			fn := c.Fn(cl + pn + ".ParseMsg")
			if fn == nil {
				continue
			}
			for _, s := range c.CallsByName(fn, false, cl+"BaseChainParser.ExtensionParsing") {
				ok := false
				for _, g := range ir.Guards(s.Instr) {
					if strings.HasPrefix(g.Fact, "(call(builtin:len)(") && strings.HasSuffix(g.Fact, " != const(0))") {
						ok = true
					}
					// helper(len(msgs)) == nil
					v, edge := stripNot(g.If.Cond, g.Edge)
					if b, isBin := v.(*ssa.BinOp); isBin && edge == (b.Op.String() == "==") && isNilConst(b.Y) {
						if hc, _ := callOfValue(b.X); hc != nil && hc.Call.StaticCallee() != nil && len(hc.Call.Args) >= 1 && strings.HasPrefix(ir.Desc(hc.Call.Args[0]), "call(builtin:len)(") {
							h := hc.Call.StaticCallee()
							all := len(h.Blocks) > 0
							for _, r := range c.SuccessReturns(h) {
								if !ir.HasFact(ir.GuardFacts(r.Instr), "(param#0 != const(0))") {
									all = false
								}
							}
							if all {
								ok = true
							}
						}
					}
				}
				if ok {
					c.OK("C38e/"+pn+".ParseMsg/post-loop-code-needs-a-message", c.P.InstrPos(s.Instr), "")
				} else {
					c.Fail("C38e/"+pn+".ParseMsg/post-loop-code-needs-a-message", c.P.InstrPos(s.Instr), "an empty batch reaches the code after the per-message loop, which dereferences the api collection that only the loop assigns: parsing `[]` panics instead of failing cleanly")
				}
			}
		}

		c.Rule("C38c consumer: ParseRelay builds the relay data from the url, request bytes and connection type it parsed, the requested block of the parsed message, chainlib.GetAddon of it and the names of its extensions")
		var nrd *ssa.Call
		ir.EachInstr(pr, func(in ssa.Instruction) {
			if call, ok := in.(*ssa.Call); ok && ir.CalleeName(&call.Call) == "protocol/lavaprotocol.NewRelayData" {
				nrd = call
			}
		})
		psites := c.CallsIn(pr, pav, false)
		if nrd == nil || len(psites) != 1 {
			c.Undecided("C38c: NewRelayData or ParseAndValidateMessage call not found in ParseRelay")
		} else {
			pc := ir.CallOf(psites[0].Instr)
			a := nrd.Call.Args
			okSame := a[1] == pc.Args[3] && a[2] == pc.Args[1] && ir.Desc(a[3]) == ir.Desc(pc.Args[2])
			msg := "invoke(" + cl + "ChainMessage.RequestedBlock)(call(" + cl + "ParseAndValidateMessage)("
			okBlock := strings.HasPrefix(ir.Desc(a[5]), msg) && strings.HasSuffix(ir.Desc(a[5]), "#0")
			okAddon := strings.HasPrefix(ir.Desc(a[8]), "call("+cl+"GetAddon)(call("+cl+"ParseAndValidateMessage)(")
			okExt := strings.Contains(ir.DescN(a[9], 8), "ChainMessage.GetExtensions)(call("+cl+"ParseAndValidateMessage)(")
			if okSame && okBlock && okAddon && okExt {
				c.OK("C38c/ParseRelay/relay-data-from-own-parse", c.P.InstrPos(nrd), "")
			} else {
				c.Fail("C38c/ParseRelay/relay-data-from-own-parse", c.P.InstrPos(nrd), "relay data differs from what was parsed: same-input="+boolStr(okSame)+" block="+boolStr(okBlock)+" addon="+boolStr(okAddon)+" extensions="+boolStr(okExt))
			}
		}

		c.Rule("C38d enforcement: ValidateAddonsExtensions returns an error when the parsed collection's add-on differs from the relay's, and the relay path calls it with the relay's own add-on and extensions before serving")
		okErr := false
		for _, r := range c.AllReturns(vae) {
			ret := r.Instr.(*ssa.Return)
			if IsFailureReturn(ret) && ir.HasFact(ir.GuardFacts(ret), ".CollectionData.AddOn != param#0)") {
				okErr = true
			}
		}
		if okErr {
			c.OK("C38d/ValidateAddonsExtensions/addon-mismatch=>error", c.P.Pos(vae.Pos()), "")
		} else {
			c.Fail("C38d/ValidateAddonsExtensions/addon-mismatch=>error", c.P.Pos(vae.Pos()), "a relay whose add-on differs from the provider's parse is served")
		}
		nv := 0
		for _, s := range c.References(vae) {
			if !inProd(s.Fn) {
				continue
			}
			call := ir.CallOf(s.Instr)
			if call == nil {
				continue
			}
			nv++
			if strings.HasSuffix(ir.Desc(call.Args[1]), ".RelayData.Addon") && strings.HasSuffix(ir.Desc(call.Args[2]), ".RelayData.Extensions") {
				c.OK("C38d/"+ir.FuncName(s.Fn)+"/validates-relay's-own-addon-and-extensions", c.P.InstrPos(s.Instr), "")
			} else {
				c.Fail("C38d/"+ir.FuncName(s.Fn)+"/validates-relay's-own-addon-and-extensions", c.P.InstrPos(s.Instr), "validated against "+trunc(ir.Desc(call.Args[1]), 60))
			}
		}
		if nv == 0 {
			c.Fail("C38d/ValidateAddonsExtensions/called", c.P.Pos(vae.Pos()), "the provider never checks the relay's add-on against its parse")
		}
		c.Note("C38/cross-reference/requested-block-mismatch-not-rejected", c.P.Pos(vae.Pos()), "RPCProviderServer.ValidateRequest logs a requested-block mismatch between consumer and provider but does not return an error (TODO in the source): agreement on the requested block is not enforced")
		c.Note("C38/cross-reference/addon[0]-on-empty-addon", c.P.Pos(vae.Pos()), "ValidateAddonsExtensions formats addon[0] in its warning: an empty add-on in a relay whose parse has an add-on indexes an empty string (panic recovered by Relay's deferred recover)")
		c.Rule("C38f what sets the requested block is what is forwarded: in BaseChainParser.HandleHeaders the header value that overwrites the requested block is taken only in an iteration that has appended that very header to the forwarded list (the provider re-parses with the forwarded headers only, so a block-setting header that is dropped, or a second occurrence that is not forwarded, makes the two sides disagree on the requested block). C38g one key space for extensions: every ExtensionKey built in protocol/chainlib assigns all of Extension, ConnectionType, InternalPath and Addon — the configuration map and the per-message lookup must be keyed alike, or an add-on collection's extension silently stops being recognised on one side")
		if hh := c.Fn("protocol/chainlib.BaseChainParser.HandleHeaders"); hh != nil {
			var ow []*ssa.Store
			ir.EachInstr(hh, func(in ssa.Instruction) {
				st, ok := in.(*ssa.Store)
				if !ok {
					return
				}
				if a, ok := st.Addr.(*ssa.Alloc); ok && a.Comment == "overwriteRequestedBlock" {
					if k, isK := st.Val.(*ssa.Const); isK && k.Value != nil && k.Value.ExactString() == `""` {
						return
					}
					if allocOf(st.Val) == a {
						return // `return …, overwriteRequestedBlock, …` writing the named result back to itself
					}
					ow = append(ow, st)
				}
			})
			isFwd := func(in ssa.Instruction) bool {
				call := ir.CallOf(in)
				return call != nil && ir.CalleeName(call) == "builtin:append" && strings.HasSuffix(call.Args[0].Type().String(), "types.Metadata")
			}
			if len(ow) == 0 {
				// no defer-spilled named result: fall back to the phi form
				c.Undecided("C38f: the assignment of overwriteRequestedBlock was not found in HandleHeaders")
			}
			for i, st := range ow {
				key := "C38f/HandleHeaders/block-setting-header-is-forwarded#" + itoa(i+1)
				lp := innermostLoop(hh, st.Block())
				if lp == nil {
					c.Fail(key, c.P.InstrPos(st), "the requested-block overwrite is assigned outside the loop over the request's headers")
					continue
				}
				if !strings.HasSuffix(ir.Desc(st.Val), ".Value") {
					c.Fail(key, c.P.InstrPos(st), "the requested-block overwrite is "+trunc(ir.Desc(st.Val), 80)+", not a header's value")
					continue
				}
				if c.mustPassBeforeInIteration(hh, lp, st, isFwd) {
					c.OK(key, c.P.InstrPos(st), "append(retMetadata, header) precedes overwriteRequestedBlock = header.Value in the same iteration")
				} else {
					c.Fail(key, c.P.InstrPos(st), "a header can set the requested block in an iteration that did not forward it: the provider, which sees only the forwarded headers, resolves a different requested block")
				}
			}
		}
		{
			nKeys := 0
			for _, f := range c.P.AllFuncs {
				if !inProd(f) || !strings.HasPrefix(ir.FuncName(f), "protocol/chainlib") {
					continue
				}
				ir.EachInstr(f, func(in ssa.Instruction) {
					a, ok := in.(*ssa.Alloc)
					if !ok || !strings.HasSuffix(ir.TypeName(a.Type()), "extensionslib.ExtensionKey") {
						return
					}
					fs := structFieldStores(a)
					if len(fs) == 0 {
						return // a zero value or a copy, not a literal being filled in
					}
					nKeys++
					var missing []string
					for _, fld := range []string{"Extension", "ConnectionType", "InternalPath", "Addon"} {
						if _, ok := fs[fld]; !ok {
							missing = append(missing, fld)
						}
					}
					key := "C38g/" + ir.FuncName(f) + "/ExtensionKey-names-all-four-components"
					if len(missing) == 0 {
						c.OK(key, c.P.InstrPos(in), "Extension, ConnectionType, InternalPath, Addon")
					} else {
						c.Fail(key, c.P.InstrPos(in), "an ExtensionKey is built without "+strings.Join(missing, ", ")+": it addresses the add-on \"\"/root key space only, so extensions of other collections are configured or looked up under the wrong key")
					}
				})
			}
			if nKeys < 2 {
				c.Undecided("C38g: expected at least 2 ExtensionKey literals in protocol/chainlib, found %d", nKeys)
			}
		}
		c.NotCovered("totality: no panic/hang on arbitrary bytes in the four ParseMsg implementations and third-party JSON/protobuf decoders; CU >= 1 (spec validation, C22); determinism of the parser given equal specs")
	})
}

func boolStr(b bool) string {
	if b {
		return "ok"
	}
	return "NO"
}
