package rules

import (
	"strings"

	"golang.org/x/tools/go/ssa"

	"lavaverif/checker/ir"
)

const fsK = "x/fixationstore/types.FixationStore."

func init() {
	register("C14", "other", func(c *Ctx) {
		c.Explain = "Fixation store behaves like a versioned, ref-counted map — structural part: the version lookup walks versions newest-first and answers with the first version whose block is <= the requested block, unless that version is stale by the current height and not deleted by the requested block; GetEntry answers only for a found version not deleted by the current height and takes one reference on exactly that version; putEntry refuses a zero count, drops one reference and, at zero, either discards a future version or sets StaleAt = now + stale period and arms a stale timer for that version at StaleAt; PutEntry refuses the last reference of the latest version; timer kinds are dispatched to their own handlers; versions are physically removed only by deleteStaleEntries (for versions that are stale now) and putFutureEntry (a future version nobody references), and the index only with them."
		look := c.Fn(fsK + "getUnmarshaledEntryForBlock")
		get := c.Fn(fsK + "GetEntry")
		put := c.Fn(fsK + "putEntry")
		pub := c.Fn(fsK + "PutEntry")
		cb := c.Fn(fsK + "entryCallbackBeginBlock")
		dse := c.Fn(fsK + "deleteStaleEntries")
		rme := c.Fn(fsK + "removeEntry")
		if look == nil || get == nil || put == nil || pub == nil || cb == nil || dse == nil || rme == nil {
			return
		}

		c.Rule("C14a lookup: getUnmarshaledEntryForBlock iterates with KVStoreReversePrefixIterator; it returns found only for the current version under version.Block <= requested block, and not past IsStaleBy(current height) ∧ !IsDeletedBy(requested block), where it stops searching")
		if n := len(c.CallsByName(look, false, "github.com/cosmos/cosmos-sdk/types.KVStoreReversePrefixIterator")); n == 1 {
			c.OK("C14a/lookup/newest-first", c.P.Pos(look.Pos()), "reverse prefix iterator")
		} else {
			c.Fail("C14a/lookup/newest-first", c.P.Pos(look.Pos()), "versions are not scanned newest-first: the first match is not the nearest no-later version")
		}
		nFound := 0
		for _, r := range c.AllReturns(look) {
			ret := r.Instr.(*ssa.Return)
			if ret.Block() == look.Recover {
				continue
			}
			fv := RetVal(ret, 1)
			if ir.Desc(fv) != "const(true)" {
				continue
			}
			nFound++
			f := ir.GuardFacts(ret)
			okLE := ir.HasFact(f, ".Block <= param#2)")
			// not on the (stale ∧ !deleted) path
			stale := "call(x/fixationstore/types.Entry.IsStaleBy)("
			del := "call(x/fixationstore/types.Entry.IsDeletedBy)("
			okVis := ir.HasFact(f, "!"+stale) || ir.HasFact(f, del) && !ir.HasFact(f, "!"+del)
			if !okVis {
				// the return block joins the two visible outcomes: every edge into it must be
				// "not stale" or "deleted by the requested block"
				okVis = len(ret.Block().Preds) > 0
				for _, p := range ret.Block().Preds {
					iff, isIf := p.Instrs[len(p.Instrs)-1].(*ssa.If)
					if !isIf {
						okVis = false
						continue
					}
					fact := ir.Fact(iff.Cond, p.Succs[0] == ret.Block())
					if !(strings.HasPrefix(fact, "!"+stale) || strings.HasPrefix(fact, del)) {
						okVis = false
					}
				}
			}
			if okLE && okVis {
				c.OK("C14a/lookup/found=first-version-not-later-and-visible", c.P.InstrPos(ret), "")
			} else {
				c.Fail("C14a/lookup/found=first-version-not-later-and-visible", c.P.InstrPos(ret), "a version is returned without Block <= requested block, or although it is stale and not deleted")
			}
		}
		if nFound == 0 {
			c.Undecided("C14a: no found-return in getUnmarshaledEntryForBlock")
		}
		// staleness is judged at the current height, deletion at the requested block
		okArgs := 0
		ir.EachInstr(look, func(in ssa.Instruction) {
			call := ir.CallOf(in)
			if call == nil {
				return
			}
			switch ir.CalleeName(call) {
			case "x/fixationstore/types.Entry.IsStaleBy":
				if strings.Contains(ir.Desc(call.Args[1]), "Context.BlockHeight)(param#0)") {
					okArgs++
				}
			case "x/fixationstore/types.Entry.IsDeletedBy":
				if ir.Desc(call.Args[1]) == "param#2" {
					okArgs++
				}
			}
		})
		if okArgs == 2 {
			c.OK("C14a/lookup/stale-by-now,deleted-by-requested-block", c.P.Pos(look.Pos()), "")
		} else {
			c.Fail("C14a/lookup/stale-by-now,deleted-by-requested-block", c.P.Pos(look.Pos()), "staleness is not tested against the current height and deletion against the requested block")
		}

		c.Rule("C14b references: GetEntry returns true only past found ∧ !IsDeletedBy(current height) of the lookup at the current height, and stores that version with Refcount+1; putEntry panics on Refcount == 0 before decrementing by one; at zero a version with Block > now goes to putFutureEntry, otherwise StaleAt = now + getStaleBlocks and a stale timer keyed (index, version block, stale kind) is armed at StaleAt; PutEntry does not drop the last reference of the latest version")
		for _, r := range c.AllReturns(get) {
			ret := r.Instr.(*ssa.Return)
			if ir.Desc(ret.Results[0]) != "const(true)" {
				continue
			}
			f := ir.GuardFacts(ret)
			if hasResultFact(f, fsK+"getUnmarshaledEntryForBlock)(", 1, true) && ir.HasFact(f, "!call(x/fixationstore/types.Entry.IsDeletedBy)(") {
				c.OK("C14b/GetEntry/true-only-for-found-and-not-deleted", c.P.InstrPos(ret), "")
			} else {
				c.Fail("C14b/GetEntry/true-only-for-found-and-not-deleted", c.P.InstrPos(ret), "GetEntry hands out a version that was not found or is deleted at the current height")
			}
		}
		refInc, refDec := false, false
		ir.EachInstr(get, func(in ssa.Instruction) {
			if st, ok := in.(*ssa.Store); ok {
				if fa, ok := st.Addr.(*ssa.FieldAddr); ok && fieldNameOfAddr(fa) == "Refcount" && strings.HasPrefix(ir.Desc(st.Val), "(const(1) + ") {
					refInc = true
				}
			}
		})
		ir.EachInstr(put, func(in ssa.Instruction) {
			if st, ok := in.(*ssa.Store); ok {
				if fa, ok := st.Addr.(*ssa.FieldAddr); ok && fieldNameOfAddr(fa) == "Refcount" && strings.HasSuffix(ir.Desc(st.Val), ".Refcount - const(1))") {
					refDec = ir.HasFact(ir.GuardFacts(st), ".Refcount != const(0))")
					if !refDec {
						// the zero case is an assertion: its branch calls LavaFormatPanic before joining
						for _, ie := range c.IfsMatching(put, FactHas("zero", ".Refcount == const(0))")) {
							succ := ie.If.Block().Succs[0]
							if !ie.Edge {
								succ = ie.If.Block().Succs[1]
							}
							for _, in2 := range succ.Instrs {
								if call := ir.CallOf(in2); call != nil && ir.CalleeName(call) == "utils.LavaFormatPanic" {
									if ie.If.Block().Dominates(st.Block()) {
										refDec = true
									}
								}
							}
						}
					}
				}
			}
		})
		if refInc && len(c.CallsByName(get, false, fsK+"setEntry")) == 1 {
			c.OK("C14b/GetEntry/takes-one-reference", c.P.Pos(get.Pos()), "Refcount += 1; setEntry")
		} else {
			c.Fail("C14b/GetEntry/takes-one-reference", c.P.Pos(get.Pos()), "GetEntry does not store the version with one more reference")
		}
		if refDec {
			c.OK("C14b/putEntry/drops-one-reference-never-below-zero", c.P.Pos(put.Pos()), "decrement only past Refcount != 0 (the zero case panics)")
		} else {
			c.Fail("C14b/putEntry/drops-one-reference-never-below-zero", c.P.Pos(put.Pos()), "the reference count is decremented without the zero check (uint64 wrap makes the version immortal)")
		}
		// stale scheduling
		okStale, okTimer := false, false
		ir.EachInstr(put, func(in ssa.Instruction) {
			if st, ok := in.(*ssa.Store); ok {
				if fa, ok := st.Addr.(*ssa.FieldAddr); ok && fieldNameOfAddr(fa) == "StaleAt" {
					d := ir.Desc(st.Val)
					if strings.Contains(d, "Context.BlockHeight)(param#0)") && strings.Contains(d, ".getStaleBlocks)(param#0)") && strings.Contains(d, " + ") {
						okStale = ir.HasFact(ir.GuardFacts(st), ".Refcount - const(1)) == const(0))") || ir.HasFact(ir.GuardFacts(st), " == const(0))")
					}
				}
			}
			if call := ir.CallOf(in); call != nil && ir.CalleeName(call) == tsK+"AddTimerByBlockHeight" {
				key := ir.DescN(call.Args[3], 8)
				kind := c.Const("x/fixationstore/types", "timerStaleEntry")
				if strings.HasSuffix(ir.Desc(call.Args[2]), ".StaleAt") && strings.HasPrefix(key, "call(x/fixationstore/types.encodeForTimer)(") && strings.Contains(key, ".Block,"+kind+")") {
					okTimer = true
				}
			}
		})
		if okStale && okTimer {
			c.OK("C14b/putEntry/zero=>stale-at-now+period-with-timer", c.P.Pos(put.Pos()), "")
		} else {
			c.Fail("C14b/putEntry/zero=>stale-at-now+period-with-timer", c.P.Pos(put.Pos()), "a version whose count reached zero is not given StaleAt = now + stale period and a stale timer for itself at that block: it vanishes early or is never collected")
		}
		c.RequireGuards("C14b", c.CallsByName(put, false, fsK+"putFutureEntry"), "putFutureEntry", FactHas("future-version", "(conv<uint64>(call(github.com/cosmos/cosmos-sdk/types.Context.BlockHeight)(param#0)) < ", ".Block)"))
		okLast := false
		for _, r := range c.AllReturns(pub) {
			f := ir.GuardFacts(r.Instr)
			if ir.HasFact(f, ".IsLatest") && ir.HasFact(f, ".Refcount == const(1))") {
				// this return must not be preceded by putEntry
				if !c.mustPassBefore(pub, r.Instr, IsCallTo(fsK+"putEntry")) {
					okLast = true
				}
			}
		}
		if okLast {
			c.OK("C14b/PutEntry/keeps-last-reference-of-latest", c.P.Pos(pub.Pos()), "")
		} else {
			c.Fail("C14b/PutEntry/keeps-last-reference-of-latest", c.P.Pos(pub.Pos()), "the latest version's own reference can be dropped: the current value of the entry becomes stale while still latest")
		}

		c.Rule("C14c timers: entryCallbackBeginBlock dispatches the future, delete and stale kinds to updateFutureEntry, deleteMarkedEntry and deleteStaleEntries with the decoded index and block")
		for kind, h := range map[string]string{"timerFutureEntry": "updateFutureEntry", "timerDeleteEntry": "deleteMarkedEntry", "timerStaleEntry": "deleteStaleEntries"} {
			kc := c.Const("x/fixationstore/types", kind)
			ok := false
			for _, s := range c.CallsByName(cb, false, fsK+h) {
				call := ir.CallOf(s.Instr)
				if ir.HasFact(ir.GuardFacts(s.Instr), "decodeFromTimer)(param#1)#2 == "+kc+")") && strings.HasSuffix(ir.Desc(call.Args[2]), "decodeFromTimer)(param#1)#0") && strings.HasSuffix(ir.Desc(call.Args[3]), "decodeFromTimer)(param#1)#1") {
					ok = true
				}
			}
			if ok && kc != "" {
				c.OK("C14c/callback/"+kind+"->"+h, c.P.Pos(cb.Pos()), "")
			} else {
				c.Fail("C14c/callback/"+kind+"->"+h, c.P.Pos(cb.Pos()), "timer kind "+kind+" is not handled by "+h+" with the decoded (index, block)")
			}
		}

		c.Rule("C14d collection: removeEntry is called only by deleteStaleEntries and putFutureEntry; in deleteStaleEntries a version is scheduled for removal only past IsStale(now) == true, and exactly the scheduled blocks are removed; the entry index is removed only there and in putFutureEntry")
		c.RequireCallers("C14d", fsK+"removeEntry", fsK+"deleteStaleEntries", fsK+"putFutureEntry")
		c.RequireCallers("C14d", fsK+"removeEntryIndex", fsK+"deleteStaleEntries", fsK+"putFutureEntry")
		nApp := 0
		ir.EachInstr(dse, func(in ssa.Instruction) {
			call := ir.CallOf(in)
			if call == nil || ir.CalleeName(call) != "builtin:append" || !strings.Contains(call.Args[0].Type().String(), "uint64") {
				return
			}
			nApp++
			if ir.HasFact(ir.GuardFacts(in), "call(x/fixationstore/types.Entry.IsStale)(") && !ir.HasFact(ir.GuardFacts(in), "!call(x/fixationstore/types.Entry.IsStale)(") {
				c.OK("C14d/deleteStaleEntries/only-stale-versions-are-scheduled", c.P.InstrPos(in), "")
			} else {
				c.Fail("C14d/deleteStaleEntries/only-stale-versions-are-scheduled", c.P.InstrPos(in), "a version that is not stale now (still visible to lookups) is scheduled for removal")
			}
		})
		if nApp != 1 {
			c.Undecided("C14d: expected one removal-scheduling append in deleteStaleEntries, found %d", nApp)
		}
		for _, s := range c.CallsIn(dse, rme, false) {
			d := ir.Desc(ir.CallOf(s.Instr).Args[3])
			if innermostLoop(dse, s.Instr.Block()) != nil && (strings.Contains(d, "[i]") || strings.Contains(d, "phi{") || strings.Contains(d, "append")) {
				c.OK("C14d/deleteStaleEntries/removes-the-scheduled-blocks", c.P.InstrPos(s.Instr), "")
			} else {
				c.Fail("C14d/deleteStaleEntries/removes-the-scheduled-blocks", c.P.InstrPos(s.Instr), "removes "+trunc(d, 80))
			}
		}
		c.Rule("C14e pending delete moves with the latest version: in AppendEntry the previous latest version's DeleteAt is taken over (remembered, then reset to 'none' and stored) directly under latestEntry.HasDeleteAt(), with no further condition; the new version is created with that DeleteAt, and under entry.HasDeleteAt() the delete timer is transferred from the previous to the new version")
		if ap := c.Fn(fsK + "AppendEntry"); ap != nil {
			var reset *ssa.Store
			ir.EachInstr(ap, func(in ssa.Instruction) {
				if st, ok := in.(*ssa.Store); ok {
					if fa, ok := st.Addr.(*ssa.FieldAddr); ok && fieldNameOfAddr(fa) == "DeleteAt" && strings.Contains(ir.Desc(st.Val), "18446744073709551615") {
						if a := allocOf(fa.X); a != nil || true {
							if reset == nil {
								reset = st
							}
						}
					}
				}
			})
			if reset == nil {
				c.Fail("C14e/AppendEntry/takes-over-pending-delete", c.P.Pos(ap.Pos()), "the previous latest version's pending delete is no longer taken over by the appended version")
			} else {
				// the takeover may depend only on: a previous version was found and is usable
				// (found, not deleted now, not the same block, not deleted by the new block) and
				// it has a pending delete. Any further condition (e.g. "only for future
				// versions") leaves the delete on a superseded version.
				direct := false
				extra := ""
				for _, f := range ir.GuardFacts(reset) {
					switch {
					case strings.HasPrefix(f, "call(x/fixationstore/types.Entry.HasDeleteAt)("):
						direct = true
					case strings.HasPrefix(f, "!call(x/fixationstore/types.Entry.IsDeletedBy)("),
						strings.HasPrefix(f, "!call(x/fixationstore/types.Entry.IsDeleted)("),
						strings.HasSuffix(f, ".Block != param#2)"), strings.HasSuffix(f, ".Block <= param#2)"),
						strings.HasPrefix(f, "call("+fsK+"getUnmarshaledEntryForBlock)("),
						strings.Contains(f, "SanitizeIndex)(param#1)#1 == nil)"):
					default:
						extra = f
					}
				}
				if extra != "" {
					direct = false
				}
				if direct {
					c.OK("C14e/AppendEntry/takes-over-pending-delete", c.P.InstrPos(reset), "directly under latestEntry.HasDeleteAt()")
				} else {
					c.Fail("C14e/AppendEntry/takes-over-pending-delete", c.P.InstrPos(reset), "the pending delete is taken over only under an additional condition: otherwise the superseded version keeps its delete timer after giving up its 'latest' reference, and the timer's putEntry hits refcount 0 (panic in BeginBlock)")
				}
			}
			if reset != nil {
				// the version that gave up its DeleteAt is written back on every path (current-block
				// appends store it again through putEntry, future appends have nothing else that would)
				var holder *ssa.Alloc
				if fa, ok := reset.Addr.(*ssa.FieldAddr); ok {
					holder = allocOf(fa.X)
				}
				stores := func(in ssa.Instruction) bool {
					call := ir.CallOf(in)
					if call == nil || holder == nil {
						return false
					}
					n := ir.CalleeName(call)
					if n != fsK+"setEntry" && n != fsK+"putEntry" {
						return false
					}
					return len(call.Args) >= 3 && allocOf(call.Args[2]) == holder
				}
				r := c.MustPass(ap, reset, stores, func(ret *ssa.Return) bool { return !IsFailureReturn(ret) })
				if holder != nil && r.OK {
					c.OK("C14e/AppendEntry/cleared-holder-is-stored", c.P.InstrPos(reset), "setEntry/putEntry of the previous holder on every successful path after DeleteAt was cleared")
				} else {
					c.Fail("C14e/AppendEntry/cleared-holder-is-stored", c.P.InstrPos(reset), "after the previous version's DeleteAt is cleared in memory a successful return is reachable without writing that version back ("+r.Witness+"): the store keeps two versions carrying DeleteAt while only the newer owns the delete timer, and the next take-over panics on the missing timer")
				}
			}
			okTransfer := false
			for _, s := range c.CallsByName(ap, false, fsK+"transferTimer") {
				call := ir.CallOf(s.Instr)
				kind := c.Const("x/fixationstore/types", "timerDeleteEntry")
				if ir.HasFact(ir.GuardFacts(s.Instr), "call(x/fixationstore/types.Entry.HasDeleteAt)(") && ir.Desc(call.Args[5]) == kind && strings.HasSuffix(ir.Desc(call.Args[4]), ".DeleteAt") {
					okTransfer = true
				}
			}
			if okTransfer {
				c.OK("C14e/AppendEntry/transfers-delete-timer-to-new-version", c.P.Pos(ap.Pos()), "")
			} else {
				c.Fail("C14e/AppendEntry/transfers-delete-timer-to-new-version", c.P.Pos(ap.Pos()), "the delete timer is not moved to the appended version")
			}
		}
		c.Rule("C14f delete discards the future: every successful return of DelEntry has passed trimFutureEntries (a deleted entry's not-yet-effective versions must not come back to life); a delete at the current block calls deleteMarkedEntry, a later one arms a delete timer at that block")
		if de := c.Fn(fsK + "DelEntry"); de != nil {
			r := c.MustPass(de, nil, IsCallTo(fsK+"trimFutureEntries"), SuccessExit)
			if r.OK && len(c.SuccessReturns(de)) > 0 {
				c.OK("C14f/DelEntry/success=>future-versions-trimmed", c.P.Pos(de.Pos()), itoa(len(c.SuccessReturns(de)))+" success returns")
			} else {
				c.Fail("C14f/DelEntry/success=>future-versions-trimmed", c.P.Pos(de.Pos()), "DelEntry can succeed without trimFutureEntries ("+r.Witness+"): a future version of the deleted entry stays findable and becomes the latest again when its block arrives")
			}
			okNow, okLater := false, false
			for _, s := range c.CallsByName(de, false, fsK+"deleteMarkedEntry") {
				if ir.HasFact(ir.GuardFacts(s.Instr), "(conv<uint64>(call(github.com/cosmos/cosmos-sdk/types.Context.BlockHeight)(param#0)) == param#2)") || ir.HasFact(ir.GuardFacts(s.Instr), "(param#2 == conv<uint64>(call(github.com/cosmos/cosmos-sdk/types.Context.BlockHeight)(param#0)))") {
					okNow = true
				}
			}
			for _, s := range c.CallsByName(de, false, tsK+"AddTimerByBlockHeight") {
				call := ir.CallOf(s.Instr)
				if ir.Desc(call.Args[2]) == "param#2" && strings.Contains(ir.DescN(call.Args[3], 8), c.Const("x/fixationstore/types", "timerDeleteEntry")) {
					okLater = true
				}
			}
			if okNow && okLater {
				c.OK("C14f/DelEntry/now=>deleteMarkedEntry,later=>delete-timer", c.P.Pos(de.Pos()), "")
			} else {
				c.Fail("C14f/DelEntry/now=>deleteMarkedEntry,later=>delete-timer", c.P.Pos(de.Pos()), "an immediate delete is not applied now, or a future delete has no timer at its block")
			}
		}
		c.NotCovered("equivalence with a reference model over operation sequences; AppendEntry/DelEntry/future-version bookkeeping; the marker logic that decides which stale versions must stay; that legal use never reaches the assertion panics")
	})
}
