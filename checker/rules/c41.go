package rules

import (
	"go/token"
	"go/types"
	"strings"

	"golang.org/x/tools/go/ssa"

	"lavaverif/checker/ir"
)

const rlK = "protocol/rpcprovider.ResourceLimiter."

// isParamCall: a dynamic call of the function's own parameter named name.
func isParamCall(in ssa.Instruction, name string) bool {
	call := ir.CallOf(in)
	if call == nil || call.IsInvoke() {
		return false
	}
	p, ok := call.Value.(*ssa.Parameter)
	return ok && p.Name() == name
}

// selectChosen: cond is `extract(sel,0) == k` (or !=); returns the select, k and the
// edge on which state k was chosen.
func selectChosen(cond ssa.Value) (*ssa.Select, int64, bool, bool) {
	b, ok := cond.(*ssa.BinOp)
	if !ok || (b.Op != token.EQL && b.Op != token.NEQ) || !isIntConst(b.Y) {
		return nil, 0, false, false
	}
	ex, ok := b.X.(*ssa.Extract)
	if !ok || ex.Index != 0 {
		return nil, 0, false, false
	}
	sel, ok := ex.Tuple.(*ssa.Select)
	if !ok {
		return nil, 0, false, false
	}
	return sel, b.Y.(*ssa.Const).Int64(), b.Op == token.EQL, true
}

func init() {
	register("C41", "other", func(c *Ctx) {
		c.Explain = "Provider load limiting admits, runs and answers each request once — structural part: with the limiter enabled the request closure is called only inside executeWithSemaphore, which runs it exactly once and releases its permit by a defer registered before the call; executeWithSemaphore is entered only with a permit just obtained from the bucket's semaphore (TryAcquire true / Acquire nil), and the semaphores are created with the configured maxima; the queue worker answers every dequeued request exactly once per iteration on a result channel of capacity 1; the queue has one consumer, started once; and the caller of a queued request returns only with the worker's answer, or after a handshake that guarantees the worker will not run it — otherwise a request can be running while its caller already got an error (and Relay's unsynchronised executionStarted flag is read while the closure may write it)."
		acq := c.Fn(rlK + "Acquire")
		ews := c.Fn(rlK + "executeWithSemaphore")
		enq := c.Fn(rlK + "enqueueRequest")
		pq := c.Fn(rlK + "processQueue")
		nrl := c.Fn("protocol/rpcprovider.NewResourceLimiter")
		if acq == nil || ews == nil || enq == nil || pq == nil || nrl == nil {
			return
		}

		c.Rule("C41a run once, release always: executeWithSemaphore calls its execute parameter exactly once, after registering `defer sem.Release(1)` on its own semaphore parameter; nothing else releases a limiter semaphore")
		var execCalls []ssa.Instruction
		var rel *ssa.Defer
		ir.EachInstr(ews, func(in ssa.Instruction) {
			if isParamCall(in, "execute") {
				execCalls = append(execCalls, in)
			}
			if d, ok := in.(*ssa.Defer); ok && ir.CalleeName(&d.Call) == "golang.org/x/sync/semaphore.Weighted.Release" {
				rel = d
			}
		})
		switch {
		case len(execCalls) != 1:
			c.Fail("C41a/executeWithSemaphore/runs-execute-once", c.P.Pos(ews.Pos()), "execute is called "+itoa(len(execCalls))+" times")
		case innermostLoop(ews, execCalls[0].Block()) != nil:
			c.Fail("C41a/executeWithSemaphore/runs-execute-once", c.P.InstrPos(execCalls[0]), "execute is called inside a loop")
		default:
			c.OK("C41a/executeWithSemaphore/runs-execute-once", c.P.InstrPos(execCalls[0]), "single call, not in a loop")
		}
		if rel == nil {
			c.Fail("C41a/executeWithSemaphore/defer-release-before-execute", c.P.Pos(ews.Pos()), "no deferred Release of the permit")
		} else {
			p, isParam := rel.Call.Args[0].(*ssa.Parameter)
			before := len(execCalls) == 1 && c.mustPassBefore(ews, execCalls[0], func(in ssa.Instruction) bool { return in == ssa.Instruction(rel) })
			one := isIntConst(rel.Call.Args[1]) && rel.Call.Args[1].(*ssa.Const).Int64() == 1
			if isParam && p.Name() == "sem" && before && one {
				c.OK("C41a/executeWithSemaphore/defer-release-before-execute", c.P.InstrPos(rel), "defer sem.Release(1) dominates the execute() call: released on return and on panic")
			} else {
				c.Fail("C41a/executeWithSemaphore/defer-release-before-execute", c.P.InstrPos(rel), "the permit is not released by a defer on the function's own semaphore registered before execute() runs")
			}
		}
		nrel := 0
		for _, f := range c.P.AllFuncs {
			if !inProd(f) || !strings.HasPrefix(ir.FuncName(f), "protocol/rpcprovider.") {
				continue
			}
			for _, s := range c.CallsByName(f, false, "golang.org/x/sync/semaphore.Weighted.Release") {
				nrel++
				if topName(f) == rlK+"executeWithSemaphore" {
					continue
				}
				// the worker may hand back a permit it acquired but will not use: only past a
				// successful sem.Acquire, and on a path that does not go on to run the request
				handBack := false
				if topName(f) == rlK+"processQueue" {
					for _, g := range ir.Guards(s.Instr) {
						if ErrNil("golang.org/x/sync/semaphore.Weighted.Acquire").Match(g) {
							handBack = true
						}
					}
					for _, e := range c.CallsIn(f, ews, false) {
						if s.Instr.Block() == e.Instr.Block() || ir.SameIterationReach(f, s.Instr.Block(), e.Instr.Block()) {
							handBack = false
						}
					}
				}
				if handBack {
					nrel--
					c.OK("C41a/Release/processQueue-hands-back-unused-permit", c.P.InstrPos(s.Instr), "released instead of executeWithSemaphore, past Acquire == nil")
				} else {
					c.Fail("C41a/Release/only-in-executeWithSemaphore", c.P.InstrPos(s.Instr), "a limiter permit is released in "+ir.FuncName(f)+" (not a hand-back of an acquired, unused permit)")
				}
			}
		}
		if nrel == 1 {
			c.OK("C41a/Release/only-in-executeWithSemaphore", c.P.Pos(ews.Pos()), "one Release site")
		} else if nrel == 0 {
			c.Undecided("C41a: no semaphore Release found in protocol/rpcprovider")
		}

		c.Rule("C41b permits: executeWithSemaphore is called only from Acquire past TryAcquire(1)==true on getSemaphore(bucket) and from processQueue past sem.Acquire(qr.ctx,1)==nil, with that same semaphore; Acquire calls execute directly only when the limiter is nil or disabled; on the TryAcquire-false outcome Acquire never reaches executeWithSemaphore or execute; semaphores are created with config[bucket].MaxConcurrent")
		c.RequireCallers("C41b", rlK+"executeWithSemaphore", rlK+"Acquire", rlK+"processQueue")
		for _, s := range c.CallsIn(acq, ews, false) {
			call := ir.CallOf(s.Instr)
			semArg := call.Args[2]
			okGuard := false
			for _, g := range ir.Guards(s.Instr) {
				v, edge := stripNot(g.If.Cond, g.Edge)
				if cl, _ := callOfValue(v); cl != nil && edge && ir.CalleeName(&cl.Call) == "golang.org/x/sync/semaphore.Weighted.TryAcquire" && cl.Call.Args[0] == semArg {
					okGuard = true
				}
			}
			if okGuard && strings.HasPrefix(ir.Desc(semArg), "call("+rlK+"getSemaphore)(recv,call("+rlK+"selectBucket)(") && ir.Desc(call.Args[1]) == "call("+rlK+"selectBucket)(recv,param#1,param#2)" {
				c.OK("C41b/Acquire/fast-path-holds-permit-of-same-bucket", c.P.InstrPos(s.Instr), "TryAcquire(1) on the semaphore that is handed to executeWithSemaphore")
			} else {
				c.Fail("C41b/Acquire/fast-path-holds-permit-of-same-bucket", c.P.InstrPos(s.Instr), "executeWithSemaphore is entered without TryAcquire having succeeded on the same bucket's semaphore")
			}
		}
		for _, s := range c.CallsIn(pq, ews, false) {
			call := ir.CallOf(s.Instr)
			semArg := call.Args[2]
			okGuard := false
			for _, g := range ir.Guards(s.Instr) {
				if ErrNil("golang.org/x/sync/semaphore.Weighted.Acquire").Match(g) {
					v, _ := stripNot(g.If.Cond, g.Edge)
					if b, ok := v.(*ssa.BinOp); ok {
						if cl, _ := callOfValue(b.X); cl != nil && cl.Call.Args[0] == semArg {
							okGuard = true
						}
					}
				}
			}
			if okGuard {
				c.OK("C41b/processQueue/holds-permit-of-same-semaphore", c.P.InstrPos(s.Instr), "sem.Acquire(qr.ctx, 1) == nil on the semaphore handed on")
			} else {
				c.Fail("C41b/processQueue/holds-permit-of-same-semaphore", c.P.InstrPos(s.Instr), "the queue worker runs a request without having acquired a permit on the semaphore it will release")
			}
			if d := ir.Desc(call.Args[3]); strings.HasSuffix(d, ".execute") {
				c.OK("C41b/processQueue/runs-the-dequeued-request", c.P.InstrPos(s.Instr), d)
			} else {
				c.Fail("C41b/processQueue/runs-the-dequeued-request", c.P.InstrPos(s.Instr), "the worker runs "+trunc(d, 80)+", not the dequeued request's closure")
			}
		}
		// direct execute in Acquire
		ir.EachInstr(acq, func(in ssa.Instruction) {
			if !isParamCall(in, "execute") {
				return
			}
			facts := ir.GuardFacts(in)
			if ir.HasFact(facts, "(recv == nil)") || ir.HasFact(facts, "!recv.enabled") || ir.HasFact(facts, "(recv.enabled == const(false))") {
				c.OK("C41b/Acquire/direct-execute-only-when-disabled", c.P.InstrPos(in), "pass-through")
			} else {
				// reached by either rl == nil or !rl.enabled: the block has two predecessors, both from those tests
				ok := true
				for _, p := range in.Block().Preds {
					iff, isIf := p.Instrs[len(p.Instrs)-1].(*ssa.If)
					if !isIf {
						ok = false
						continue
					}
					f := ir.Fact(iff.Cond, p.Succs[0] == in.Block())
					if !(strings.Contains(f, "recv == nil") || strings.Contains(f, "!recv.enabled")) {
						ok = false
					}
				}
				if ok && len(in.Block().Preds) > 0 {
					c.OK("C41b/Acquire/direct-execute-only-when-disabled", c.P.InstrPos(in), "reached only from rl == nil or !rl.enabled")
				} else {
					c.Fail("C41b/Acquire/direct-execute-only-when-disabled", c.P.InstrPos(in), "Acquire runs the request without a permit while the limiter is enabled")
				}
			}
		})
		for _, ie := range c.IfsMatching(acq, CallIs(false, "golang.org/x/sync/semaphore.Weighted.TryAcquire")) {
			var sinks []Site
			sinks = append(sinks, c.CallsIn(acq, ews, false)...)
			ir.EachInstr(acq, func(in ssa.Instruction) {
				if isParamCall(in, "execute") {
					sinks = append(sinks, Site{Fn: acq, Instr: in})
				}
			})
			if ok, where := c.EdgeCannotReach(ie, sinks); ok {
				c.OK("C41b/Acquire/no-permit=>no-run", c.P.InstrPos(ie.If), "the busy outcome only queues or rejects")
			} else {
				c.Fail("C41b/Acquire/no-permit=>no-run", c.P.InstrPos(ie.If), "the request is run at "+where+" although TryAcquire failed")
			}
		}
		nsem := 0
		for _, s := range c.CallsByName(nrl, false, "golang.org/x/sync/semaphore.NewWeighted") {
			nsem++
			d := ir.Desc(ir.CallOf(s.Instr).Args[0])
			if strings.HasSuffix(d, ".MaxConcurrent") {
				c.OK("C41b/NewResourceLimiter/semaphore-size=MaxConcurrent#"+itoa(nsem), c.P.InstrPos(s.Instr), d)
			} else {
				c.Fail("C41b/NewResourceLimiter/semaphore-size=MaxConcurrent#"+itoa(nsem), c.P.InstrPos(s.Instr), "semaphore created with "+trunc(d, 80))
			}
		}
		if nsem != 2 {
			c.Undecided("C41b: expected two semaphores in NewResourceLimiter, found %d", nsem)
		}

		c.Rule("C41c worker answers once: in processQueue every path through one loop iteration sends exactly once on the dequeued request's result channel (no path without a send, no send that can be followed by another in the same iteration); the result channel is created with capacity 1, so the send never blocks on an absent caller; heavyQueue has a single consumer (processQueue) started by one go statement in NewResourceLimiter")
		var sends []*ssa.Send
		ir.EachInstr(pq, func(in ssa.Instruction) {
			if s, ok := in.(*ssa.Send); ok && strings.HasSuffix(ir.Desc(s.Chan), ".result") {
				sends = append(sends, s)
			}
		})
		if len(sends) < 2 {
			c.Undecided("C41c: expected >=2 result sends in processQueue, found %d", len(sends))
		} else {
			loop := innermostLoop(pq, sends[0].Block())
			if loop == nil {
				c.Fail("C41c/processQueue/answers-each-request-once", c.P.Pos(pq.Pos()), "result sends are not inside the dequeue loop")
			} else {
				sendBlocks := map[*ssa.BasicBlock]bool{}
				for _, s := range sends {
					sendBlocks[s.Block()] = true
				}
				// (i) no iteration path without a send: from the header's in-loop successor, the header is not reachable avoiding send blocks
				missing := false
				for _, s := range loop.Header.Succs {
					if !loop.Blocks[s] {
						continue
					}
					reach := ir.Reachable(s, func(b *ssa.BasicBlock) bool { return sendBlocks[b] || !loop.Blocks[b] })
					if reach[loop.Header] && !sendBlocks[s] {
						missing = true
					}
				}
				// (ii) no two sends on one iteration path
				double := false
				for _, a := range sends {
					for _, b := range sends {
						if a != b && ir.SameIterationReach(pq, a.Block(), b.Block()) {
							double = true
						}
						if a != b && a.Block() == b.Block() {
							double = true
						}
					}
				}
				switch {
				case missing:
					c.Fail("C41c/processQueue/answers-each-request-once", c.P.Pos(pq.Pos()), "an iteration path dequeues a request and never answers it: its caller waits for the queue deadline")
				case double:
					c.Fail("C41c/processQueue/answers-each-request-once", c.P.Pos(pq.Pos()), "an iteration path answers the same request twice: the second send blocks the worker forever (capacity 1)")
				default:
					c.OK("C41c/processQueue/answers-each-request-once", c.P.Pos(pq.Pos()), itoa(len(sends))+" send sites, one per iteration path")
				}
			}
		}
		ir.EachInstr(enq, func(in ssa.Instruction) {
			if mc, ok := in.(*ssa.MakeChan); ok {
				if ch, isCh := mc.Type().Underlying().(*types.Chan); isCh && ch.Elem().String() == "error" {
					if isIntConst(mc.Size) && mc.Size.(*ssa.Const).Int64() >= 1 {
						c.OK("C41c/enqueueRequest/result-channel-buffered", c.P.InstrPos(mc), "capacity >= 1")
					} else {
						c.Fail("C41c/enqueueRequest/result-channel-buffered", c.P.InstrPos(mc), "the result channel is unbuffered: after the caller gives up the worker blocks forever on the send and the queue stops")
					}
				}
			}
		})
		ngo := 0
		for _, f := range c.P.AllFuncs {
			if !inProd(f) {
				continue
			}
			ir.EachInstr(f, func(in ssa.Instruction) {
				if g, ok := in.(*ssa.Go); ok && ir.CalleeName(&g.Call) == rlK+"processQueue" {
					ngo++
					if topName(f) != "protocol/rpcprovider.NewResourceLimiter" || innermostLoop(f, g.Block()) != nil {
						c.Fail("C41c/processQueue/single-consumer", c.P.InstrPos(g), "a second queue worker is started")
					}
				}
			})
		}
		if ngo == 1 {
			c.OK("C41c/processQueue/single-consumer", c.P.Pos(nrl.Pos()), "one go statement, in the constructor")
		} else if ngo == 0 {
			c.Fail("C41c/processQueue/single-consumer", c.P.Pos(nrl.Pos()), "no queue worker is started: queued requests are never run")
		}
		c.RequireCallers("C41c", rlK+"processQueue", "protocol/rpcprovider.NewResourceLimiter")

		c.Rule("C41d handoff: in enqueueRequest, once the request was put on the queue, a return is reached only through the branch of the select in which the worker's answer (<-qr.result) was received, or past a successful compare-and-swap on a field of the queued request that the worker also compare-and-swaps before running it (abandon handshake); the not-enqueued outcome returns an error without the request ever being reachable by the worker")
		var sendSel *ssa.Select
		ir.EachInstr(enq, func(in ssa.Instruction) {
			if sel, ok := in.(*ssa.Select); ok {
				for _, st := range sel.States {
					if st.Dir == types.SendOnly {
						sendSel = sel
					}
				}
			}
		})
		if sendSel == nil {
			c.Undecided("C41d: enqueueRequest no longer enqueues with a select send")
		} else {
			// successor block on which the send was chosen
			var start *ssa.BasicBlock
			for _, b := range enq.Blocks {
				if len(b.Instrs) == 0 {
					continue
				}
				iff, ok := b.Instrs[len(b.Instrs)-1].(*ssa.If)
				if !ok {
					continue
				}
				if sel, k, onTrue, ok := selectChosen(iff.Cond); ok && sel == sendSel && k == 0 {
					if onTrue {
						start = b.Succs[0]
					} else {
						start = b.Succs[1]
					}
				}
			}
			if start == nil {
				c.Undecided("C41d: cannot find the enqueued outcome of the select in enqueueRequest")
			} else {
				// blocks entered only with the worker's answer received, or past an abandon CAS
				safe := map[*ssa.BasicBlock]bool{}
				for _, b := range enq.Blocks {
					if len(b.Instrs) == 0 {
						continue
					}
					iff, ok := b.Instrs[len(b.Instrs)-1].(*ssa.If)
					if !ok {
						continue
					}
					if sel, k, onTrue, ok := selectChosen(iff.Cond); ok && sel != sendSel && int(k) < len(sel.States) {
						st := sel.States[k]
						if st.Dir == types.RecvOnly && strings.HasSuffix(ir.Desc(st.Chan), ".result") {
							if onTrue {
								safe[b.Succs[0]] = true
							} else {
								safe[b.Succs[1]] = true
							}
						}
					}
					v, edge := stripNot(iff.Cond, true)
					if cl, _ := callOfValue(v); cl != nil && casOnQueuedRequest(cl) {
						if c.workerClaims(pq, ews) {
							if edge {
								safe[b.Succs[0]] = true
							} else {
								safe[b.Succs[1]] = true
							}
						}
					}
				}
				// plain receive `<-qr.result` also makes the rest of the block and its dominated region safe
				recvBlocks := map[*ssa.BasicBlock]bool{}
				ir.EachInstr(enq, func(in ssa.Instruction) {
					if u, ok := in.(*ssa.UnOp); ok && u.Op == token.ARROW && strings.HasSuffix(ir.Desc(u.X), ".result") {
						recvBlocks[u.Block()] = true
					}
				})
				reach := ir.Reachable(start, func(b *ssa.BasicBlock) bool { return safe[b] || recvBlocks[b] })
				var bad []string
				for b := range reach {
					if safe[b] || recvBlocks[b] {
						continue
					}
					if len(b.Instrs) > 0 {
						if r, ok := b.Instrs[len(b.Instrs)-1].(*ssa.Return); ok && b != enq.Recover {
							bad = append(bad, c.P.InstrPos(r))
						}
					}
				}
				key := "C41d/enqueueRequest/enqueued=>returns-only-with-the-workers-answer"
				if len(bad) == 0 {
					c.OK(key, c.P.InstrPos(sendSel), "every return after a successful enqueue is behind <-qr.result (or an abandon handshake)")
				} else {
					c.Fail(key, c.P.InstrPos(sendSel), "after the request was queued, enqueueRequest can return (at "+strings.Join(dedupSorted(bad), ", ")+") without the worker's answer and without a handshake: the worker may be running the request, or start it later, while the caller was already told it failed — the request runs although its caller got an error, and Relay reads executionStarted while the closure writes it")
				}
			}
		}

		// the deadline the caller waits on is the one the worker checks
		var qctx, waited ssa.Value
		ir.EachInstr(enq, func(in ssa.Instruction) {
			if st, ok := in.(*ssa.Store); ok {
				if fa, ok := st.Addr.(*ssa.FieldAddr); ok && ir.FieldKey(fa) == "protocol/rpcprovider.queuedRequest.ctx" {
					qctx = st.Val
				}
			}
			if sel, ok := in.(*ssa.Select); ok && sel != sendSel {
				for _, st := range sel.States {
					if cl, _ := callOfValue(st.Chan); cl != nil && cl.Call.IsInvoke() && cl.Call.Method.Name() == "Done" {
						waited = cl.Call.Value
					}
				}
			}
		})
		if qctx == nil {
			// the request may be built by a constructor: take the argument that ends up in .ctx
			ir.EachInstr(enq, func(in ssa.Instruction) {
				call := ir.CallOf(in)
				if call == nil {
					return
				}
				callee := call.StaticCallee()
				if callee == nil || callee.Blocks == nil {
					return
				}
				ir.EachInstr(callee, func(x ssa.Instruction) {
					if st, ok := x.(*ssa.Store); ok {
						if fa, ok := st.Addr.(*ssa.FieldAddr); ok && ir.FieldKey(fa) == "protocol/rpcprovider.queuedRequest.ctx" {
							if p, ok := st.Val.(*ssa.Parameter); ok {
								for i, q := range callee.Params {
									if q == p && i < len(call.Args) {
										qctx = call.Args[i]
									}
								}
							}
						}
					}
				})
			})
		}
		// the worker's report must never block: it sends to qr.result once, possibly after the caller left
		nRes := 0
		for _, s := range c.FieldStores("protocol/rpcprovider.queuedRequest.result") {
			if !inProd(s.Fn) {
				continue
			}
			nRes++
			st := s.Instr.(*ssa.Store)
			mk, isMk := st.Val.(*ssa.MakeChan)
			k, isK := (ssa.Value)(nil), false
			if isMk {
				k, isK = mk.Size, true
			}
			kc, isConst := k.(*ssa.Const)
			if isMk && isK && isConst && isIntConst(kc) && kc.Int64() >= 1 {
				c.OK("C41d/queuedRequest.result/buffered", c.P.InstrPos(st), "make(chan error, "+itoa(int(kc.Int64()))+")")
			} else {
				c.Fail("C41d/queuedRequest.result/buffered", c.P.InstrPos(st), "the channel on which the single queue worker reports a request's outcome is not created with capacity >= 1 ("+trunc(ir.Desc(st.Val), 60)+"): the worker blocks for ever on the first request whose caller already left on its deadline, and the queue is never drained again")
			}
		}
		if nRes == 0 {
			c.Undecided("C41d: no store to queuedRequest.result found")
		}
		if sendSel == nil {
			// already undecided above
		} else if qctx == nil || waited == nil {
			c.Undecided("C41d: queuedRequest.ctx store or the caller's Done() wait not found in enqueueRequest")
		} else if qctx == waited && strings.HasPrefix(ir.Desc(qctx), "call(context.WithTimeout)(param#0,") {
			c.OK("C41d/enqueueRequest/worker-checks-the-deadline-the-caller-waits-on", c.P.InstrPos(sendSel), "qr.ctx and the select's Done() are the same WithTimeout(ctx, cfg.Timeout) context")
		} else {
			c.Fail("C41d/enqueueRequest/worker-checks-the-deadline-the-caller-waits-on", c.P.InstrPos(sendSel), "the worker tests "+trunc(ir.Desc(qctx), 70)+" while the caller waits on "+trunc(ir.Desc(waited), 70)+": after the caller gave up on the queue deadline the worker still considers the request live and runs it")
		}

		c.Rule("C41e Relay: the limiter is entered at one site; a limiter error with executionStarted==false calls OnSessionFailure; the closure sets executionStarted before anything else and always ends in finalizeSession")
		if relay := c.Fn("protocol/rpcprovider.RPCProviderServer.Relay"); relay != nil {
			sites := c.CallsByName(relay, false, rlK+"Acquire")
			if len(sites) != 1 {
				c.Undecided("C41e: expected one ResourceLimiter.Acquire call in Relay, found %d", len(sites))
			} else {
				call := ir.CallOf(sites[0].Instr)
				var clo *ssa.Function
				if mc, ok := call.Args[len(call.Args)-1].(*ssa.MakeClosure); ok {
					clo = mc.Fn.(*ssa.Function)
				}
				if clo == nil {
					c.Undecided("C41e: the request closure passed to Acquire is not a function literal")
				} else {
					r := c.MustPass(clo, nil, IsCallTo("protocol/rpcprovider.RPCProviderServer.finalizeSession"), func(*ssa.Return) bool { return true })
					if r.OK {
						c.OK("C41e/Relay.closure/always-finalizes-session", c.P.Pos(clo.Pos()), "every return of the closure passes finalizeSession")
					} else {
						c.Fail("C41e/Relay.closure/always-finalizes-session", c.P.Pos(clo.Pos()), "the closure can return without finalizeSession ("+r.Witness+"): the session stays locked")
					}
					first := ""
					for _, in := range clo.Blocks[0].Instrs {
						if st, ok := in.(*ssa.Store); ok {
							first = ir.Desc(st.Addr) + "=" + ir.Desc(st.Val)
							break
						}
						if ir.CallOf(in) != nil {
							break
						}
					}
					if strings.Contains(first, "executionStarted") && strings.HasSuffix(first, "=const(true)") {
						c.OK("C41e/Relay.closure/sets-executionStarted-first", c.P.Pos(clo.Pos()), "before any call")
					} else {
						c.Fail("C41e/Relay.closure/sets-executionStarted-first", c.P.Pos(clo.Pos()), "the closure does work before marking execution as started")
					}
				}
				fails := c.CallsByName(relay, false, "protocol/lavasession.ProviderSessionManager.OnSessionFailure")
				okAfter := false
				for _, f := range fails {
					if f.Instr.Block() == sites[0].Instr.Block() || !sites[0].Instr.Block().Dominates(f.Instr.Block()) {
						continue
					}
					for _, g := range ir.Guards(f.Instr) {
						v, edge := stripNot(g.If.Cond, g.Edge)
						if ld, ok := v.(*ssa.UnOp); ok && ld.Op == token.MUL && !edge {
							if a, ok := ld.X.(*ssa.Alloc); ok && a.Comment == "executionStarted" {
								okAfter = true
							}
						}
					}
				}
				if okAfter {
					c.OK("C41e/Relay/limiter-rejection-releases-session", c.P.InstrPos(sites[0].Instr), "OnSessionFailure under err != nil && !executionStarted")
				} else {
					c.Fail("C41e/Relay/limiter-rejection-releases-session", c.P.InstrPos(sites[0].Instr), "a request rejected by the limiter leaves its session locked and charged")
				}
			}
		}
		c.NotCovered("fairness and actual timing; that the semaphore implementation honours its weight; metrics counters")
	})
}

// casOnQueuedRequest: a CompareAndSwap on an atomic field of a queuedRequest.
func casOnQueuedRequest(cl *ssa.Call) bool {
	if !strings.HasSuffix(ir.CalleeName(&cl.Call), ".CompareAndSwap") || len(cl.Call.Args) == 0 {
		return false
	}
	fa, ok := cl.Call.Args[0].(*ssa.FieldAddr)
	return ok && strings.HasPrefix(ir.FieldKey(fa), "protocol/rpcprovider.queuedRequest.")
}

// workerClaims: the queue worker runs a request only past a successful compare-and-swap
// on a field of the dequeued request.
func (c *Ctx) workerClaims(pq, ews *ssa.Function) bool {
	sites := c.CallsIn(pq, ews, false)
	if len(sites) == 0 {
		return false
	}
	for _, s := range sites {
		ok := false
		for _, g := range ir.Guards(s.Instr) {
			v, edge := stripNot(g.If.Cond, g.Edge)
			if cl, _ := callOfValue(v); cl != nil && edge && casOnQueuedRequest(cl) {
				ok = true
			}
		}
		if !ok {
			return false
		}
	}
	return true
}

func dedupSorted(s []string) []string {
	m := map[string]bool{}
	for _, x := range s {
		m[x] = true
	}
	return sortedKeys(m)
}
