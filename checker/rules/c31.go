package rules

import (
	"fmt"
	"go/token"
	"strings"

	"golang.org/x/tools/go/ssa"

	"lavaverif/checker/ir"
)

const cl = "protocol/chainlib."

func blockTag(v int64) string {
	switch v {
	case -1:
		return "NOT_APPLICABLE"
	case -2:
		return "LATEST"
	case -3:
		return "EARLIEST"
	case -4:
		return "PENDING"
	case -5:
		return "SAFE"
	case -6:
		return "FINALIZED"
	}
	return fmt.Sprint(v)
}

// guardsOfEdge: branch decisions known on the CFG edge pred->blk.
func guardsOfEdge(pred, blk *ssa.BasicBlock) []ir.Guard {
	gs := ir.GuardsOfBlock(pred)
	if len(pred.Instrs) > 0 {
		if iff, ok := pred.Instrs[len(pred.Instrs)-1].(*ssa.If); ok && len(pred.Succs) == 2 && pred.Succs[0] != pred.Succs[1] {
			edge := pred.Succs[0] == blk
			gs = append([]ir.Guard{{If: iff, Block: pred, Edge: edge, Fact: ir.Fact(iff.Cond, edge)}}, gs...)
		}
	}
	return gs
}

// loopIndexZero recognises a comparison of the loop's own iteration counter with 0:
// the counter is a header phi entering with c0 and stepping by +1, compared (possibly
// after the rotated "+1") so that equality holds exactly in the first iteration.
// It returns (isFirstIteration-on-true-edge, ok).
func loopIndexZero(cond ssa.Value, loop *ir.Loop) (firstOnTrue bool, ok bool) {
	b, isBin := cond.(*ssa.BinOp)
	if !isBin || (b.Op != token.EQL && b.Op != token.NEQ) {
		return false, false
	}
	x, y := b.X, b.Y
	if _, isC := x.(*ssa.Const); isC {
		x, y = y, x
	}
	k, isC := y.(*ssa.Const)
	if !isC || !isIntConst(k) {
		return false, false
	}
	want := k.Int64()
	// x is either phi (enter c0, step +1) or phi+1
	off := int64(0)
	if add, isAdd := x.(*ssa.BinOp); isAdd && add.Op == token.ADD {
		if c1, isK := add.Y.(*ssa.Const); isK && isIntConst(c1) {
			off = c1.Int64()
			x = add.X
		} else if c1, isK := add.X.(*ssa.Const); isK && isIntConst(c1) {
			off = c1.Int64()
			x = add.Y
		}
	}
	phi, isPhi := x.(*ssa.Phi)
	if !isPhi || phi.Block() != loop.Header {
		return false, false
	}
	var enter *int64
	stepOK := true
	for i, e := range phi.Edges {
		p := phi.Block().Preds[i]
		if !loop.Blocks[p] {
			if c0, isK := e.(*ssa.Const); isK && isIntConst(c0) {
				v := c0.Int64()
				enter = &v
			} else {
				return false, false
			}
			continue
		}
		st, isAdd := e.(*ssa.BinOp)
		if !isAdd || st.Op != token.ADD {
			stepOK = false
			continue
		}
		one, isK := st.Y.(*ssa.Const)
		if !(isK && isIntConst(one) && one.Int64() == 1 && st.X == phi) {
			one, isK = st.X.(*ssa.Const)
			if !(isK && isIntConst(one) && one.Int64() == 1 && st.Y == phi) {
				stepOK = false
			}
		}
	}
	if enter == nil || !stepOK {
		return false, false
	}
	// value in the first iteration is *enter+off; it increases afterwards
	if *enter+off != want {
		return false, false
	}
	return b.Op == token.EQL, true
}

type accLeaf struct {
	kind   string // member | combined | carry | other
	v      ssa.Value
	guards []ir.Guard // in-loop decisions on the way to this leaf
}

// accLeaves resolves v through the loop's non-header phis.
func accLeaves(v ssa.Value, loop *ir.Loop, guards []ir.Guard, seen map[ssa.Value]bool, classify func(ssa.Value) string) []accLeaf {
	if phi, ok := v.(*ssa.Phi); ok && loop.Blocks[phi.Block()] && phi.Block() != loop.Header && !seen[v] {
		seen[v] = true
		var out []accLeaf
		for i, e := range phi.Edges {
			var gs []ir.Guard
			for _, g := range guardsOfEdge(phi.Block().Preds[i], phi.Block()) {
				if relevantGuard(g, loop) {
					gs = append(gs, g)
				}
			}
			out = append(out, accLeaves(e, loop, append(append([]ir.Guard{}, guards...), gs...), seen, classify)...)
		}
		return out
	}
	return []accLeaf{{classify(v), v, guards}}
}

// relevantGuard: a decision taken inside the loop both of whose outcomes continue the
// iteration (the loop condition itself and error exits are not per-member choices).
func relevantGuard(g ir.Guard, loop *ir.Loop) bool {
	if !loop.Blocks[g.Block] || len(g.Block.Succs) != 2 {
		return false
	}
	return loop.Blocks[g.Block.Succs[0]] && loop.Blocks[g.Block.Succs[1]]
}

func inLoopGuards(b *ssa.BasicBlock, loop *ir.Loop) []ir.Guard {
	var out []ir.Guard
	for _, g := range ir.GuardsOfBlock(b) {
		if relevantGuard(g, loop) {
			out = append(out, g)
		}
	}
	return out
}

// variantGuard reports a decision that depends on a value computed inside the loop.
func variantGuard(g ir.Guard, loop *ir.Loop) bool {
	seen := map[ssa.Value]bool{}
	var dep func(v ssa.Value) bool
	dep = func(v ssa.Value) bool {
		if seen[v] {
			return false
		}
		seen[v] = true
		in, ok := v.(ssa.Instruction)
		if !ok {
			return false
		}
		if !loop.Blocks[in.Block()] {
			return false // computed before the loop
		}
		switch x := in.(type) {
		case *ssa.BinOp, *ssa.Convert, *ssa.ChangeType, *ssa.Extract:
			// pure: variant only through an operand
		case *ssa.UnOp:
			if x.Op == token.MUL {
				return true // a load inside the loop
			}
		default:
			return true // phi, call, ... inside the loop
		}
		for _, op := range in.Operands(nil) {
			if op != nil && *op != nil && dep(*op) {
				return true
			}
		}
		return false
	}
	return dep(g.If.Cond)
}

// singleIterationGuard: the decision establishes len(X) <= 1 where len(X) is also the
// loop's bound, so under it the loop body runs for index 0 only.
func singleIterationGuard(g ir.Guard, loop *ir.Loop) bool {
	b, ok := g.If.Cond.(*ssa.BinOp)
	if !ok {
		return false
	}
	isOne := func(v ssa.Value) bool {
		k, ok := v.(*ssa.Const)
		return ok && isIntConst(k) && k.Int64() == 1
	}
	var lenV ssa.Value
	switch {
	case b.Op == token.GTR && isOne(b.Y) && !g.Edge: // !(len > 1)
		lenV = b.X
	case b.Op == token.LEQ && isOne(b.Y) && g.Edge: // len <= 1
		lenV = b.X
	case b.Op == token.LSS && isOne(b.X) && !g.Edge: // !(1 < len)
		lenV = b.Y
	case b.Op == token.EQL && isOne(b.Y) && g.Edge: // len == 1
		lenV = b.X
	case b.Op == token.NEQ && isOne(b.Y) && !g.Edge:
		lenV = b.X
	default:
		return false
	}
	d := ir.Desc(lenV)
	if !strings.HasPrefix(d, "call(builtin:len)(") {
		return false
	}
	h := loop.Header
	if len(h.Instrs) == 0 {
		return false
	}
	iff, ok := h.Instrs[len(h.Instrs)-1].(*ssa.If)
	if !ok {
		return false
	}
	bound, ok := iff.Cond.(*ssa.BinOp)
	return ok && bound.Op == token.LSS && ir.Desc(bound.Y) == d
}

// infeasibleLeaf: "not the first iteration" together with "the loop has one iteration".
func infeasibleLeaf(gs []ir.Guard, loop *ir.Loop) bool {
	notFirst, single := false, false
	for _, g := range gs {
		if firstOnTrue, ok := loopIndexZero(g.If.Cond, loop); ok && g.Edge != firstOnTrue {
			notFirst = true
		}
		if singleIterationGuard(g, loop) {
			single = true
		}
	}
	return notFirst && single
}

// batchAccumulators checks the fold of the members' blocks in one parser's ParseMsg.
func (c *Ctx) batchAccumulators(fnName string, identity map[int][]int64, rule ...string) {
	rp := "C31b"
	if len(rule) > 0 {
		rp = rule[0]
	}
	fn := c.Fn(fnName)
	comb := c.Fn(cl + "CompareRequestedBlockInBatch")
	if fn == nil || comb == nil {
		return
	}
	short := strings.TrimPrefix(fnName, cl)
	sites := c.CallsIn(fn, comb, false)
	if len(sites) != 1 {
		c.Undecided(rp+": expected exactly one CompareRequestedBlockInBatch call in %s, found %d", fnName, len(sites))
		return
	}
	call, ok := sites[0].Instr.(*ssa.Call)
	if !ok {
		c.Undecided(rp+": combiner call in %s is not a plain call", fnName)
		return
	}
	loop := innermostLoop(fn, call.Block())
	if loop == nil {
		c.Fail(rp+"/"+short+"/combiner-in-member-loop", c.P.InstrPos(call), "the pairwise combiner is not called inside the loop over the batch members")
		return
	}
	member := call.Call.Args[2]
	if !strings.HasPrefix(ir.Desc(member), "call(protocol/parser.ParsedInput.GetBlock)(") {
		c.Fail(rp+"/"+short+"/combiner-gets-member-block", c.P.InstrPos(call), "third argument of the combiner is not this member's parsed block: "+trunc(ir.Desc(member), 100))
	} else {
		c.OK(rp+"/"+short+"/combiner-gets-member-block", c.P.InstrPos(call), "parsedInput.GetBlock() of the member being parsed")
	}
	for k, acc := range []string{"latest", "earliest"} {
		// header phi of this accumulator
		var ext *ssa.Extract
		if refs := call.Referrers(); refs != nil {
			for _, r := range *refs {
				if e, ok := r.(*ssa.Extract); ok && e.Index == k {
					ext = e
				}
			}
		}
		key := rp + "/" + short + "/" + acc
		if ext == nil {
			c.Fail(key+"/result-kept", c.P.InstrPos(call), "result #"+itoa(k)+" of the combiner is discarded")
			continue
		}
		var H *ssa.Phi
		seenV := map[ssa.Value]bool{}
		work := []ssa.Value{ext}
		for len(work) > 0 && H == nil {
			v := work[0]
			work = work[1:]
			if seenV[v] {
				continue
			}
			seenV[v] = true
			if refs := v.Referrers(); refs != nil {
				for _, r := range *refs {
					if phi, ok := r.(*ssa.Phi); ok && loop.Blocks[phi.Block()] {
						if phi.Block() == loop.Header {
							H = phi
							break
						}
						work = append(work, phi)
					}
				}
			}
		}
		if H == nil {
			c.Fail(key+"/result-kept", c.P.InstrPos(call), "the combined "+acc+" block is not carried to the next member")
			continue
		}
		classify := func(v ssa.Value) string {
			switch {
			case v == H:
				return "carry"
			case v == ssa.Value(ext):
				return "combined"
			case v == member || ir.Desc(v) == ir.Desc(member):
				return "member"
			}
			return "other"
		}
		var seed ssa.Value
		var leaves []accLeaf
		for i, e := range H.Edges {
			if loop.Blocks[H.Block().Preds[i]] {
				var gs []ir.Guard
				for _, g := range guardsOfEdge(H.Block().Preds[i], H.Block()) {
					if relevantGuard(g, loop) {
						gs = append(gs, g)
					}
				}
				leaves = append(leaves, accLeaves(e, loop, gs, map[ssa.Value]bool{}, classify)...)
			} else {
				seed = e
			}
		}
		// every member enters
		skipped, invariantSkip := false, false
		for _, lf := range leaves {
			if infeasibleLeaf(lf.guards, loop) {
				continue // a later iteration of a loop known to have a single iteration
			}
			switch lf.kind {
			case "carry":
				variant := false
				for _, g := range lf.guards {
					if variantGuard(g, loop) {
						variant = true
					}
				}
				if variant {
					skipped = true
					c.Fail(key+"/every-member-enters", c.P.InstrPos(call), "on some iterations (decided by a per-member condition: "+trunc(guardText(lf.guards), 120)+") the "+acc+" accumulator is carried unchanged: that member's block never enters the summary")
				} else {
					invariantSkip = true
				}
			case "other":
				skipped = true
				c.Fail(key+"/every-member-enters", c.P.InstrPos(call), "the "+acc+" accumulator is assigned "+trunc(ir.Desc(lf.v), 100)+", which is neither the member's block nor the combiner's result")
			}
		}
		if !skipped {
			detail := "each iteration assigns the member's block or the combiner's result"
			if invariantSkip {
				detail += "; the accumulator is left untouched only under a loop-invariant condition (no member is combined at all)"
			}
			c.OK(key+"/every-member-enters", c.P.InstrPos(call), detail)
		}
		if invariantSkip {
			// the untouched seed must not be what the message is built from
			okOverride := false
			for _, s := range c.CallsByName(fn, false, strings.TrimSuffix(fnName, "ParseMsg")+"newBatchChainMessage") {
				bc := ir.CallOf(s.Instr)
				arg := bc.Args[len(bc.Args)-6+k] // (api, latest, earliest, hashes, msgs, coll, default) after the receiver
				if phi, ok := arg.(*ssa.Phi); ok {
					for _, e := range phi.Edges {
						if e != ssa.Value(H) {
							okOverride = true
						}
					}
				}
			}
			if okOverride {
				c.OK(key+"/untouched-seed-overridden", c.P.InstrPos(call), "the value given to newBatchChainMessage is replaced after the loop on the path where no member was combined")
				c.Assumes(short + ": the loop-invariant condition that skips combining (single-member batch) coincides with the post-loop override condition")
			} else {
				c.Fail(key+"/untouched-seed-overridden", c.P.InstrPos(call), "when no member is combined the initial constant reaches the batch message")
			}
		}
		// seed: dead in the first iteration, or neutral
		argLeaves := accLeaves(call.Call.Args[k], loop, inLoopGuards(call.Block(), loop), map[ssa.Value]bool{}, classify)
		seedLive := false
		for _, lf := range argLeaves {
			if lf.kind != "carry" || infeasibleLeaf(lf.guards, loop) {
				continue
			}
			notFirst := false
			for _, g := range lf.guards {
				if firstOnTrue, ok := loopIndexZero(g.If.Cond, loop); ok && g.Edge != firstOnTrue {
					notFirst = true
				}
			}
			if !notFirst {
				seedLive = true
			}
		}
		skey := key + "/initial-value-neutral-or-unused"
		if !seedLive {
			c.OK(skey, c.P.InstrPos(call), "the combiner sees the accumulator only after the first member assigned it (first iteration peeled by the index==0 branch)")
			continue
		}
		if identity == nil {
			continue // the caller (C32e) leaves the neutral-element question to C31b/C31c
		}
		sc, isC := seed.(*ssa.Const)
		if !isC || !isIntConst(sc) {
			c.Fail(skey, c.P.InstrPos(call), "the accumulator's initial value reaches the combiner and is not a constant: "+trunc(ir.Desc(seed), 80))
			continue
		}
		neutral := false
		for _, id := range identity[k] {
			if id == sc.Int64() {
				neutral = true
			}
		}
		if neutral {
			c.OK(skey, c.P.InstrPos(call), "initial value "+blockTag(sc.Int64())+" is a neutral element of the "+acc+" combiner (C31c)")
		} else {
			c.Fail(skey, c.P.InstrPos(call), "the initial value "+blockTag(sc.Int64())+" of the "+acc+" accumulator is combined with the first member although it is not a neutral element of the combiner: the summary depends on a block nobody requested")
		}
	}
}

func guardText(gs []ir.Guard) string {
	var out []string
	for _, g := range gs {
		out = append(out, g.Fact)
	}
	return strings.Join(out, " ∧ ")
}

func init() {
	register("C31", "other", func(c *Ctx) {
		c.Explain = "Batch requests are summarised order-independently — structural part: the batch's compute units are the running sum of the members' compute units; every member's parsed block enters both the latest and the earliest accumulator (no member is skipped by a per-member condition, and an initial constant is either never seen by the combiner or is its neutral element); the pairwise combiner is an order-only function (it touches block values only through comparisons), so its algebra is decided exactly on the finite set of order types: each component is commutative and associative (hence fold-order independent), selects one of its arguments, is max/min on numeric blocks, and the earliest component keeps an archive-relevant member (EARLIEST or the smallest number); the summarised blocks are stored unswapped in the batch message; the eth_call archive requirement is added per member, not per first member."
		comb := c.Fn(cl + "CompareRequestedBlockInBatch")
		if comb == nil {
			return
		}
		// ---- C31c first: the algebra gives the neutral elements used by C31b
		c.Rule("C31c combiner algebra (E9 order-type evaluation): CompareRequestedBlockInBatch is order-only; over all block values (tags -6..-1, 0, positive numbers) result#0 depends only on (currentLatest, parsed), result#1 only on (currentEarliest, parsed); each is commutative, associative and returns one of its two arguments; on two numeric blocks they are max and min; earliest(EARLIEST, x) = EARLIEST; for a numeric member a, earliest(a, x) is EARLIEST or a number <= a")
		consts := map[int64]bool{}
		ordConsts(comb, map[*ssa.Function]bool{}, consts)
		for v := int64(-6); v <= 0; v++ {
			consts[v] = true
		}
		D := ordDomain(consts, -6, 3)
		identity := map[int][]int64{}
		eval := func(a, b, p int64) (int64, int64, error) {
			r, err := ordEval(comb, []oval{{kind: 0, i: a}, {kind: 0, i: b}, {kind: 0, i: p}}, 0)
			if err != nil {
				return 0, 0, err
			}
			if len(r) != 2 || r[0].kind != 0 || r[1].kind != 0 {
				return 0, 0, ordFail("combiner does not return two integers")
			}
			return r[0].i, r[1].i, nil
		}
		if _, _, err := eval(1, 1, 1); err != nil {
			c.Undecided("C31c: CompareRequestedBlockInBatch is no longer an order-only function (%v): its algebra cannot be decided on order types", err)
		} else {
			pos := c.P.Pos(comb.Pos())
			// independence + component functions
			indep := ""
			for _, a := range D {
				for _, p := range D {
					l0, e0, _ := eval(a, D[0], p)
					for _, o := range D {
						l1, _, _ := eval(a, o, p)
						_, e1, _ := eval(o, a, p)
						_, e0b, _ := eval(D[0], a, p)
						if l1 != l0 {
							indep = fmt.Sprintf("latest(%s,·,%s) changes with currentEarliest", blockTag(a), blockTag(p))
						}
						if e1 != e0b {
							indep = fmt.Sprintf("earliest(·,%s,%s) changes with currentLatest", blockTag(a), blockTag(p))
						}
					}
					_ = e0
				}
			}
			if indep == "" {
				c.OK("C31c/CompareRequestedBlockInBatch/components-independent", pos, fmt.Sprintf("%d order-type representatives", len(D)))
			} else {
				c.Fail("C31c/CompareRequestedBlockInBatch/components-independent", pos, indep)
			}
			comp := []func(a, p int64) int64{
				func(a, p int64) int64 { l, _, _ := eval(a, D[0], p); return l },
				func(a, p int64) int64 { _, e, _ := eval(D[0], a, p); return e },
			}
			for k, acc := range []string{"latest", "earliest"} {
				f := comp[k]
				key := "C31c/CompareRequestedBlockInBatch/" + acc
				comm, assoc, sel, num := "", "", "", ""
				for _, a := range D {
					for _, b := range D {
						if f(a, b) != f(b, a) && comm == "" {
							comm = fmt.Sprintf("%s(%s,%s)=%s but %s(%s,%s)=%s", acc, blockTag(a), blockTag(b), blockTag(f(a, b)), acc, blockTag(b), blockTag(a), blockTag(f(b, a)))
						}
						if r := f(a, b); r != a && r != b && sel == "" {
							sel = fmt.Sprintf("%s(%s,%s)=%s is neither argument", acc, blockTag(a), blockTag(b), blockTag(r))
						}
						if a >= 0 && b >= 0 && num == "" {
							want := a
							if (k == 0 && b > a) || (k == 1 && b < a) {
								want = b
							}
							if f(a, b) != want {
								num = fmt.Sprintf("%s(%d,%d)=%s", acc, a, b, blockTag(f(a, b)))
							}
						}
						for _, x := range D {
							if f(f(a, b), x) != f(a, f(b, x)) && assoc == "" {
								assoc = fmt.Sprintf("members (%s, %s, %s): combining left to right gives %s, combining the last two first gives %s", blockTag(a), blockTag(b), blockTag(x), blockTag(f(f(a, b), x)), blockTag(f(a, f(b, x))))
							}
						}
					}
				}
				report := func(name, witness, okDetail, failPrefix string) {
					if witness == "" {
						c.OK(key+"/"+name, pos, okDetail)
					} else {
						c.Fail(key+"/"+name, pos, failPrefix+witness)
					}
				}
				report("commutative", comm, "f(a,b)=f(b,a) on all order types", "the "+acc+" summary depends on which member comes first: ")
				report("associative", assoc, "f(f(a,b),c)=f(a,f(b,c)) on all order types", "the "+acc+" summary depends on the order of the members: ")
				report("selects-an-argument", sel, "result is one of the two blocks", "")
				if k == 0 {
					report("max-on-numbers", num, "max of two numeric blocks", "numeric members not covered: ")
				} else {
					report("min-on-numbers", num, "min of two numeric blocks", "numeric members not covered: ")
				}
				for _, s := range D {
					isID := true
					for _, x := range D {
						if f(s, x) != x {
							isID = false
						}
					}
					if isID {
						identity[k] = append(identity[k], s)
					}
				}
			}
			e := comp[1]
			abs, arch := "", ""
			for _, x := range D {
				if e(-3, x) != -3 || e(x, -3) != -3 {
					abs = "earliest(EARLIEST," + blockTag(x) + ")=" + blockTag(e(-3, x))
				}
				for _, a := range D {
					if a >= 0 && arch == "" {
						if r := e(a, x); !(r == -3 || (r >= 0 && r <= a)) {
							arch = fmt.Sprintf("earliest(%d, %s) = %s: a batch of a numeric member and a %s member is summarised as %s, for which the archive rule never fires although the numeric member alone can require archive", a, blockTag(x), blockTag(r), blockTag(x), blockTag(r))
						}
					}
				}
			}
			if abs == "" {
				c.OK("C31c/CompareRequestedBlockInBatch/earliest/EARLIEST-absorbs", pos, "an 'earliest' member keeps the batch on archive")
			} else {
				c.Fail("C31c/CompareRequestedBlockInBatch/earliest/EARLIEST-absorbs", pos, abs)
			}
			if arch == "" {
				c.OK("C31c/CompareRequestedBlockInBatch/earliest/keeps-archive-relevant-member", pos, "a numeric member is never replaced by a tag other than EARLIEST or by a larger number")
			} else {
				c.Fail("C31c/CompareRequestedBlockInBatch/earliest/keeps-archive-relevant-member", pos, arch)
			}
		}

		c.Rule("C31b fold: in JsonRPCChainParser.ParseMsg and TendermintChainParser.ParseMsg the combiner is called in the member loop with the member's parsed block; for each of the two accumulators, every iteration assigns the member's block or the combiner's result (an accumulator carried unchanged under a per-member condition skips that member); the accumulator's initial constant is either never seen by the combiner (first iteration peeled by index==0) or is a neutral element of that component (from C31c)")
		c.batchAccumulators(cl+"JsonRPCChainParser.ParseMsg", identity)
		c.batchAccumulators(cl+"TendermintChainParser.ParseMsg", identity)

		c.Rule("C31a compute units: the batch api's ComputeUnits (and ExtraComputeUnits) is accumulator.ComputeUnits + member.ComputeUnits, the accumulator starting as the first member's api")
		for _, pn := range []string{"JsonRPCChainParser", "TendermintChainParser"} {
			fn := c.Fn(cl + pn + ".ParseMsg")
			if fn == nil {
				continue
			}
			for _, fld := range []string{"ComputeUnits", "ExtraComputeUnits"} {
				n := 0
				for _, s := range c.FieldStores("x/spec/types.Api." + fld) {
					if s.Fn != fn {
						continue
					}
					n++
					st := s.Instr.(*ssa.Store)
					key := "C31a/" + pn + ".ParseMsg/" + fld + "=running-sum"
					b, isBin := st.Val.(*ssa.BinOp)
					if !isBin || b.Op != token.ADD {
						c.Fail(key, c.P.InstrPos(st), "batch "+fld+" is "+trunc(ir.Desc(st.Val), 120)+", not a sum")
						continue
					}
					dx, dy := ir.Desc(b.X), ir.Desc(b.Y)
					accSide, memSide := "", ""
					for _, d := range []string{dx, dy} {
						if !strings.HasSuffix(d, "."+fld) {
							continue
						}
						if strings.HasPrefix(d, "phi{") {
							accSide = d
						} else if strings.Contains(d, "getSupportedApi") && strings.HasSuffix(d, ".api."+fld) {
							memSide = d
						}
					}
					if accSide != "" && memSide != "" && strings.Contains(accSide, "local(x/spec/types.Api)") {
						c.OK(key, c.P.InstrPos(st), "api."+fld+" + apiCont.api."+fld)
					} else {
						c.Fail(key, c.P.InstrPos(st), "batch "+fld+" is not accumulated-so-far + this member's: "+trunc(dx, 90)+" + "+trunc(dy, 90))
					}
				}
				if n == 0 {
					// the construction may live in a helper that ParseMsg calls per member: hold the helper to the same rule
					key := "C31a/" + pn + ".ParseMsg/" + fld + "=running-sum"
					var helper *ssa.Function
					var hcall *ssa.CallCommon
					var hat ssa.Instruction
					ir.EachInstr(fn, func(in ssa.Instruction) {
						call := ir.CallOf(in)
						if call == nil {
							return
						}
						callee := call.StaticCallee()
						if callee == nil || callee.Blocks == nil || !inProd(callee) {
							return
						}
						for _, s := range c.FieldStores("x/spec/types.Api." + fld) {
							if s.Fn == callee {
								helper, hcall, hat = callee, call, in
							}
						}
					})
					if helper != nil {
						n = 1
						ok, why := true, ""
						var sumStore *ssa.Store
						for _, s := range c.FieldStores("x/spec/types.Api." + fld) {
							if s.Fn == helper {
								sumStore = s.Instr.(*ssa.Store)
							}
						}
						b, isBin := sumStore.Val.(*ssa.BinOp)
						accArg, memArg := -1, -1
						if !isBin || b.Op != token.ADD {
							ok, why = false, "helper "+ir.FuncName(helper)+" sets "+fld+" to "+trunc(ir.Desc(sumStore.Val), 100)+", not a sum"
						} else {
							var idx []int
							for _, side := range []ssa.Value{b.X, b.Y} {
								d := ir.Desc(side)
								for i := range helper.Params {
									if d == "param#"+itoa(i)+"."+fld {
										idx = append(idx, i)
									}
								}
							}
							if len(idx) != 2 || idx[0] == idx[1] {
								ok, why = false, "helper "+ir.FuncName(helper)+" does not add the "+fld+" of two different api parameters: "+trunc(ir.Desc(sumStore.Val), 120)
							} else {
								for _, i := range idx {
									d := ir.Desc(hcall.Args[i])
									if strings.HasPrefix(d, "phi{") {
										accArg = i
									} else if strings.Contains(d, "getSupportedApi") && strings.HasSuffix(d, ".api") {
										memArg = i
									}
								}
								if accArg < 0 || memArg < 0 {
									ok, why = false, "the helper is not called with the accumulated api and this member's api"
								}
							}
						}
						if ok {
							// every return of the helper is the freshly built api carrying the sum
							var built *ssa.Alloc
							if fa, isFA := sumStore.Addr.(*ssa.FieldAddr); isFA {
								built = allocOf(fa.X)
							}
							for _, r := range c.AllReturns(helper) {
								for _, leaf := range phiLeaves(RetVal(r.Instr.(*ssa.Return), 0)) {
									if allocOf(leaf) == nil || allocOf(leaf) != built {
										ok, why = false, "a path of "+ir.FuncName(helper)+" returns "+trunc(ir.Desc(leaf), 80)+" instead of the newly summed api: that member's "+fld+" is not added"
									}
								}
							}
						}
						if ok {
							c.OK(key, c.P.InstrPos(hat), "via "+ir.FuncName(helper)+": accumulated."+fld+" + member."+fld+" on every return")
						} else {
							c.Fail(key, c.P.InstrPos(hat), why)
						}
					}
				}
				if n != 1 {
					c.Undecided("C31a: expected one store of Api.%s in %s.ParseMsg, found %d", fld, pn, n)
				}
			}
		}

		c.Rule("C31d message: newBatchChainMessage stores its requestedBlock parameter in latestRequestedBlock, its earliestRequestedBlock parameter in earliestRequestedBlock and its api parameter in api; ParseMsg passes the latest accumulator as the former and the earliest accumulator as the latter")
		for _, pn := range []string{"JsonRPCChainParser", "TendermintChainParser"} {
			nb := c.Fn(cl + pn + ".newBatchChainMessage")
			if nb == nil {
				continue
			}
			want := map[string]string{"api": "param#0", "latestRequestedBlock": "param#1", "earliestRequestedBlock": "param#2"}
			got := map[string]string{}
			ir.EachInstr(nb, func(in ssa.Instruction) {
				if st, ok := in.(*ssa.Store); ok {
					if fa, ok := st.Addr.(*ssa.FieldAddr); ok && strings.HasPrefix(ir.FieldKey(fa), cl+"baseChainMessageContainer.") {
						got[strings.TrimPrefix(ir.FieldKey(fa), cl+"baseChainMessageContainer.")] = ir.Desc(st.Val)
					}
				}
			})
			for f, w := range want {
				key := "C31d/" + pn + ".newBatchChainMessage/" + f + "=" + w
				if got[f] == w {
					c.OK(key, c.P.Pos(nb.Pos()), "")
				} else {
					c.Fail(key, c.P.Pos(nb.Pos()), "field "+f+" is set from "+trunc(got[f], 80)+", expected "+w)
				}
			}
		}
		if rb := c.Fn(cl + "baseChainMessageContainer.RequestedBlock"); rb != nil {
			ok := true
			n := 0
			for _, r := range c.AllReturns(rb) {
				n++
				ret := r.Instr.(*ssa.Return)
				d0, d1 := ir.Desc(ret.Results[0]), ir.Desc(ret.Results[1])
				if !strings.HasSuffix(d0, ".latestRequestedBlock") {
					ok = false
				}
				if !strings.HasSuffix(d1, ".earliestRequestedBlock") && !strings.HasSuffix(d1, ".latestRequestedBlock") {
					ok = false
				}
				if strings.HasSuffix(d1, ".latestRequestedBlock") && !ir.HasFact(ir.GuardFacts(ret), ".earliestRequestedBlock == const(0)") {
					ok = false
				}
			}
			if ok && n == 2 {
				c.OK("C31d/RequestedBlock/returns-(latest,earliest-or-latest-when-unset)", c.P.Pos(rb.Pos()), "")
			} else {
				c.Fail("C31d/RequestedBlock/returns-(latest,earliest-or-latest-when-unset)", c.P.Pos(rb.Pos()), "RequestedBlock no longer returns the stored (latest, earliest) pair, falling back to latest only when earliest is unset")
			}
		}

		c.Rule("C31e archive per member: the eth_call archive requirement is appended inside the member loop under conditions on that member only (method, its parsed block, the latest block) — not under an index or first-member condition — and the same extensionInfo is handed to ExtensionParsing")
		if fn := c.Fn(cl + "JsonRPCChainParser.ParseMsg"); fn != nil {
			n := 0
			ir.EachInstr(fn, func(in ssa.Instruction) {
				st, ok := in.(*ssa.Store)
				if !ok {
					return
				}
				fa, ok := st.Addr.(*ssa.FieldAddr)
				if !ok || ir.FieldKey(fa) != "protocol/chainlib/extensionslib.ExtensionInfo.AdditionalExtensions" {
					return
				}
				n++
				loop := innermostLoop(fn, st.Block())
				key := "C31e/JsonRPCChainParser.ParseMsg/archive-appended-per-member"
				if loop == nil {
					c.Fail(key, c.P.InstrPos(st), "the eth_call archive requirement is not added inside the member loop")
					return
				}
				bad := ""
				for _, g := range inLoopGuards(st.Block(), loop) {
					if _, isIdx := loopIndexZero(g.If.Cond, loop); isIdx {
						bad = g.Fact
					}
					if strings.Contains(g.Fact, "phi{(const(1) + phi↺)|const(-1)}") && !strings.Contains(g.Fact, "builtin:len") {
						bad = g.Fact
					}
				}
				if bad != "" {
					c.Fail(key, c.P.InstrPos(st), "the archive requirement is added only for some positions in the batch ("+trunc(bad, 100)+")")
				} else {
					c.OK(key, c.P.InstrPos(st), "guards mention the member only")
				}
			})
			if n != 1 {
				c.Undecided("C31e: expected one store to ExtensionInfo.AdditionalExtensions in JsonRPCChainParser.ParseMsg, found %d", n)
			}
		}
		c.NotCovered("that RequestedBlock reports an earliest of 0 as unset (a batch whose smallest member is block 0 is reported with earliest = latest); hash-addressed members; CU of the spec entries themselves; the archive rule itself (C32)")
	})
}
