package rules

import (
	"fmt"
	"sort"
	"strings"

	"golang.org/x/tools/go/ssa"

	"lavaverif/checker/ir"
)

// Audited map iterations in consensus-reachable code: key = function key + "/" + the
// ranged map's descriptor suffix. Each was read; the reason states why iteration order
// cannot reach state. New iterations are violations until classified.
var c01AuditedRanges = map[string]string{
	"utils.LogLavaEventWithLevel/range(param#3)":                                            "event attributes are collected and sorted by key (sort.Slice) before EmitEvent; the concatenated text goes to the node's local logger only",
	"utils.StringMapToAttributes/range(param#0)":                                            "order-tainted producer: its consumers are checked by rule C01b",
	"utils/lavaslices.Intersection/range(makemap)":                                          "order-tainted producer: its consumers are checked by rule C01b",
	"utils/lavaslices.UnionByFunc/range(makemap)":                                           "order-tainted producer: its consumers are checked by rule C01b",
	"utils/lavaslices.Union/range(makemap)":                                                 "order-tainted producer: its consumers are checked by rule C01b",
	"x/epochstorage/keeper.Keeper.CleanAllOlderFixatedParams/range(fixationRegistries)":     "per-key independent deletes (keys are prefixed by the fixation key); KV writes are flushed in sorted key order by the cache store; emitted events are not part of the app hash",
	"x/epochstorage/keeper.Keeper.PushFixatedParams/range(fixationRegistries)":              "per-key independent writes (keys are prefixed by the fixation key); KV writes are flushed in sorted key order by the cache store; emitted events are not part of the app hash",
	"x/epochstorage/types.Endpoint.SetDefaultApiInterfaces/range(param#0)":                  "appended to endpoint.ApiInterfaces, which is sorted with sort.Strings immediately after the loop (re-verified: the function calls sort.Strings)",
	"x/pairing/keeper.Keeper.validateGeoLocationAndApiInterfaces/range(Spec),const(true)))":  "set build: geolocMapRequired[key] = struct{}{} with a key computed from the element only",
	"x/pairing/keeper.Keeper.validateGeoLocationAndApiInterfaces/range(Spec),const(false)))": "set build: geolocMapAllowed[key] = struct{}{} with a key computed from the element only",
	"x/pairing/keeper.sortProviderScores/range(param#0)":                                    "each value slice is sorted in place independently with a total order (score, then provider address)",
	"x/pairing/keeper/scores.CalcPairingScore/range(ScoreComponents)":                       "product of the score components: exact and commutative while there are at most two components (re-verified: GetAllReqs returns at most 2 requirements)",
	"x/pairing/keeper/scores.PairingSlot.Equal/range(Reqs)":                                 "conjunction search: returns the constant false on the first mismatch, true otherwise",
	"x/pairing/keeper/scores.PairingSlotGroup.Subtract/range(Reqs)":                         "map build keyed by the iterated key (reqsDiff[key] = req)",
	"x/pairing/keeper.Migrator.MigrateVersion4To5/range(makemap)":                           "historical one-off migration: each iteration reads and writes only the iterated provider's own entries and metadata (keys contain the provider address)",
	"x/plans/types.init#5/range(Geolocation_value))":                                        "commutative accumulation (count += 1, bitwise OR) at package initialisation",
}

// Audited consumers of order-tainted producers (slices in map order): key = consumer
// function + "←" + producer.
var c01AuditedConsumers = map[string]string{
	"x/pairing/keeper.Keeper.CalculateEffectiveSelectedProviders←utils/lavaslices.Intersection": "the intersection becomes Policy.SelectedProviders, which consensus code consumes only as a set (SelectedProvidersFilter builds a lookup map from it)",
	"x/spec.handleSpecProposal←utils.StringMapToAttributes":                                      "attributes are passed to the logger (LavaFormat*) only",
	"x/spec/keeper.Keeper.RefreshSpec←utils.StringMapToAttributes":                               "attributes are passed to the logger (LavaFormat*) only",
}

// Forbidden nondeterminism sources and their audited uses.
var c01AuditedSources = map[string]string{}

var forbiddenCallees = map[string]string{
	"time.Now":           "wall clock",
	"time.Since":         "wall clock",
	"time.Until":         "wall clock",
	"os.Getenv":          "process environment",
	"os.LookupEnv":       "process environment",
	"crypto/rand.Read":   "entropy",
	"crypto/rand.Int":    "entropy",
	"runtime.NumCPU":     "host property",
	"runtime.GOMAXPROCS": "host property",
}

func init() {
	register("C01", "other", func(c *Ctx) {
		c.Explain = "Chain state transitions and pairing are deterministic — decided as: in every lava function reachable (CHA call graph) from the consensus entry points, no iteration over a Go map, and no use of a slice that a helper returns in map order, has an order-dependent effect; and no such function starts goroutines, selects on channels, or reads wall-clock time, the environment, entropy or the shared math/rand source."
		reach := c.ConsensusReachable()
		if len(reach) < 300 {
			c.Undecided("consensus-reachable set suspiciously small: %d functions", len(reach))
		}
		var fns []*ssa.Function
		for f := range reach {
			fns = append(fns, f)
		}
		sort.Slice(fns, func(i, j int) bool {
			if ir.FuncName(fns[i]) != ir.FuncName(fns[j]) {
				return ir.FuncName(fns[i]) < ir.FuncName(fns[j])
			}
			return fns[i].Pos() < fns[j].Pos()
		})
		c.Funcs = map[string]bool{}
		c.Rule(fmt.Sprintf("C01a map iteration: every `range` over a map in the %d consensus-reachable functions is one of the order-insensitive idioms (keys-then-sort, collect-then-sort, keyed map/set build) recognised from the SSA, or an audited site with its reason; anything else is a violation", len(reach)))
		nRanges := 0
		for _, f := range fns {
			for _, mr := range mapRanges(f) {
				nRanges++
				cls := classifyRange(mr)
				site := ir.FuncName(f) + "/range(" + lastSeg(ir.DescN(mr.Range.X, 3)) + ")"
				key := "C01a/" + site
				if cls.Class != "unknown" {
					c.OK(key, c.P.InstrPos(mr.Range), cls.Class+": "+cls.Detail)
					continue
				}
				if why, ok := c01AuditedRanges[site]; ok {
					c.Audit(key, c.P.InstrPos(mr.Range), why)
					continue
				}
				c.Fail(key, c.P.InstrPos(mr.Range), "map iteration in consensus-reachable code (reached from "+reach[f]+") with an order-dependent or unrecognised body: calls "+trunc(cls.Detail, 200))
			}
		}
		// side conditions of audited entries, re-verified on every run
		if gr := c.Fn("x/pairing/keeper/scores.GetAllReqs"); gr != nil {
			n := 0
			ir.EachInstr(gr, func(in ssa.Instruction) {
				if st, ok := in.(*ssa.Store); ok {
					if _, ok := st.Addr.(*ssa.IndexAddr); ok {
						n++
					}
				}
			})
			if n >= 1 && n <= 2 {
				c.OK("C01a/side-condition/GetAllReqs<=2", c.P.Pos(gr.Pos()), fmt.Sprintf("%d score requirements: the Dec product over ScoreComponents has at most two factors", n))
			} else {
				c.Fail("C01a/side-condition/GetAllReqs<=2", c.P.Pos(gr.Pos()), fmt.Sprintf("%d score requirements: the product of more than two rounded decimals depends on map iteration order (LegacyDec.Mul rounds each step)", n))
			}
		}
		if sd := c.Fn("x/epochstorage/types.Endpoint.SetDefaultApiInterfaces"); sd != nil {
			if len(c.CallsByName(sd, false, "sort.Strings")) >= 1 {
				c.OK("C01a/side-condition/SetDefaultApiInterfaces-sorts", c.P.Pos(sd.Pos()), "sort.Strings after the collection loop")
			} else {
				c.Fail("C01a/side-condition/SetDefaultApiInterfaces-sorts", c.P.Pos(sd.Pos()), "default API interfaces are stored in map iteration order")
			}
		}
		if lw := c.Fn("utils.LogLavaEventWithLevel"); lw != nil {
			sorts := c.CallsByName(lw, false, "sort.Slice")
			emits := 0
			ir.EachInstr(lw, func(in ssa.Instruction) {
				if call := ir.CallOf(in); call != nil && strings.HasSuffix(ir.CalleeName(call), "EventManager.EmitEvent") {
					emits++
					for _, s := range sorts {
						if !instrBefore(s.Instr, in) {
							c.Fail("C01a/side-condition/LogLavaEvent-sorts-before-emit", c.P.InstrPos(in), "event emitted before its attributes are sorted")
						}
					}
				}
			})
			if len(sorts) >= 1 && emits >= 1 {
				c.OK("C01a/side-condition/LogLavaEvent-sorts-before-emit", c.P.Pos(lw.Pos()), "attributes sorted by key before EmitEvent")
			} else {
				c.Fail("C01a/side-condition/LogLavaEvent-sorts-before-emit", c.P.Pos(lw.Pos()), "event attributes are emitted in map iteration order")
			}
		}
		if nRanges < 10 {
			c.Undecided("only %d map iterations found in consensus code (frozen minimum 10): matcher broken?", nRanges)
		}

		c.Rule("C01b map-ordered slices: helpers that return a slice built by ranging a map without sorting are order-tainted producers (detected from their SSA); every call to one from consensus-reachable code must consume the slice order-insensitively (audited per call site) or sort it")
		producers := map[*ssa.Function]bool{}
		for _, f := range c.P.AllFuncs {
			if inProd(f) && f.Parent() == nil && producerTainted(f) {
				producers[f] = true
			}
		}
		var pnames []string
		for p := range producers {
			pnames = append(pnames, ir.FuncName(p))
		}
		sort.Strings(pnames)
		c.Note("C01b/order-tainted-producers", "-", strings.Join(pnames, ", "))
		if len(producers) < 3 {
			c.Undecided("expected at least 3 order-tainted producers (lavaslices.Union/Intersection/…, maps.KeysSlice…), found %d", len(producers))
		}
		for _, f := range fns {
			ir.EachInstr(f, func(in ssa.Instruction) {
				call, ok := in.(*ssa.Call)
				if !ok {
					return
				}
				sc := call.Call.StaticCallee()
				if sc == nil {
					return
				}
				if sc.Origin() != nil {
					sc = sc.Origin()
				}
				if !producers[sc] {
					return
				}
				site := ir.FuncName(f) + "←" + ir.FuncName(sc)
				key := "C01b/" + site
				if sortedAfter(call) {
					c.OK(key, c.P.InstrPos(in), "result sorted before use")
					return
				}
				if why, ok := c01AuditedConsumers[site]; ok {
					c.Audit(key, c.P.InstrPos(in), why)
					return
				}
				c.Fail(key, c.P.InstrPos(in), "consensus-reachable code (from "+reach[f]+") uses a slice that "+ir.FuncName(sc)+" returns in Go map iteration order")
			})
		}

		c.Rule("C01c sources: no consensus-reachable function contains a go statement, a select, or a call to time.Now/Since, os.Getenv, crypto/rand, or the package-level math/rand / utils/rand functions (rand.New(seed) with a state-derived seed is the only RNG)")
		for _, f := range fns {
			ir.EachInstr(f, func(in ssa.Instruction) {
				what := ""
				switch x := in.(type) {
				case *ssa.Go:
					what = "go statement"
				case *ssa.Select:
					if !x.Blocking || len(x.States) > 0 {
						what = "select"
					}
				case *ssa.Call:
					n := ir.CalleeName(&x.Call)
					if w, ok := forbiddenCallees[n]; ok {
						what = n + " (" + w + ")"
					} else if strings.HasPrefix(n, "math/rand.") && !strings.HasPrefix(n, "math/rand.New") && !strings.HasPrefix(n, "math/rand.Rand.") {
						what = n + " (shared RNG)"
					} else if strings.HasPrefix(n, "utils/rand.") && n != "utils/rand.New" && n != "utils/rand.Seed" && n != "utils/rand.generateSeed" {
						// New/Seed derive the seed from their argument only (sha256 of the given bytes)
						what = n + " (process-wide crypto RNG)"
					}
					if strings.HasSuffix(n, ".init") {
						what = "" // package initialisation order is fixed by the Go toolchain
					}
				}
				if what == "" {
					return
				}
				site := ir.FuncName(f) + "/" + what
				key := "C01c/" + site
				if why, ok := c01AuditedSources[site]; ok {
					c.Audit(key, c.P.InstrPos(in), why)
					return
				}
				c.Fail(key, c.P.InstrPos(in), "nondeterminism source in consensus-reachable code (from "+reach[f]+"): "+what)
			})
		}
		c.OKTrivial("C01c/scanned", "-", fmt.Sprintf("%d consensus-reachable functions scanned", len(fns)))

		c.Rule("C01d no shared mutable state: every *rand.Rand used in consensus-reachable code is created by rand.New in the same function (no package-level or field-held generator, whose state would be shared with concurrent queries), and no consensus-reachable function other than a package initialiser stores to a package-level variable")
		nrng := 0
		for _, f := range fns {
			ir.EachInstr(f, func(in ssa.Instruction) {
				switch x := in.(type) {
				case *ssa.Call:
					n := ir.CalleeName(&x.Call)
					if strings.HasPrefix(n, "math/rand.Rand.") || n == "utils/rand.Seed" {
						nrng++
						recv := x.Call.Args[0]
						local := true
						seen := map[ssa.Value]bool{}
						var walk func(v ssa.Value)
						walk = func(v ssa.Value) {
							if v == nil || seen[v] {
								return
							}
							seen[v] = true
							switch y := v.(type) {
							case *ssa.Global, *ssa.FieldAddr, *ssa.Field, *ssa.FreeVar:
								local = false
							case *ssa.Parameter:
								// handed down by a caller: the caller is checked when it makes its own calls;
								// accept only inside the weighted-choice helpers
							case *ssa.Phi:
								for _, e := range y.Edges {
									walk(e)
								}
							case *ssa.UnOp:
								walk(y.X)
							case *ssa.Call:
								cn := ir.CalleeName(&y.Call)
								if cn != "utils/rand.New" && cn != "math/rand.New" {
									local = false
								}
							case *ssa.Alloc:
								if refs := y.Referrers(); refs != nil {
									for _, r := range *refs {
										if st, ok := r.(*ssa.Store); ok && st.Addr == y {
											walk(st.Val)
										}
									}
								}
							}
						}
						walk(recv)
						key := "C01d/" + ir.FuncName(f) + "/rng-is-local"
						if local {
							c.OK(key, c.P.InstrPos(in), "generator created by rand.New in this call chain")
						} else {
							c.Fail(key, c.P.InstrPos(in), "consensus-reachable code draws from / re-seeds a generator that is not created locally by rand.New (package-level or field-held state is shared with concurrently running queries): "+trunc(ir.Desc(recv), 120))
						}
					}
				case *ssa.Store:
					g, ok := x.Addr.(*ssa.Global)
					if !ok {
						if fa, isFA := x.Addr.(*ssa.FieldAddr); isFA {
							g, ok = fa.X.(*ssa.Global)
						}
					}
					if ok && g != nil && f.Name() != "init" && !strings.HasPrefix(f.Name(), "init#") {
						site := ir.FuncName(f) + "/writes-global=" + g.Name()
						if why, okA := c01AuditedSources[site]; okA {
							c.Audit("C01d/"+site, c.P.InstrPos(in), why)
						} else {
							c.Fail("C01d/"+site, c.P.InstrPos(in), "consensus-reachable function writes package-level variable "+g.Name()+": state outside the store, shared between goroutines and not reverted with a failed transaction")
						}
					}
				}
			})
		}
		if nrng < 1 {
			c.Undecided("no use of a *rand.Rand found in consensus-reachable code (PickProviders expected)")
		}
		c.NotCovered("equality of full store contents across replays; floating point / architecture effects; third-party modules; iteration order of KV store iterators (lexicographic by construction)")
	})
}

func lastSeg(d string) string {
	if i := strings.LastIndex(d, "."); i >= 0 && i+1 < len(d) {
		return d[i+1:]
	}
	return d
}

// sortedAfter: the call's result flows (directly, or through a local) into a sort call.
func sortedAfter(call *ssa.Call) bool {
	refs := call.Referrers()
	if refs == nil {
		return false
	}
	for _, r := range *refs {
		switch x := r.(type) {
		case *ssa.Call:
			if sortCallee(ir.CalleeName(&x.Call)) {
				return true
			}
		case *ssa.MakeInterface:
			if x.Referrers() != nil {
				for _, rr := range *x.Referrers() {
					if cc, ok := rr.(*ssa.Call); ok && sortCallee(ir.CalleeName(&cc.Call)) {
						return true
					}
				}
			}
		}
	}
	return false
}
