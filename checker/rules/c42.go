package rules

import (
	"strings"

	"golang.org/x/tools/go/ssa"

	"lavaverif/checker/ir"
)

const rwkK = "x/rewards/keeper.Keeper."

func init() {
	register("C42", "other", func(c *Ctx) {
		c.Explain = "IPRPC funds reach the providers that served IPRPC traffic — structural part: CU is recorded for IPRPC only under IsIprpcSubscription and is added to the (provider, chain) record; the monthly distribution counts every record's IPRPC CU for its own spec and provider, pops the month's fund record exactly there (the only place that advances the month and removes the record), and hands both to distributeIprpcRewards; a month or a spec nobody served is rolled over by addSpecFunds(spec, fund, 1 month, starting at the now-current id) and is not paid; a served spec's fund is taxed once per coin, each provider's share is fund·cu/totalCu of that spec and is what RewardProvidersAndDelegators is given, the running total accumulates every share, and fund − used goes to the community pool on every completed distribution; funding moves the coins into the IPRPC pool before the ledger is updated and updates it for `duration` months from next month."
		agg := c.Fn(rwkK + "AggregateCU")
		dmb := c.Fn(rwkK + "DistributeMonthlyBonusRewards")
		dir := c.Fn(rwkK + "distributeIprpcRewards")
		hno := c.Fn(rwkK + "handleNoIprpcRewardToProviders")
		asf := c.Fn(rwkK + "addSpecFunds")
		fip := c.Fn(rwkK + "FundIprpc")
		pop := c.Fn(rwkK + "PopIprpcReward")
		cnt := c.Fn(rwkK + "countIprpcCu")
		if agg == nil || dmb == nil || dir == nil || hno == nil || asf == nil || fip == nil || pop == nil || cnt == nil {
			return
		}

		c.Rule("C42a recording: AggregateCU stores a base-pay record only past IsIprpcSubscription(subscription)==true; the stored IprpcCu is cu (new record) or previous IprpcCu + cu, under the (provider, chain) index built from its own parameters; the subscription module reports exactly the CU it adds to its own tracker")
		c.RequireGuards("C42a", c.CallsByName(agg, false, rwkK+"setBasePay"), "setBasePay", CallIs(true, rwkK+"IsIprpcSubscription"))
		nIprpc := 0
		ir.EachInstr(agg, func(in ssa.Instruction) {
			st, ok := in.(*ssa.Store)
			if !ok {
				return
			}
			fa, ok := st.Addr.(*ssa.FieldAddr)
			if !ok || ir.FieldKey(fa) != "x/rewards/types.BasePay.IprpcCu" {
				return
			}
			nIprpc++
			d := ir.Desc(st.Val)
			if d == "param#4" || strings.HasPrefix(d, "(") && strings.Contains(d, ".IprpcCu + param#4)") || strings.Contains(d, "(param#4 + ") && strings.HasSuffix(d, ".IprpcCu)") {
				c.OK("C42a/AggregateCU/IprpcCu-accumulates#"+itoa(nIprpc), c.P.InstrPos(st), d)
			} else {
				c.Fail("C42a/AggregateCU/IprpcCu-accumulates#"+itoa(nIprpc), c.P.InstrPos(st), "IPRPC CU is recorded as "+trunc(d, 100)+", not cu / previous + cu")
			}
		})
		if nIprpc < 2 {
			c.Undecided("C42a: expected two IprpcCu stores in AggregateCU, found %d", nIprpc)
		}
		ir.EachInstr(agg, func(in ssa.Instruction) {
			if a, ok := in.(*ssa.Alloc); ok && strings.HasSuffix(ir.TypeName(a.Type()), "BasePayWithIndex") {
				f := structFieldStores(a)
				p, ch := "", ""
				if v, ok := f["Provider"]; ok {
					p = ir.Desc(v)
				}
				if v, ok := f["ChainId"]; ok {
					ch = ir.Desc(v)
				}
				if p == "param#2" && ch == "param#3" {
					c.OK("C42a/AggregateCU/index=(provider,chain)", c.P.InstrPos(a), "")
				} else {
					c.Fail("C42a/AggregateCU/index=(provider,chain)", c.P.InstrPos(a), "record index is (Provider: "+p+", ChainId: "+ch+")")
				}
			}
		})
		if tr := c.Fn("x/subscription/keeper.Keeper.AddTrackedCu"); tr != nil {
			aggSites := c.CallsByName(tr, false, "invoke:x/subscription/types.RewardsKeeper.AggregateCU")
			for _, s := range aggSites {
				c.RequireArgNamesAgree("C42a", s)
				// AddTrackedCu(recv, ctx, sub, provider, chainID, cuToAdd, block) reports (ctx, sub, provider, chainID, cuToAdd):
				// the CU of this payment, not the accumulated tracked CU
				a := ir.CallOf(s.Instr).Args
				if len(a) == 5 && len(tr.Params) == 7 && a[1] == ssa.Value(tr.Params[2]) && a[2] == ssa.Value(tr.Params[3]) && a[3] == ssa.Value(tr.Params[4]) && a[4] == ssa.Value(tr.Params[5]) {
					c.OK("C42a/AddTrackedCu/reports-this-payment's-cu-for-its-own-sub-provider-chain", c.P.InstrPos(s.Instr), "AggregateCU(ctx, sub, provider, chainID, cuToAdd)")
				} else {
					c.Fail("C42a/AddTrackedCu/reports-this-payment's-cu-for-its-own-sub-provider-chain", c.P.InstrPos(s.Instr), "the IPRPC CU reported for a relay payment is "+strings.Join(argDescs(ir.CallOf(s.Instr)), ", ")+" — not the payment's own (sub, provider, chain, cuToAdd): an accumulated or foreign amount is added to the provider's monthly IPRPC CU")
				}
			}
			if len(aggSites) != 1 {
				c.Undecided("C42a: expected one AggregateCU call in AddTrackedCu, found %d", len(aggSites))
			}
		}

		c.Rule("C42b monthly hand-over: DistributeMonthlyBonusRewards calls countIprpcCu once per base-pay record with that record's IprpcCu, the spec being iterated and the record's provider, not under the payout-is-non-zero condition; PopIprpcReward is called exactly once, after the loop, and its result is what distributeIprpcRewards receives together with the CU map; every return passes PopIprpcReward except the audited over-spend abort; PopIprpcReward is the only production caller of RemoveIprpcReward and SetIprpcRewardsCurrentId outside genesis, and is called only here")
		for _, s := range c.CallsIn(dmb, cnt, false) {
			call := ir.CallOf(s.Instr)
			cu, spec, prov := ir.Desc(call.Args[2]), ir.Desc(call.Args[3]), ir.Desc(call.Args[4])
			cuRoot, cuPath := fieldPath(call.Args[2])
			_, specPath := fieldPath(call.Args[3])
			provRoot, provPath := fieldPath(call.Args[4])
			if cuPath == "BasePay.IprpcCu" && specPath == "ChainID" && provPath == "Provider" && cuRoot == provRoot {
				c.OK("C42b/DistributeMonthlyBonusRewards/counts-record's-own-cu-spec-provider", c.P.InstrPos(s.Instr), "")
			} else {
				c.Fail("C42b/DistributeMonthlyBonusRewards/counts-record's-own-cu-spec-provider", c.P.InstrPos(s.Instr), "countIprpcCu("+trunc(cu, 200)+", "+trunc(spec, 120)+", "+trunc(prov, 200)+")")
			}
			bad := ""
			for _, f := range ir.GuardFacts(s.Instr) {
				if strings.Contains(f, "IsZero") {
					bad = f
				}
			}
			if bad == "" {
				c.OK("C42b/DistributeMonthlyBonusRewards/counts-regardless-of-bonus-payout", c.P.InstrPos(s.Instr), "")
			} else {
				c.Fail("C42b/DistributeMonthlyBonusRewards/counts-regardless-of-bonus-payout", c.P.InstrPos(s.Instr), "IPRPC CU is counted only under "+trunc(bad, 100)+": providers of a spec without bonus payout lose their IPRPC share")
			}
		}
		if n := len(c.CallsIn(dmb, cnt, false)); n != 1 {
			c.Undecided("C42b: expected one countIprpcCu call in DistributeMonthlyBonusRewards, found %d", n)
		}
		pops := c.CallsIn(dmb, pop, false)
		if len(pops) != 1 || innermostLoop(dmb, pops[0].Instr.Block()) != nil {
			c.Fail("C42b/DistributeMonthlyBonusRewards/pops-once", c.P.Pos(dmb.Pos()), "the month's IPRPC record is not popped exactly once outside any loop")
		} else {
			c.OK("C42b/DistributeMonthlyBonusRewards/pops-once", c.P.InstrPos(pops[0].Instr), "")
			for _, s := range c.CallsIn(dmb, dir, false) {
				call := ir.CallOf(s.Instr)
				if strings.HasPrefix(ir.Desc(call.Args[2]), "call("+rwkK+"PopIprpcReward)(") && ErrNilLike(s.Instr, "PopIprpcReward") {
					c.OK("C42b/DistributeMonthlyBonusRewards/distributes-the-popped-record", c.P.InstrPos(s.Instr), "under found == true")
				} else {
					c.Fail("C42b/DistributeMonthlyBonusRewards/distributes-the-popped-record", c.P.InstrPos(s.Instr), "distributeIprpcRewards receives "+trunc(ir.Desc(call.Args[2]), 80))
				}
			}
			isPop := IsCallTo(rwkK + "PopIprpcReward")
			n := 0
			for _, r := range c.AllReturns(dmb) {
				ret := r.Instr.(*ssa.Return)
				if ret.Block() == dmb.Recover {
					continue
				}
				n++
				if c.mustPassBefore(dmb, ret, isPop) {
					c.OK("C42b/DistributeMonthlyBonusRewards/return#"+itoa(n)+"/month-advanced", c.P.InstrPos(ret), "")
				} else if ir.HasFact(ir.GuardFacts(ret), "call(cosmossdk.io/math.Int.GT)(") {
					c.Audit("C42b/DistributeMonthlyBonusRewards/return#"+itoa(n)+"/month-advanced", c.P.InstrPos(ret), "abort on bonus over-spend returns before the IPRPC record is popped (the month's IPRPC funds are then paid a month late, to that month's providers); belief: unreachable, each payout is a truncated fraction of the pool total (C21)")
				} else {
					c.Fail("C42b/DistributeMonthlyBonusRewards/return#"+itoa(n)+"/month-advanced", c.P.InstrPos(ret), "the month ends without the IPRPC record being popped")
				}
			}
		}
		c.RequireCallers("C42b", rwkK+"PopIprpcReward", rwkK+"DistributeMonthlyBonusRewards")
		c.RequireCallers("C42b", rwkK+"RemoveIprpcReward", rwkK+"PopIprpcReward")
		c.RequireCallers("C42b", rwkK+"SetIprpcRewardsCurrentId", rwkK+"PopIprpcReward", rwkK+"InitGenesis", "x/rewards.InitGenesis")
		// Pop: advances by one, removes the id it returns
		okAdv, okRem, okGet := false, false, false
		ir.EachInstr(pop, func(in ssa.Instruction) {
			call := ir.CallOf(in)
			if call == nil {
				return
			}
			cur := "call(" + rwkK + "GetIprpcRewardsCurrentId)(recv,param#0)"
			switch ir.CalleeName(call) {
			case rwkK + "SetIprpcRewardsCurrentId":
				okAdv = ir.Desc(call.Args[2]) == "("+cur+" + const(1))" || ir.Desc(call.Args[2]) == "(const(1) + "+cur+")"
			case rwkK + "RemoveIprpcReward":
				_, isDefer := in.(*ssa.Defer)
				okRem = ir.Desc(call.Args[2]) == cur && isDefer
			case rwkK + "GetIprpcReward":
				okGet = ir.Desc(call.Args[2]) == cur
			}
		})
		if okAdv && okRem && okGet {
			c.OK("C42b/PopIprpcReward/returns-current-advances-removes", c.P.Pos(pop.Pos()), "current := id; id = current+1; defer remove(current); return get(current)")
		} else {
			c.Fail("C42b/PopIprpcReward/returns-current-advances-removes", c.P.Pos(pop.Pos()), "Pop no longer returns the current record, advances the id by one and removes that record: a month's fund could be paid twice or skipped")
		}

		c.Rule("C42c roll-over: distributeIprpcRewards calls handleNoIprpcRewardToProviders with all spec funds under len(specCuMap)==0 and returns, and with the single spec fund under spec-not-in-map, from where no payout or tax call is reachable in that iteration; handleNoIprpcRewardToProviders re-adds each fund with addSpecFunds(fund.Spec, fund.Fund, 1, false)")
		rolls := c.CallsIn(dir, hno, false)
		if len(rolls) > 2 || len(rolls) == 0 {
			c.Undecided("C42c: expected two roll-over calls in distributeIprpcRewards, found %d", len(rolls))
		}
		// the spec-not-in-map outcome must roll that spec over before the iteration ends
		nMiss := 0
		for _, b := range dir.Blocks {
			if len(b.Instrs) == 0 {
				continue
			}
			iff, ok := b.Instrs[len(b.Instrs)-1].(*ssa.If)
			if !ok {
				continue
			}
			// cond is (or is a disjunction starting with) the ok result of specCuMap[spec]
			v, okOnTrue := stripNot(iff.Cond, true)
			fTrue := ir.Desc(v)
			if !(strings.HasPrefix(fTrue, "param#2[") && strings.HasSuffix(fTrue, "]#1")) {
				continue
			}
			nMiss++
			miss := b.Succs[1]
			if !okOnTrue {
				miss = b.Succs[0]
			}
			loop := innermostLoop(dir, b)
			rolled := false
			reach := ir.Reachable(miss, func(x *ssa.BasicBlock) bool { return loop != nil && (x == loop.Header || !loop.Blocks[x]) })
			// every path from miss back to the header passes a roll-over call?
			pass := map[*ssa.BasicBlock]bool{}
			for _, s := range rolls {
				pass[s.Instr.Block()] = true
			}
			if loop != nil {
				avoid := ir.Reachable(miss, func(x *ssa.BasicBlock) bool { return pass[x] || !loop.Blocks[x] && x != loop.Header })
				rolled = !avoid[loop.Header] || pass[miss]
				if pass[miss] {
					rolled = true
				}
			}
			_ = reach
			if rolled {
				c.OK("C42c/distributeIprpcRewards/spec-not-served=>rolled-over-on-every-path", c.P.InstrPos(iff), "")
			} else {
				c.Fail("C42c/distributeIprpcRewards/spec-not-served=>rolled-over-on-every-path", c.P.InstrPos(iff), "a funded spec that nobody served is skipped without handleNoIprpcRewardToProviders: the month's record was already popped, so its funds are never paid, rolled over or sent to the community pool")
			}
		}
		if nMiss != 1 {
			c.Undecided("C42c: expected one branch on the spec's presence in the CU map, found %d", nMiss)
		}
		// what rolls over is the fund as funded: participation is taken, and the spec's Fund is
		// rewritten, only once the spec is known to have been served (the ok outcome of the lookup)
		served := func(in ssa.Instruction) bool {
			for _, g := range ir.Guards(in) {
				v, edge := stripNot(g.If.Cond, g.Edge)
				if d := ir.Desc(v); edge && strings.HasPrefix(d, "param#2[") && strings.HasSuffix(d, "]#1") {
					return true
				}
			}
			return false
		}
		const contrib = "x/rewards/keeper.Keeper.ContributeToValidatorsAndCommunityPool"
		taxes := func(call *ssa.CallCommon) bool {
			callee := call.StaticCallee()
			if callee == nil {
				return false
			}
			if ir.FuncName(callee) == contrib {
				return true
			}
			found := false
			if callee.Blocks != nil && inProd(callee) && strings.HasPrefix(ir.FuncName(callee), "x/rewards/keeper.") {
				ir.EachInstr(callee, func(x ssa.Instruction) {
					if cc := ir.CallOf(x); cc != nil && cc.StaticCallee() != nil && ir.FuncName(cc.StaticCallee()) == contrib {
						found = true
					}
				})
			}
			return found
		}
		nTax, early := 0, ""
		var earlyAt ssa.Instruction
		ir.EachInstr(dir, func(in ssa.Instruction) {
			if call := ir.CallOf(in); call != nil && taxes(call) {
				nTax++
				if !served(in) {
					early, earlyAt = "takes the validators/community participation", in
				}
			}
			if st, ok := in.(*ssa.Store); ok {
				if fa, ok := st.Addr.(*ssa.FieldAddr); ok && ir.FieldKey(fa) == "x/rewards/types.Specfund.Fund" && !served(in) {
					early, earlyAt = "rewrites the spec's fund", in
				}
			}
		})
		switch {
		case nTax == 0:
			c.Undecided("C42c: no participation (tax) call found in distributeIprpcRewards")
		case early != "":
			c.Fail("C42c/distributeIprpcRewards/participation-only-for-served-specs", c.P.InstrPos(earlyAt), "distributeIprpcRewards "+early+" before it knows that the spec was served: the fund of an unserved spec is charged (again every month) before what is left of it rolls over")
		default:
			c.OK("C42c/distributeIprpcRewards/participation-only-for-served-specs", c.P.Pos(dir.Pos()), "participation calls and stores to specFund.Fund are dominated by the spec's presence in the CU map")
		}
		var paySites []Site
		paySites = append(paySites, c.CallsByName(dir, false, "invoke:x/rewards/types.DualStakingKeeper.RewardProvidersAndDelegators")...)
		paySites = append(paySites, c.CallsByName(dir, false, rwkK+"ContributeToValidatorsAndCommunityPool")...)
		for _, s := range rolls {
			facts := ir.GuardFacts(s.Instr)
			arg := ir.Desc(ir.CallOf(s.Instr).Args[2])
			switch {
			case ir.HasFact(facts, "(call(builtin:len)(param#2) == const(0))"):
				if arg == "param#1.SpecFunds" {
					c.OK("C42c/distributeIprpcRewards/nobody-served=>roll-all", c.P.InstrPos(s.Instr), "")
				} else {
					c.Fail("C42c/distributeIprpcRewards/nobody-served=>roll-all", c.P.InstrPos(s.Instr), "rolls over "+trunc(arg, 80))
				}
				// then return
				last := s.Instr.Block().Instrs[len(s.Instr.Block().Instrs)-1]
				if _, isRet := last.(*ssa.Return); isRet {
					c.OK("C42c/distributeIprpcRewards/nobody-served=>return", c.P.InstrPos(s.Instr), "")
				} else {
					c.Fail("C42c/distributeIprpcRewards/nobody-served=>return", c.P.InstrPos(s.Instr), "after rolling everything over the distribution continues and pays/taxes the same funds")
				}
			case ir.HasFact(facts, "!param#2[", "]#1"):
				if strings.HasPrefix(arg, "slice(") {
					c.OK("C42c/distributeIprpcRewards/spec-not-served=>roll-that-spec", c.P.InstrPos(s.Instr), "")
				} else {
					c.Fail("C42c/distributeIprpcRewards/spec-not-served=>roll-that-spec", c.P.InstrPos(s.Instr), "rolls over "+trunc(arg, 80))
				}
				bad := ""
				for _, p := range paySites {
					if ir.SameIterationReach(dir, s.Instr.Block(), p.Instr.Block()) {
						bad = c.P.InstrPos(p.Instr)
					}
				}
				if bad == "" {
					c.OK("C42c/distributeIprpcRewards/spec-not-served=>not-paid", c.P.InstrPos(s.Instr), "continue")
				} else {
					c.Fail("C42c/distributeIprpcRewards/spec-not-served=>not-paid", c.P.InstrPos(s.Instr), "a rolled-over spec fund is also taxed/paid in the same iteration ("+bad+"): paid twice")
				}
			default:
				c.Fail("C42c/distributeIprpcRewards/roll-over-condition", c.P.InstrPos(s.Instr), "funds are rolled over under an unexpected condition: "+trunc(strings.Join(facts, " ∧ "), 160))
			}
		}
		for _, s := range c.CallsIn(hno, asf, false) {
			call := ir.CallOf(s.Instr)
			sp, fu, du, nx := ir.Desc(call.Args[2]), ir.Desc(call.Args[3]), ir.Desc(call.Args[4]), ir.Desc(call.Args[5])
			if strings.HasSuffix(sp, ".Spec") && strings.HasSuffix(fu, ".Fund") && strings.TrimSuffix(sp, ".Spec") == strings.TrimSuffix(fu, ".Fund") && du == "const(1)" && nx == "const(false)" {
				c.OK("C42c/handleNoIprpcRewardToProviders/re-adds-each-fund-for-one-month-from-current", c.P.InstrPos(s.Instr), "")
			} else {
				c.Fail("C42c/handleNoIprpcRewardToProviders/re-adds-each-fund-for-one-month-from-current", c.P.InstrPos(s.Instr), "addSpecFunds("+trunc(sp, 40)+", "+trunc(fu, 40)+", "+du+", "+nx+")")
			}
		}
		if len(c.CallsIn(hno, asf, false)) != 1 || innermostLoopOf(hno, asf, c) == nil {
			c.Fail("C42c/handleNoIprpcRewardToProviders/loops-over-all-funds", c.P.Pos(hno.Pos()), "not every unserved fund is re-added")
		} else {
			c.OK("C42c/handleNoIprpcRewardToProviders/loops-over-all-funds", c.P.Pos(hno.Pos()), "")
		}

		c.Rule("C42d payout: the share handed to RewardProvidersAndDelegators is fund.MulInt(provider cu).QuoInt(total cu of the same spec) for that provider and spec from the IPRPC pool; the used total accumulates every share; leftovers add fund − used per spec and are sent to the community pool from the IPRPC pool after the loop")
		for _, s := range c.CallsByName(dir, false, "invoke:x/rewards/types.DualStakingKeeper.RewardProvidersAndDelegators") {
			call := ir.CallOf(s.Instr)
			prov, spec, amt, pool := ir.Desc(call.Args[1]), ir.Desc(call.Args[2]), ir.DescN(call.Args[3], 8), ir.Desc(call.Args[4])
			okShare := strings.HasPrefix(amt, "call(github.com/cosmos/cosmos-sdk/types.Coins.QuoInt)(call(github.com/cosmos/cosmos-sdk/types.Coins.MulInt)(") &&
				strings.Contains(amt, ".Fund,") && strings.Contains(amt, ".CU))") && strings.Contains(amt, ".TotalCu))")
			if okShare && strings.HasSuffix(prov, ".Provider") && strings.HasSuffix(spec, ".Spec") && pool == "const(\"iprpc_pool\")" {
				c.OK("C42d/distributeIprpcRewards/share=fund*cu/totalCu-to-that-provider", c.P.InstrPos(s.Instr), "")
			} else {
				c.Fail("C42d/distributeIprpcRewards/share=fund*cu/totalCu-to-that-provider", c.P.InstrPos(s.Instr), "pays "+trunc(amt, 160)+" to "+trunc(prov, 40)+" on "+trunc(spec, 40)+" from "+pool)
			}
			// same spec for cu and totalCu: both come from specCuMap[specFund.Spec]
			if strings.Count(amt, "param#2[") >= 2 {
				c.OK("C42d/distributeIprpcRewards/cu-and-total-of-the-funded-spec", c.P.InstrPos(s.Instr), "")
			} else {
				c.Fail("C42d/distributeIprpcRewards/cu-and-total-of-the-funded-spec", c.P.InstrPos(s.Instr), "provider CU and total CU are not both taken from the CU map entry of the funded spec")
			}
		}
		if n := len(c.CallsByName(dir, false, "invoke:x/rewards/types.DualStakingKeeper.RewardProvidersAndDelegators")); n != 1 {
			c.Undecided("C42d: expected one RewardProvidersAndDelegators call in distributeIprpcRewards, found %d", n)
		}
		for _, s := range c.CallsByName(dir, false, rwkK+"FundCommunityPoolFromModule") {
			call := ir.CallOf(s.Instr)
			left, pool := ir.DescN(call.Args[2], 8), ir.Desc(call.Args[3])
			inLoop := innermostLoop(dir, s.Instr.Block()) != nil
			// leftovers is a loop accumulator: every in-loop value is leftovers.Add(fund.Sub(used))
			accumulates := false
			if phi, ok := unconv(call.Args[2]).(*ssa.Phi); ok {
				accumulates = true
				nAdd := 0
				for _, lf := range phiLeaves(phi) {
					if ir.Desc(lf) == newCoins {
						continue
					}
					add, _ := callOfValue(lf)
					if add == nil || ir.CalleeName(&add.Call) != coinsT+"Add" {
						accumulates = false
						continue
					}
					_, fromAcc := unconv(add.Call.Args[0]).(*ssa.Phi)
					sub, _ := callOfValue(unconv(add.Call.Args[1]))
					if !fromAcc || sub == nil || ir.CalleeName(&sub.Call) != coinsT+"Sub" || !strings.HasSuffix(ir.Desc(sub.Call.Args[0]), ".Fund") {
						accumulates = false
					}
					nAdd++
				}
				if nAdd == 0 {
					accumulates = false
				}
			}
			if !inLoop && pool == "const(\"iprpc_pool\")" && accumulates {
				c.OK("C42d/distributeIprpcRewards/leftovers=Σ(fund−used)->community-pool", c.P.InstrPos(s.Instr), "")
			} else {
				c.Fail("C42d/distributeIprpcRewards/leftovers=Σ(fund−used)->community-pool", c.P.InstrPos(s.Instr), "community pool receives "+trunc(left, 160)+" from "+pool)
			}
		}
		if n := len(c.CallsByName(dir, false, rwkK+"FundCommunityPoolFromModule")); n != 1 {
			c.Fail("C42d/distributeIprpcRewards/leftovers-sent-once", c.P.Pos(dir.Pos()), "rounding leftovers are sent "+itoa(n)+" times")
		}
		// tax once per coin, from the iprpc pool
		for _, s := range c.CallsByName(dir, false, rwkK+"ContributeToValidatorsAndCommunityPool") {
			call := ir.CallOf(s.Instr)
			if strings.Contains(ir.Desc(call.Args[2]), ".Fund[") && ir.Desc(call.Args[3]) == "const(\"iprpc_pool\")" {
				c.OK("C42d/distributeIprpcRewards/participation-per-coin-from-iprpc-pool", c.P.InstrPos(s.Instr), "")
			} else {
				c.Fail("C42d/distributeIprpcRewards/participation-per-coin-from-iprpc-pool", c.P.InstrPos(s.Instr), "validators/community participation taken on "+trunc(ir.Desc(call.Args[2]), 60)+" from "+ir.Desc(call.Args[3]))
			}
		}
		c.Note("C42/cross-reference/over-spend-check-tests-UsedReward", c.P.Pos(dir.Pos()), "the over-spend guard tests UsedReward, not UsedRewardTemp; floor division keeps Σ shares <= fund, so it is not reachable")
		c.Note("C42/cross-reference/participation-error-drops-coin", c.P.Pos(dir.Pos()), "a coin whose validators/community contribution fails is skipped: neither paid nor rolled over (error path of the bank module)")

		c.Rule("C42e ledger: addSpecFunds writes every month id in [start, start+duration) where start is the current id, plus one when funding from next month; an existing spec entry gets fund added, otherwise an entry is appended; countIprpcCu appends the provider and adds its CU to the spec total")
		if n := len(c.CallsByName(asf, false, rwkK+"SetIprpcReward")); n == 1 {
			s := c.CallsByName(asf, false, rwkK+"SetIprpcReward")[0]
			if innermostLoop(asf, s.Instr.Block()) != nil {
				c.OK("C42e/addSpecFunds/writes-every-month", c.P.InstrPos(s.Instr), "SetIprpcReward once per loop iteration")
			} else {
				c.Fail("C42e/addSpecFunds/writes-every-month", c.P.InstrPos(s.Instr), "only one month is written")
			}
		} else {
			c.Undecided("C42e: expected one SetIprpcReward call in addSpecFunds, found %d", n)
		}
		boundOK := false
		for _, b := range asf.Blocks {
			if len(b.Instrs) == 0 {
				continue
			}
			if iff, ok := b.Instrs[len(b.Instrs)-1].(*ssa.If); ok {
				f := ir.Fact(iff.Cond, true)
				cur := "call(" + rwkK + "GetIprpcRewardsCurrentId)(recv,param#0)"
				start := "phi{(" + cur + " + const(1))|" + cur + "}"
				if strings.HasPrefix(f, "(phi{(const(1) + phi↺)|"+start+"} < (param#3 + "+start+"))") {
					boundOK = true
				}
			}
		}
		if boundOK {
			c.OK("C42e/addSpecFunds/range=[start,start+duration)", c.P.Pos(asf.Pos()), "start = current id (+1 from next month)")
		} else {
			c.Fail("C42e/addSpecFunds/range=[start,start+duration)", c.P.Pos(asf.Pos()), "the month range written is not [start, start+duration) with start = current id (+1 when funding from next month)")
		}
		totOK, appOK := false, false
		ir.EachInstr(cnt, func(in ssa.Instruction) {
			if st, ok := in.(*ssa.Store); ok {
				if fa, ok := st.Addr.(*ssa.FieldAddr); ok && ir.FieldKey(fa) == "x/rewards/types.SpecCuType.TotalCu" {
					d := ir.Desc(st.Val)
					if strings.HasSuffix(d, ".TotalCu + param#1)") {
						totOK = true
					}
				}
			}
			if call := ir.CallOf(in); call != nil && ir.CalleeName(call) == "builtin:append" && strings.Contains(ir.Desc(call.Args[0]), ".ProvidersCu") {
				appOK = true
			}
		})
		if totOK && appOK {
			c.OK("C42e/countIprpcCu/appends-provider-and-adds-to-total", c.P.Pos(cnt.Pos()), "")
		} else {
			c.Fail("C42e/countIprpcCu/appends-provider-and-adds-to-total", c.P.Pos(cnt.Pos()), "a provider's CU is not both listed and added to the spec total: shares no longer sum to the fund")
		}

		// a spec gets an entry in the spec→CU map only for a non-zero IPRPC CU: an entry with no CU
		// would take the spec off the roll-over paths (C42c) and send its whole fund to the community pool
		nUpd := 0
		ir.EachInstr(cnt, func(in ssa.Instruction) {
			mu, ok := in.(*ssa.MapUpdate)
			if !ok || len(cnt.Params) < 2 || mu.Map != ssa.Value(cnt.Params[1]) {
				return
			}
			nUpd++
			key := "C42e/countIprpcCu/map-entry-only-for-non-zero-cu#" + itoa(nUpd)
			if okG, _ := divisorGuarded(in, cnt.Params[2]); okG {
				c.OK(key, c.P.InstrPos(in), "under iprpcCu != 0")
			} else {
				c.Fail(key, c.P.InstrPos(in), "the spec→CU map gets an entry although the record's IPRPC CU may be zero: a spec nobody served with IPRPC traffic no longer rolls its fund over (C42c keys on the entry's absence) and the fund goes to the community pool as leftovers")
			}
		})
		if nUpd == 0 {
			c.Undecided("C42e: countIprpcCu no longer writes the spec→CU map it is given")
		}

		c.Rule("C42f funding: FundIprpc reaches addSpecFunds only past both bank transfers having succeeded (min cost × duration to the validators allocation pool, (fund − min cost) × duration to the IPRPC pool) for an active spec, and records (fund − min cost) for `duration` months starting next month")
		sites := c.CallsIn(fip, asf, false)
		if len(sites) != 1 {
			c.Undecided("C42f: expected one addSpecFunds call in FundIprpc, found %d", len(sites))
		}
		c.RequireGuards("C42f", sites, "addSpecFunds",
			FactPrefix("spec-active", "invoke(x/rewards/types.SpecKeeper.IsSpecFoundAndActive)("),
			FactHas("iprpc-pool-funded", "SendCoinsFromAccountToModule)(", "const(\"iprpc_pool\")", "Coins.MulInt)(call(github.com/cosmos/cosmos-sdk/types.Coins.Sub)(param#3,", "== nil)"),
			FactHas("validators-pool-funded", "SendCoinsFromAccountToModule)(", "const(\"validators_rewards_allocation_pool\")", "== nil)"))
		for _, s := range sites {
			call := ir.CallOf(s.Instr)
			sp, fu, du, nx := ir.Desc(call.Args[2]), ir.Desc(call.Args[3]), ir.Desc(call.Args[4]), ir.Desc(call.Args[5])
			if sp == "param#4" && strings.HasPrefix(fu, "call(github.com/cosmos/cosmos-sdk/types.Coins.Sub)(param#3,") && du == "param#2" && nx == "const(true)" {
				c.OK("C42f/FundIprpc/records-what-was-transferred", c.P.InstrPos(s.Instr), "addSpecFunds(spec, fund − minCost, duration, fromNextMonth)")
			} else {
				c.Fail("C42f/FundIprpc/records-what-was-transferred", c.P.InstrPos(s.Instr), "ledger gets ("+sp+", "+trunc(fu, 60)+", "+du+", "+nx+")")
			}
		}
		c.NotCovered("conservation of amounts across months as a numeric identity; what the dualstaking module does with a share; spec emission parts deciding which specs are iterated")
	})
}

// ErrNilLike: the instruction is dominated by the true outcome of result #1 (found) of a
// call whose callee name contains sub.
func ErrNilLike(in ssa.Instruction, sub string) bool {
	for _, g := range ir.Guards(in) {
		v, edge := stripNot(g.If.Cond, g.Edge)
		if ex, ok := v.(*ssa.Extract); ok && edge && ex.Index == 1 {
			if call, _ := callOfValue(ex.Tuple); call != nil && strings.Contains(ir.CalleeName(&call.Call), sub) {
				return true
			}
		}
	}
	return false
}

// fieldPath: for a (load of a) nested field, the value it is a field of and the dotted path.
func fieldPath(v ssa.Value) (ssa.Value, string) {
	var parts []string
	for i := 0; i < 8; i++ {
		switch x := v.(type) {
		case *ssa.UnOp:
			v = x.X
			continue
		case *ssa.FieldAddr:
			if f := ir.FieldOf(x); f != nil {
				parts = append([]string{f.Name()}, parts...)
			}
			v = x.X
			continue
		case *ssa.Field:
			if f := ir.FieldOf(x); f != nil {
				parts = append([]string{f.Name()}, parts...)
			}
			v = x.X
			continue
		}
		break
	}
	return v, strings.Join(parts, ".")
}

func innermostLoopOf(fn, callee *ssa.Function, c *Ctx) *ir.Loop {
	for _, s := range c.CallsIn(fn, callee, false) {
		return innermostLoop(fn, s.Instr.Block())
	}
	return nil
}
