package rules

import (
	"strings"

	"golang.org/x/tools/go/ssa"

	"lavaverif/checker/ir"
)

const ck = "x/conflict/keeper."

func init() {
	register("C20", "other", func(c *Ctx) {
		c.Explain = "Conflict votes follow commit-reveal: decided as guard dominance of the vote-record writes in the commit and reveal handlers, who-may-write the vote state, who-may-call and guards of the two transitions, and guard dominance of tally/reward effects by the majority condition."
		commit := c.Fn(ck + "msgServer.ConflictVoteCommit")
		reveal := c.Fn(ck + "msgServer.ConflictVoteReveal")
		check := c.Fn(ck + "Keeper.CheckAndHandleAllVotes")
		handle := c.Fn(ck + "Keeper.HandleAndCloseVote")
		trans := c.Fn(ck + "Keeper.TransitionVoteToReveal")
		if commit == nil || reveal == nil || check == nil || handle == nil || trans == nil {
			return
		}
		stCommit := c.Const("x/conflict/types", "StateCommit")
		stReveal := c.Const("x/conflict/types", "StateReveal")
		noVote := c.Const("x/conflict/types", "NoVote")
		rCommit := c.Const("x/conflict/types", "Commit")
		get := ck + "Keeper.GetConflictVote"

		c.Rule("C20a commit: SetConflictVote in ConflictVoteCommit is dominated by vote found, VoteState==StateCommit, creator found in the voter list, and that voter's Result==NoVote")
		sets := c.CallsByName(commit, true, ck+"Keeper.SetConflictVote")
		if len(sets) == 0 {
			c.Undecided("ConflictVoteCommit has no SetConflictVote")
		}
		c.RequireGuards("C20a", sets, "SetConflictVote",
			CallIs(true, get),
			Cmp("state==commit", ".VoteState", "==", stCommit),
			CallIs(true, ck+"FindVote"),
			Cmp("result==novote", ".Votes[i].Result", "==", noVote),
		)
		// FindVote is asked about the message creator
		for _, s := range c.CallsByName(commit, true, ck+"FindVote") {
			a := argDescs(ir.CallOf(s.Instr))
			if len(a) == 2 && strings.HasSuffix(a[1], ".Creator") && strings.HasPrefix(a[1], "param#1") {
				c.OK("C20a/ConflictVoteCommit/FindVote-arg=creator", c.P.InstrPos(s.Instr), a[1])
			} else {
				c.Fail("C20a/ConflictVoteCommit/FindVote-arg=creator", c.P.InstrPos(s.Instr), "voter looked up by something other than the message creator: "+strings.Join(a, ","))
			}
		}

		c.Rule("C20b reveal: SetConflictVote in ConflictVoteReveal is dominated by vote found, VoteState==StateReveal, creator in voter list, stored Hash!=nil, Result==Commit, and bytes.Equal(CommitVoteData(msg.Nonce,msg.Hash,msg.Creator), stored hash)==true")
		sets = c.CallsByName(reveal, true, ck+"Keeper.SetConflictVote")
		if len(sets) == 0 {
			c.Undecided("ConflictVoteReveal has no SetConflictVote")
		}
		c.RequireGuards("C20b", sets, "SetConflictVote",
			CallIs(true, get),
			Cmp("state==reveal", ".VoteState", "==", stReveal),
			CallIs(true, ck+"FindVote"),
			Cmp("hash!=nil", ".Votes[i].Hash", "!=", "nil"),
			Cmp("result==commit", ".Votes[i].Result", "==", rCommit),
			FactPrefix("reveal-matches-commit", "call(bytes.Equal)(", "call(x/conflict/types.CommitVoteData)(param#1.Nonce,param#1.Hash,param#1.Creator)", ".Votes[i].Hash"),
		)
		// every store to a vote's Result in the reveal handler is equally guarded (the result is what gets counted)
		var resStores []Site
		ir.EachInstr(reveal, func(in ssa.Instruction) {
			if st, ok := in.(*ssa.Store); ok {
				if fa, ok := st.Addr.(*ssa.FieldAddr); ok && ir.FieldKey(fa) == "x/conflict/types.Vote.Result" {
					resStores = append(resStores, Site{Fn: reveal, Instr: in, Kind: "store"})
				}
			}
		})
		if len(resStores) < 3 {
			c.Undecided("ConflictVoteReveal: expected >=3 stores to Vote.Result, found %d", len(resStores))
		}
		c.RequireGuards("C20b", resStores, "Vote.Result:=", Cmp("state==reveal", ".VoteState", "==", stReveal), Cmp("result==commit", ".Votes[i].Result", "==", rCommit), FactPrefix("reveal-matches-commit", "call(bytes.Equal)(", "call(x/conflict/types.CommitVoteData)("))
		c.RequireAllParamsUsed("C20b", "x/conflict/types.CommitVoteData")

		c.Rule("C20c who-may-write: ConflictVote.VoteState is stored only by conflict detection (new vote, StateCommit) and TransitionVoteToReveal (StateReveal) (+generated unmarshalling); Vote.Result only by the commit/reveal handlers and detection")
		allowW := map[string]bool{ck + "msgServer.handleResponseConflict": true, ck + "Keeper.TransitionVoteToReveal": true, "x/conflict/types.ConflictVote.Unmarshal": true}
		ws := c.FieldStores("x/conflict/types.ConflictVote.VoteState")
		if len(ws) < 2 {
			c.Undecided("expected >=2 stores to ConflictVote.VoteState, found %d", len(ws))
		}
		for _, w := range ws {
			n := topName(w.Fn)
			key := "C20c/ConflictVote.VoteState/writer=" + n
			if allowW[n] {
				c.OK(key, c.P.InstrPos(w.Instr), "allowed writer: "+ir.Desc(w.Instr.(*ssa.Store).Val))
			} else {
				c.Fail(key, c.P.InstrPos(w.Instr), "vote state written outside detection/transition")
			}
		}
		// the value written by the transition is StateReveal and by detection StateCommit
		for _, w := range ws {
			n := topName(w.Fn)
			v := ir.Desc(w.Instr.(*ssa.Store).Val)
			switch n {
			case ck + "Keeper.TransitionVoteToReveal":
				if v == stReveal {
					c.OK("C20c/TransitionVoteToReveal/writes=StateReveal", c.P.InstrPos(w.Instr), v)
				} else {
					c.Fail("C20c/TransitionVoteToReveal/writes=StateReveal", c.P.InstrPos(w.Instr), "writes "+v)
				}
			case ck + "msgServer.handleResponseConflict":
				if v == stCommit {
					c.OK("C20c/Detection/writes=StateCommit", c.P.InstrPos(w.Instr), v)
				} else {
					c.Fail("C20c/Detection/writes=StateCommit", c.P.InstrPos(w.Instr), "writes "+v)
				}
			}
		}
		allowR := map[string]bool{ck + "msgServer.handleResponseConflict": true, ck + "msgServer.ConflictVoteCommit": true, ck + "msgServer.ConflictVoteReveal": true, "x/conflict/types.Vote.Unmarshal": true}
		for _, w := range c.FieldStores("x/conflict/types.Vote.Result") {
			n := topName(w.Fn)
			key := "C20c/Vote.Result/writer=" + n
			if allowR[n] {
				c.OKTrivial(key, c.P.InstrPos(w.Instr), "allowed writer")
			} else {
				c.Fail(key, c.P.InstrPos(w.Instr), "vote result written outside the commit/reveal handlers")
			}
		}

		c.Rule("C20d transitions: TransitionVoteToReveal and HandleAndCloseVote are called only from CheckAndHandleAllVotes, dominated by IsEpochStart, VoteDeadline<=height and the matching current state; CheckAndHandleAllVotes only from the module's BeginBlock")
		c.RequireCallers("C20d", ck+"Keeper.TransitionVoteToReveal", ck+"Keeper.CheckAndHandleAllVotes")
		c.RequireCallers("C20d", ck+"Keeper.HandleAndCloseVote", ck+"Keeper.CheckAndHandleAllVotes")
		c.RequireCallers("C20d", ck+"Keeper.CheckAndHandleAllVotes", ck+"Keeper.BeginBlock")
		common := []GuardSpec{
			CallIs(true, ck+"Keeper.IsEpochStart"),
			Cmp("deadline<=height", ".VoteDeadline", "<=", "Context.BlockHeight)"),
		}
		c.RequireGuards("C20d", c.CallsIn(check, trans, true), "TransitionVoteToReveal", append(common, Cmp("state==commit", ".VoteState", "==", stCommit))...)
		c.RequireGuards("C20d", c.CallsIn(check, handle, true), "HandleAndCloseVote", append(common, Cmp("state==reveal", ".VoteState", "==", stReveal))...)
		// the transition stores the updated vote; closing removes it on every path
		if r := c.MustPass(trans, nil, IsCallTo(ck+"Keeper.SetConflictVote"), nil); r.OK {
			c.OK("C20d/TransitionVoteToReveal/must-pass=SetConflictVote", c.P.Pos(trans.Pos()), "all paths")
		} else {
			c.Fail("C20d/TransitionVoteToReveal/must-pass=SetConflictVote", c.P.Pos(trans.Pos()), "a path leaves the vote in commit state: "+r.Witness)
		}
		if r := c.MustPass(handle, nil, IsCallTo(ck+"Keeper.RemoveConflictVote", ck+"Keeper.CleanUpVote"), nil); r.OK {
			c.OK("C20d/HandleAndCloseVote/must-pass=RemoveConflictVote", c.P.Pos(handle.Pos()), "all paths")
		} else {
			c.Audit("C20d/HandleAndCloseVote/must-pass=RemoveConflictVote", c.P.Pos(handle.Pos()), "two division-by-zero early returns keep the vote (it is re-examined at the next epoch start); not part of the property: "+r.Witness)
		}

		c.Rule("C20e tally: in HandleAndCloseVote each per-option tally Add is dominated by vote.Result == that option (unrevealed commits fall into the no-vote branch), and winner rewards / 100% slashing are dominated by the majority condition built from Int.GT(tally, total/MajorityDiv)")
		p0 := c.Const("x/conflict/types", "Provider0")
		p1 := c.Const("x/conflict/types", "Provider1")
		pn := c.Const("x/conflict/types", "NoneOfTheProviders")
		// tallies: Int.Add calls whose second arg is the stake (TotalStake) inside the counting loop
		n := 0
		tally := map[string]ssa.Value{}
		ir.EachInstr(handle, func(in ssa.Instruction) {
			call, ok := in.(*ssa.Call)
			if !ok || ir.CalleeName(&call.Call) != "cosmossdk.io/math.Int.Add" || len(call.Call.Args) != 2 {
				return
			}
			if !strings.Contains(ir.Desc(call.Call.Args[1]), "StakeEntry.TotalStake)") {
				return
			}
			facts := ir.GuardFacts(in)
			opt := ""
			for _, f := range facts {
				x, op, y, ok := splitCmp(f)
				if ok && op == "==" && strings.HasSuffix(x, ".Votes[i].Result") {
					opt = y
				}
			}
			if opt == "" {
				return // totalVotes: counts every voter with a stake entry
			}
			n++
			tally[opt] = call.Call.Args[0]
			if opt == p0 || opt == p1 || opt == pn {
				c.OK("C20e/HandleAndCloseVote/tally-under-result="+opt, c.P.InstrPos(in), "tally add dominated by Result=="+opt)
			} else {
				c.Fail("C20e/HandleAndCloseVote/tally-under-result="+opt, c.P.InstrPos(in), "a vote with Result "+opt+" (not a revealed option) is counted")
			}
		})
		if n != 3 {
			c.Fail("C20e/HandleAndCloseVote/three-tallies", c.P.Pos(handle.Pos()), "expected exactly three option tallies each guarded by vote.Result==option, found "+itoa(n))
		}
		// the winner is picked by comparing the tallies of the options themselves:
		// Provider0 under first>second ∧ first>none, Provider1 (otherwise) under second>none, else none
		if len(tally) == 3 {
			gtFact := func(gs []ir.Guard, a, b ssa.Value, want bool) bool {
				for _, g := range gs {
					v, edge := stripNot(g.If.Cond, g.Edge)
					if cl, _ := callOfValue(v); cl != nil && ir.CalleeName(&cl.Call) == "cosmossdk.io/math.Int.GT" && edge == want {
						if sameTally(cl.Call.Args[0], a) && sameTally(cl.Call.Args[1], b) {
							return true
						}
					}
				}
				return false
			}
			nw := 0
			ir.EachInstr(handle, func(in ssa.Instruction) {
				phi, ok := in.(*ssa.Phi)
				if !ok || phi.Type().String() != "int64" {
					return
				}
				consts := map[string]int{}
				for i, e := range phi.Edges {
					consts[ir.Desc(e)] = i
				}
				if _, has0 := consts[p0]; !has0 {
					return
				}
				if _, has1 := consts[p1]; !has1 {
					return
				}
				if _, hasN := consts[pn]; !hasN {
					return
				}
				nw++
				g0 := guardsOfEdge(phi.Block().Preds[consts[p0]], phi.Block())
				g1 := guardsOfEdge(phi.Block().Preds[consts[p1]], phi.Block())
				gN := guardsOfEdge(phi.Block().Preds[consts[pn]], phi.Block())
				ok0 := gtFact(g0, tally[p0], tally[p1], true) && gtFact(g0, tally[p0], tally[pn], true)
				ok1 := gtFact(g1, tally[p1], tally[pn], true)
				okN := gtFact(gN, tally[p1], tally[pn], false)
				if ok0 && ok1 && okN {
					c.OK("C20e/HandleAndCloseVote/winner=option-with-the-larger-tally", c.P.InstrPos(phi), "Provider0: first>second ∧ first>none; else Provider1: second>none; else none")
				} else {
					c.Fail("C20e/HandleAndCloseVote/winner=option-with-the-larger-tally", c.P.InstrPos(phi), "the winner is not selected by first>second ∧ first>none / second>none / otherwise none on the options' own tallies (P0:"+boolStr(ok0)+" P1:"+boolStr(ok1)+" none:"+boolStr(okN)+"): the option holding the majority may not be the one rewarded")
				}
			})
			if nw != 1 {
				c.Undecided("C20e: expected one winner merge in HandleAndCloseVote, found %d", nw)
			}
		}
		// majority: rewards to winner and voters
		credits := c.CallsByName(handle, true, "invoke:x/conflict/types.PairingKeeper.CreditStakeEntry")
		if len(credits) < 2 {
			c.Undecided("HandleAndCloseVote: expected >=2 CreditStakeEntry calls, found %d", len(credits))
		}
		maj := GuardSpec{Name: "majorityMet", Match: func(g ir.Guard) bool {
			return g.Edge && strings.HasPrefix(g.Fact, "phi{") && strings.Contains(g.Fact, "call(cosmossdk.io/math.Int.GT)(") && strings.Contains(g.Fact, "const(true)")
		}}
		c.RequireGuards("C20e", credits, "CreditStakeEntry", maj)
		// the majority operand: GT(x, total.Quo(NewIntFromUint64(MajorityDiv)))
		md := c.Const("x/conflict/keeper", "MajorityDiv")
		gts := 0
		ir.EachInstr(handle, func(in ssa.Instruction) {
			call, ok := in.(*ssa.Call)
			if !ok || ir.CalleeName(&call.Call) != "cosmossdk.io/math.Int.GT" {
				return
			}
			d := ir.Desc(call.Call.Args[1])
			if strings.Contains(d, "call(cosmossdk.io/math.Int.Quo)(") && strings.Contains(d, "NewIntFromUint64") && strings.Contains(d, "("+md+")") {
				gts++
			}
		})
		if gts == 3 && md == "const(2)" {
			c.OK("C20e/HandleAndCloseVote/majority=GT(total/2)x3", c.P.Pos(handle.Pos()), "three strict comparisons against total/"+md)
		} else {
			c.Fail("C20e/HandleAndCloseVote/majority=GT(total/2)x3", c.P.Pos(handle.Pos()), "expected three Int.GT(option, total.Quo(2)) comparisons, found "+itoa(gts)+" with divisor "+md)
		}
		// one vote per detection: the key the new vote is stored under is the key that was checked for an open vote
		nIdx := 0
		for _, f := range c.P.AllFuncs {
			if !inProd(f) || !strings.HasPrefix(ir.FuncName(f), "x/conflict/keeper.") {
				continue
			}
			allocs := c.CallsByName(f, false, "x/conflict/keeper.Keeper.AllocateNewConflictVote")
			if len(allocs) == 0 {
				continue
			}
			checked := ir.CallOf(allocs[0].Instr).Args[2]
			ir.EachInstr(f, func(in ssa.Instruction) {
				st, ok := in.(*ssa.Store)
				if !ok {
					return
				}
				fa, ok := st.Addr.(*ssa.FieldAddr)
				if !ok || ir.FieldKey(fa) != "x/conflict/types.ConflictVote.Index" {
					return
				}
				nIdx++
				if st.Val == checked {
					c.OK("C20a/"+ir.FuncName(f)+"/vote-stored-under-the-key-checked-for-duplicates", c.P.InstrPos(st), "same value as AllocateNewConflictVote's argument")
				} else {
					c.Fail("C20a/"+ir.FuncName(f)+"/vote-stored-under-the-key-checked-for-duplicates", c.P.InstrPos(st), "the new vote's Index ("+trunc(ir.Desc(st.Val), 80)+") is not the key that was checked for an already open vote ("+trunc(ir.Desc(checked), 80)+"): the same detection can open a second vote")
				}
			})
		}
		if nIdx == 0 {
			c.Undecided("C20a: no assignment of ConflictVote.Index next to AllocateNewConflictVote found")
		}
		c.NotCovered("stake arithmetic, reward amounts, deadlines computed from parameters")
	})
}

// sameTally: v is the accumulator a (a loop-header phi) or a value merged from it.
func sameTally(v, a ssa.Value) bool {
	if v == a {
		return true
	}
	for _, lf := range phiLeaves(v) {
		if lf == a {
			return true
		}
		if add, _ := callOfValue(lf); add != nil && len(add.Call.Args) > 0 && add.Call.Args[0] == a {
			return true
		}
	}
	for _, lf := range phiLeaves(a) {
		if lf == v {
			return true
		}
	}
	return false
}
