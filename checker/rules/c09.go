package rules

import (
	"fmt"
	"go/types"
	"sort"
	"strings"

	"golang.org/x/tools/go/ssa"

	"lavaverif/checker/ir"
)

// production scope: everything except test utilities
func inProd(fn *ssa.Function) bool {
	n := topName(fn)
	return !strings.HasPrefix(n, "testutil/") && !strings.HasPrefix(n, "testutil.")
}

var bankAllowed = map[string]string{
	"SendCoins":                    "moves",
	"SendCoinsFromModuleToAccount": "moves",
	"SendCoinsFromModuleToModule":  "moves",
	"SendCoinsFromAccountToModule": "moves",
	"BurnCoins":                    "reduces",
	"GetBalance":                   "reads",
	"GetAllBalances":               "reads",
	"SpendableCoins":               "reads",
	"GetSupply":                    "reads",
	"LockedCoins":                  "reads",
	"BlockedAddr":                  "reads",
	"DelegateCoinsFromAccountToModule":   "moves",
	"UndelegateCoinsFromModuleToAccount": "moves",
}

func init() {
	register("C09", "proof", func(c *Ctx) {
		c.Explain = "Token supply never increases: in cosmos-sdk v0.47 the only operations that create bank supply are BaseKeeper.MintCoins (and genesis import). The check proves that no non-test lava code can reach MintCoins or any other supply-creating entry point."
		c.Assumes("cosmos-sdk bank semantics: Send*/Delegate*/Undelegate* move coins, BurnCoins reduces supply, only MintCoins (and InitGenesis) increases it; staking/distribution/gov keepers called by lava do not mint; IBC voucher denoms are not the bond denomination")

		// O1: no call / reference to any function or method named MintCoins
		c.Rule("C09-O1 no-call: no call instruction, interface invoke or method value in any non-test lava function resolves to a function named MintCoins (positive control: the BankKeeper interfaces declaring MintCoins must be found by the same name matcher)")
		declared := 0
		for _, pkg := range c.P.Pkgs {
			if strings.Contains(pkg.PkgPath, "/testutil") {
				continue
			}
			sc := pkg.Types.Scope()
			for _, n := range sc.Names() {
				tn, ok := sc.Lookup(n).(*types.TypeName)
				if !ok {
					continue
				}
				if it, ok := tn.Type().Underlying().(*types.Interface); ok {
					for i := 0; i < it.NumMethods(); i++ {
						if it.Method(i).Name() == "MintCoins" {
							declared++
							c.Note("C09-O1/declares/"+ir.TypeName(tn.Type()), c.P.Pos(it.Method(i).Pos()), "interface declares MintCoins (capability present, must stay unused)")
						}
					}
				}
			}
		}
		if declared < 2 {
			c.Undecided("positive control failed: expected >=2 interface declarations of MintCoins in lava, found %d", declared)
		}
		scanned, calls := 0, 0
		bad := 0
		bankCalls := map[string]int{}
		for _, f := range c.P.AllFuncs {
			if !inProd(f) {
				continue
			}
			scanned++
			ir.EachInstr(f, func(in ssa.Instruction) {
				if call := ir.CallOf(in); call != nil {
					calls++
					name := ir.CalleeName(call)
					meth := name[strings.LastIndex(name, ".")+1:]
					if meth == "MintCoins" {
						bad++
						c.Fail("C09-O1/"+topName(f)+"/calls="+name, c.P.InstrPos(in), "supply-creating call "+name)
					}
					// O3: bank keeper surface
					if strings.Contains(name, "BankKeeper.") || strings.Contains(name, "cosmos-sdk/x/bank/keeper.") {
						bankCalls[topName(f)+" → "+name]++
						if strings.Contains(name, "cosmos-sdk/x/bank/keeper.") {
							if meth != "NewBaseKeeper" && meth != "init" {
								c.Fail("C09-O3/"+topName(f)+"/calls="+name, c.P.InstrPos(in), "direct use of the bank keeper implementation outside app wiring")
							}
						} else if _, ok := bankAllowed[meth]; !ok {
							c.Fail("C09-O3/"+topName(f)+"/calls="+name, c.P.InstrPos(in), "bank operation "+meth+" is not in the supply-preserving-or-reducing set")
						}
					}
				}
				// method values / function references
				for _, op := range in.Operands(nil) {
					if op == nil || *op == nil {
						continue
					}
					if g, ok := (*op).(*ssa.Function); ok && g.Name() == "MintCoins" {
						bad++
						c.Fail("C09-O1/"+topName(f)+"/references=MintCoins", c.P.InstrPos(in), "MintCoins taken as a value")
					}
					if g, ok := (*op).(*ssa.Function); ok && strings.Contains(g.Name(), "MintCoins") && g.Synthetic != "" {
						bad++
						c.Fail("C09-O1/"+topName(f)+"/references=MintCoins-wrapper", c.P.InstrPos(in), "MintCoins bound as a method value")
					}
				}
			})
		}
		if bad == 0 {
			c.OK("C09-O1/no-MintCoins-call", "-", fmt.Sprintf("%d non-test functions, %d call instructions scanned", scanned, calls))
		}
		var keys []string
		for k := range bankCalls {
			keys = append(keys, k)
		}
		sort.Strings(keys)
		for _, k := range keys {
			meth := k[strings.LastIndex(k, ".")+1:]
			c.OK("C09-O3/bank-call/"+k, "-", "allowed: "+bankAllowed[meth]+meth)
		}
		c.Rule("C09-O3 surface: every call on a BankKeeper interface from lava code is one of {Send*, BurnCoins, Delegate*/Undelegate*, getters}; the concrete bank keeper is used only by app wiring (NewBaseKeeper)")
		if len(keys) < 10 {
			c.Undecided("bank call surface shrank below the confirmed minimum (10 caller→method pairs), found %d: matcher may be broken", len(keys))
		}

		// O2: no supply-creating module wired in; nobody touches the bank store directly
		c.Rule("C09-O2 imports: no non-test lava package imports cosmos-sdk/x/mint (or its keeper/types), and only app imports cosmos-sdk/x/bank/keeper")
		for _, pkg := range c.P.Pkgs {
			if strings.Contains(pkg.PkgPath, "/testutil") {
				continue
			}
			for imp := range pkg.Imports {
				if strings.HasPrefix(imp, "github.com/cosmos/cosmos-sdk/x/mint") {
					c.Fail("C09-O2/"+ir.ShortPkg(pkg.PkgPath)+"/imports="+imp, "-", "the SDK mint module is reachable from lava code")
				}
				if imp == "github.com/cosmos/cosmos-sdk/x/bank/keeper" {
					sp := ir.ShortPkg(pkg.PkgPath)
					if sp == "app" || sp == "app/keepers" {
						c.OK("C09-O2/"+sp+"/imports=bank/keeper", "-", "app wiring")
					} else {
						c.Fail("C09-O2/"+sp+"/imports=bank/keeper", "-", "bank keeper implementation imported outside app wiring")
					}
				}
			}
		}
		c.OK("C09-O2/no-mint-module", "-", fmt.Sprintf("%d packages' import lists scanned", len(c.P.Pkgs)))

		// O4: module-account permissions, for the record
		c.Rule("C09-O4 record: module accounts holding the Minter permission are listed; with O1 no lava code path can exercise it")
		if app := c.P.Package("app"); app != nil {
			if obj := app.Types.Scope().Lookup("maccPerms"); obj != nil {
				c.Note("C09-O4/maccPerms", c.P.Pos(obj.Pos()), "Minter permission is granted in app.maccPerms to the ibc-transfer module and the two rewards allocation pools; unused by lava code (O1)")
			} else {
				c.Undecided("app.maccPerms not found")
			}
		} else {
			c.Undecided("package app not loaded")
		}
		c.NotCovered("supply changes by third-party modules themselves (ibc-transfer vouchers, genesis import, slashing burns)")
	})
}
