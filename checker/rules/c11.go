package rules

import (
	"strings"

	"golang.org/x/tools/go/ssa"

	"lavaverif/checker/ir"
)

const subK = "x/subscription/keeper.Keeper."

func init() {
	register("C11", "other", func(c *Ctx) {
		c.Explain = "Monthly subscription payouts are bounded and proportional — structural part: the amount split is the month credit or, past credit/totalCu > LIMIT_TOKEN_PER_CU, LIMIT·totalCu; each provider's share is amount·cu/totalCu with cu and totalCu from one GetSubTrackedCuInfo result, and that share is the only amount that leaves for validators/community (taken out of it) and provider/delegators (the remainder); a provider's tracker is reset before anything is paid for it and a failed reset pays nothing; with no tracked CU the whole credit goes back to the subscription (or to the validators pool when the subscription is gone) and nothing is paid; tracked CU accumulates by the reported amount."
		rr := c.Fn(subK + "RewardAndResetCuTracker")
		ctm := c.Fn(subK + "CalcTotalMonthlyReward")
		gsi := c.Fn(subK + "GetSubTrackedCuInfo")
		rcs := c.Fn(subK + "returnCreditToSub")
		atc := c.Fn(subK + "AddTrackedCu")
		rst := c.Fn(subK + "resetCuTracker")
		if rr == nil || ctm == nil || gsi == nil || rcs == nil || atc == nil || rst == nil {
			return
		}
		const D = 12

		c.Rule("C11a share: CalcTotalMonthlyReward is total.Mul(cu).Quo(totalCu) (zero when totalCu is 0); RewardAndResetCuTracker calls it with the capped amount, the list element's TrackedCu and the total of the same GetSubTrackedCuInfo call")
		okShape, okZero := false, false
		for _, r := range c.AllReturns(ctm) {
			ret := r.Instr.(*ssa.Return)
			d := ir.DescN(ret.Results[0], D)
			if strings.HasPrefix(d, "call(cosmossdk.io/math.Int.Quo)(call(cosmossdk.io/math.Int.Mul)(param#1,") && strings.Contains(d, "(param#2)),") && strings.HasSuffix(d, "(param#3))") {
				okShape = true
			}
			if ir.HasFact(ir.GuardFacts(ret), "(param#3 == const(0))") && strings.Contains(d, "ZeroInt") {
				okZero = true
			}
		}
		if okShape && okZero {
			c.OK("C11a/CalcTotalMonthlyReward/share=total·cu/totalCu", c.P.Pos(ctm.Pos()), "integer division: rounded down, so Σ shares <= total")
		} else {
			c.Fail("C11a/CalcTotalMonthlyReward/share=total·cu/totalCu", c.P.Pos(ctm.Pos()), "the provider share is no longer total.Mul(cu).Quo(totalCu) with a zero guard")
		}
		calls := c.CallsIn(rr, ctm, false)
		infos := c.CallsIn(rr, gsi, false)
		if len(calls) != 1 || len(infos) != 1 {
			c.Undecided("C11a: expected one CalcTotalMonthlyReward and one GetSubTrackedCuInfo call in RewardAndResetCuTracker, found %d and %d", len(calls), len(infos))
			return
		}
		share := calls[0].Instr.(*ssa.Call)
		info := infos[0].Instr.(*ssa.Call)
		var list, total ssa.Value
		if info.Referrers() != nil {
			for _, r := range *info.Referrers() {
				if e, ok := r.(*ssa.Extract); ok {
					if e.Index == 0 {
						list = e
					} else {
						total = e
					}
				}
			}
		}
		cuRoot, cuPath := fieldPath(share.Call.Args[3])
		fromList := false
		if u, ok := cuRoot.(*ssa.IndexAddr); ok && u.X == list {
			fromList = true
		}
		if ld, ok := cuRoot.(*ssa.UnOp); ok {
			if ia, ok := ld.X.(*ssa.IndexAddr); ok && ia.X == list {
				fromList = true
			}
		}
		if cuPath == "TrackedCu" && fromList && share.Call.Args[4] == total && total != nil {
			c.OK("C11a/RewardAndResetCuTracker/cu-and-total-from-one-snapshot", c.P.InstrPos(share), "")
		} else {
			c.Fail("C11a/RewardAndResetCuTracker/cu-and-total-from-one-snapshot", c.P.InstrPos(share), "the share is computed from "+trunc(ir.Desc(share.Call.Args[3]), 80)+" over "+trunc(ir.Desc(share.Call.Args[4]), 80))
		}

		c.Rule("C11b cap: the amount split is the timer's month credit, replaced by LIMIT_TOKEN_PER_CU·totalCu exactly past credit.Quo(totalCu).GT(LIMIT_TOKEN_PER_CU)")
		limit := c.Const("x/subscription/keeper", "LIMIT_TOKEN_PER_CU")
		leaves := phiLeaves(share.Call.Args[2])
		okCredit, okCap := false, false
		for _, lf := range leaves {
			d := ir.DescN(lf, D)
			switch {
			case strings.HasSuffix(d, ".Credit.Amount"):
				okCredit = true
			case strings.Contains(d, limit) && strings.Contains(d, "GetSubTrackedCuInfo)(") && strings.Contains(d, ")#1"):
				// LIMIT·totalCu in either arithmetic; taken only past a greater-than test that involves the credit
				if in, ok := lf.(ssa.Instruction); ok && ir.HasFact(ir.GuardFacts(in), "call(cosmossdk.io/math.Int.GT)(", ".Credit.Amount") {
					okCap = true
				} else {
					// the value may be computed before the test: look at the edge that selects it
					for _, g := range ir.Guards(share) {
						_ = g
					}
					if phi, isPhi := share.Call.Args[2].(*ssa.Phi); isPhi {
						for i, e := range phi.Edges {
							if e != lf {
								continue
							}
							for _, g := range guardsOfEdge(phi.Block().Preds[i], phi.Block()) {
								if strings.Contains(g.Fact, "call(cosmossdk.io/math.Int.GT)(") && strings.Contains(g.Fact, ".Credit.Amount") && g.Edge {
									okCap = true
								}
							}
						}
					}
				}
			default:
				c.Fail("C11b/RewardAndResetCuTracker/amount-is-credit-or-cap", c.P.InstrPos(share), "the amount split can be "+trunc(d, 160))
			}
		}
		if okCredit && okCap && len(leaves) == 2 {
			c.OK("C11b/RewardAndResetCuTracker/amount-is-credit-or-cap", c.P.InstrPos(share), "credit, or LIMIT·totalCu when credit/totalCu > LIMIT")
		} else if limit == "" {
			c.Undecided("C11b: LIMIT_TOKEN_PER_CU constant not found")
		} else {
			c.Fail("C11b/RewardAndResetCuTracker/amount-is-credit-or-cap", c.P.InstrPos(share), "the amount split is not {month credit | LIMIT·totalCu under the cap condition}")
		}

		c.Rule("C11c outflow: the coin handed to ContributeToValidatorsAndCommunityPool is NewCoin(denom, share); what it returns is the only thing handed to RewardProvidersAndDelegators, for the same provider and chain the share was computed for, from the subscription module account")
		contribs := c.CallsByName(rr, false, "invoke:x/subscription/types.RewardsKeeper.ContributeToValidatorsAndCommunityPool")
		pays := c.CallsByName(rr, false, "invoke:x/subscription/types.DualStakingKeeper.RewardProvidersAndDelegators")
		if len(contribs) != 1 || len(pays) != 1 {
			c.Undecided("C11c: expected one participation call and one provider payment in RewardAndResetCuTracker, found %d and %d", len(contribs), len(pays))
		} else {
			cc := contribs[0].Instr.(*ssa.Call)
			pc := pays[0].Instr.(*ssa.Call)
			coin, _ := callOfValue(cc.Call.Args[1])
			if coin != nil && strings.HasSuffix(ir.CalleeName(&coin.Call), "types.NewCoin") && coin.Call.Args[1] == ssa.Value(share) {
				c.OK("C11c/RewardAndResetCuTracker/participation-taken-from-the-share", c.P.InstrPos(cc), "")
			} else {
				c.Fail("C11c/RewardAndResetCuTracker/participation-taken-from-the-share", c.P.InstrPos(cc), "validators/community participation is computed on "+trunc(ir.DescN(cc.Call.Args[1], 8), 120))
			}
			amt := ir.DescN(pc.Call.Args[3], D)
			okAmt := false
			// NewCoins(<result #0 of the participation call>)
			if nc, _ := callOfValue(pc.Call.Args[3]); nc != nil && strings.HasSuffix(ir.CalleeName(&nc.Call), "types.NewCoins") {
				if sl, ok := nc.Call.Args[0].(*ssa.Slice); ok {
					if arr, ok := sl.X.(*ssa.Alloc); ok && arr.Referrers() != nil {
						for _, r := range *arr.Referrers() {
							if ia, ok := r.(*ssa.IndexAddr); ok {
								walkStores(ia, func(v ssa.Value) {
									if ex, ok := v.(*ssa.Extract); ok && ex.Tuple == ssa.Value(cc) && ex.Index == 0 {
										okAmt = true
									}
								})
							}
						}
					}
				}
			}
			provRoot, provPath := fieldPath(pc.Call.Args[1])
			chainRoot, chainPath := fieldPath(pc.Call.Args[2])
			sameElem := func(root ssa.Value) bool {
				if ld, ok := root.(*ssa.UnOp); ok {
					root = ld.X
				}
				if ia, ok := root.(*ssa.IndexAddr); ok {
					return ia.X == list
				}
				return false
			}
			if okAmt && provPath == "Provider" && chainPath == "ChainID" && sameElem(provRoot) && sameElem(chainRoot) && strings.HasSuffix(ir.Desc(pc.Call.Args[4]), "\"subscription\")") {
				c.OK("C11c/RewardAndResetCuTracker/pays-share-minus-participation-to-that-provider", c.P.InstrPos(pc), "")
			} else {
				c.Fail("C11c/RewardAndResetCuTracker/pays-share-minus-participation-to-that-provider", c.P.InstrPos(pc), "provider payment is "+trunc(amt, 120)+" to "+trunc(ir.Desc(pc.Call.Args[1]), 60)+" from "+ir.Desc(pc.Call.Args[4]))
			}
		}

		c.Rule("C11d once: in every loop iteration resetCuTracker for the element being paid precedes the reward bookkeeping, participation and payment, and its error outcome reaches none of them in that iteration; resetCuTracker deletes the tracker entry when it is the latest")
		resets := c.CallsIn(rr, rst, false)
		var payouts []Site
		payouts = append(payouts, contribs...)
		payouts = append(payouts, pays...)
		payouts = append(payouts, c.CallsByName(rr, false, "invoke:x/subscription/types.RewardsKeeper.AggregateRewards")...)
		if len(resets) != 1 {
			c.Undecided("C11d: expected one resetCuTracker call in RewardAndResetCuTracker, found %d", len(resets))
		} else {
			c.RequireGuards("C11d", payouts, "payout", ErrNil(subK+"resetCuTracker"))
			for _, ie := range c.IfsMatching(rr, ErrNonNil(subK+"resetCuTracker")) {
				if ok, where := c.EdgeCannotReach(ie, payouts); ok {
					c.OK("C11d/RewardAndResetCuTracker/failed-reset=>not-paid", c.P.InstrPos(ie.If), "continue")
				} else {
					c.Fail("C11d/RewardAndResetCuTracker/failed-reset=>not-paid", c.P.InstrPos(ie.If), "a tracker that could not be reset is still paid at "+where+": it will be paid again next month")
				}
			}
			rc := ir.CallOf(resets[0].Instr)
			root, _ := fieldPath(rc.Args[3])
			okElem := false
			if ia, ok := root.(*ssa.IndexAddr); ok && ia.X == list {
				okElem = true
			}
			if ld, ok := root.(*ssa.UnOp); ok {
				if ia, ok := ld.X.(*ssa.IndexAddr); ok && ia.X == list {
					okElem = true
				}
			}
			if okElem {
				c.OK("C11d/RewardAndResetCuTracker/resets-the-element-being-paid", c.P.InstrPos(resets[0].Instr), "")
			} else {
				c.Fail("C11d/RewardAndResetCuTracker/resets-the-element-being-paid", c.P.InstrPos(resets[0].Instr), "the tracker reset is "+trunc(ir.Desc(rc.Args[3]), 80)+", not the list element being paid")
			}
		}
		if n := len(c.CallsByName(rst, false, "x/fixationstore/types.FixationStore.DelEntry")); n == 1 {
			c.RequireGuards("C11d", c.CallsByName(rst, false, "x/fixationstore/types.FixationStore.DelEntry"), "DelEntry", GuardSpec{Name: "is-latest", Match: func(g ir.Guard) bool {
				return hasResultFact([]string{g.Fact}, "FixationStore.FindEntryDetailed)(", 2, true)
			}})
		} else {
			c.Fail("C11d/resetCuTracker/deletes-entry", c.P.Pos(rst.Pos()), "resetCuTracker no longer deletes the tracker entry")
		}

		c.Rule("C11e nothing tracked: under len(list)==0 ∨ totalCu==0 the timer's credit is handed to returnCreditToSub and the function returns without any payout; returnCreditToSub adds it to the latest subscription's credit, or sends exactly that amount to the validators distribution pool when the subscription is gone")
		rets := c.CallsIn(rr, rcs, false)
		// inside the per-provider loop the share is the only outflow: credit handed back there is paid twice
		var outside []Site
		for _, s := range rets {
			if innermostLoop(rr, s.Instr.Block()) != nil {
				c.Fail("C11c/RewardAndResetCuTracker/no-second-outflow-per-share", c.P.InstrPos(s.Instr), "credit is handed back ("+trunc(ir.Desc(ir.CallOf(s.Instr).Args[3]), 60)+") inside the payout loop, on top of the participation and provider payment taken from the same share: more than the month's credit can leave")
			} else {
				outside = append(outside, s)
			}
		}
		if len(rets) > 0 && len(outside) == len(rets) {
			c.OK("C11c/RewardAndResetCuTracker/no-second-outflow-per-share", c.P.Pos(rr.Pos()), "no credit refund inside the payout loop")
		}
		rets = outside
		if len(rets) != 1 {
			c.Undecided("C11e: expected one returnCreditToSub call in RewardAndResetCuTracker, found %d", len(rets))
		} else {
			call := ir.CallOf(rets[0].Instr)
			blk := rets[0].Instr.Block()
			_, endsRet := blk.Instrs[len(blk.Instrs)-1].(*ssa.Return)
			if strings.HasSuffix(ir.Desc(call.Args[3]), ".Credit.Amount") && endsRet {
				c.OK("C11e/RewardAndResetCuTracker/no-cu=>whole-credit-returned-then-return", c.P.InstrPos(rets[0].Instr), "")
			} else {
				c.Fail("C11e/RewardAndResetCuTracker/no-cu=>whole-credit-returned-then-return", c.P.InstrPos(rets[0].Instr), "returns "+trunc(ir.Desc(call.Args[3]), 80)+" to the subscription and continues")
			}
			// reached from both conditions, and payouts are not reachable from that block
			okPreds := len(blk.Preds) == 2
			for _, p := range blk.Preds {
				iff, ok := p.Instrs[len(p.Instrs)-1].(*ssa.If)
				if !ok {
					okPreds = false
					continue
				}
				f := ir.Fact(iff.Cond, p.Succs[0] == blk)
				if !(strings.HasPrefix(f, "(call(builtin:len)(") && strings.HasSuffix(f, "#0) == const(0))") || strings.HasSuffix(f, "#1 == const(0))")) {
					okPreds = false
				}
			}
			if okPreds {
				c.OK("C11e/RewardAndResetCuTracker/no-cu-condition", c.P.InstrPos(rets[0].Instr), "len(list) == 0 || totalCu == 0")
			} else {
				c.Fail("C11e/RewardAndResetCuTracker/no-cu-condition", c.P.InstrPos(rets[0].Instr), "the credit is returned under a different condition than 'nothing tracked'")
			}
		}
		okAdd, okSend := false, false
		ir.EachInstr(rcs, func(in ssa.Instruction) {
			call := ir.CallOf(in)
			if call == nil {
				return
			}
			switch {
			case strings.HasSuffix(ir.CalleeName(call), "types.Coin.AddAmount") && ir.Desc(call.Args[1]) == "param#2":
				if hasResultFact(ir.GuardFacts(in), "FixationStore.FindEntryDetailed)(", 3, true) {
					okAdd = true
				}
			case strings.HasSuffix(ir.CalleeName(call), "BankKeeper.SendCoinsFromModuleToModule"):
				exact := false
				if nc, _ := callOfValue(call.Args[len(call.Args)-1]); nc != nil && strings.HasSuffix(ir.CalleeName(&nc.Call), "types.NewCoins") {
					if sl, ok := nc.Call.Args[0].(*ssa.Slice); ok {
						if arr, ok := sl.X.(*ssa.Alloc); ok && arr.Referrers() != nil {
							for _, r := range *arr.Referrers() {
								if ia, ok := r.(*ssa.IndexAddr); ok {
									walkStores(ia, func(v ssa.Value) {
										if one, _ := callOfValue(v); one != nil && strings.HasSuffix(ir.CalleeName(&one.Call), "types.NewCoin") && ir.Desc(one.Call.Args[1]) == "param#2" {
											exact = true
										}
									})
								}
							}
						}
					}
				}
				if strings.Contains(ir.Desc(call.Args[len(call.Args)-2]), "validators_rewards_distribution_pool") && exact && ir.HasFact(ir.GuardFacts(in), "!call(x/fixationstore/types.FixationStore.FindEntryDetailed)(") {
					okSend = true
				}
			}
		})
		if okAdd && okSend {
			c.OK("C11e/returnCreditToSub/credit-to-sub-or-validators-pool", c.P.Pos(rcs.Pos()), "")
		} else {
			c.Fail("C11e/returnCreditToSub/credit-to-sub-or-validators-pool", c.P.Pos(rcs.Pos()), "unused credit is neither added to the subscription (found) nor sent to the validators pool (not found)")
		}

		c.Rule("C11f tracking: GetSubTrackedCuInfo adds to the total exactly the cu of the entries it appends; AddTrackedCu stores previous+cuToAdd on an existing entry and cuToAdd on a new one")
		okTot := false
		ir.EachInstr(gsi, func(in ssa.Instruction) {
			b, ok := in.(*ssa.BinOp)
			if !ok || b.Op.String() != "+" || !strings.Contains(ir.Desc(b), "GetTrackedCu)(") {
				return
			}
			for _, in2 := range in.Block().Instrs {
				if c2 := ir.CallOf(in2); c2 != nil && ir.CalleeName(c2) == "builtin:append" {
					okTot = true
				}
			}
		})
		if okTot {
			c.OK("C11f/GetSubTrackedCuInfo/total=Σ-of-listed-cu", c.P.Pos(gsi.Pos()), "accumulated next to the append")
		} else {
			c.Fail("C11f/GetSubTrackedCuInfo/total=Σ-of-listed-cu", c.P.Pos(gsi.Pos()), "the total tracked CU is not the sum over the listed entries: shares do not add up to the amount")
		}
		nacc := 0
		ir.EachInstr(atc, func(in ssa.Instruction) {
			st, ok := in.(*ssa.Store)
			if !ok {
				return
			}
			fa, ok := st.Addr.(*ssa.FieldAddr)
			if !ok || ir.FieldKey(fa) != "x/subscription/types.TrackedCu.Cu" {
				return
			}
			d := ir.Desc(st.Val)
			if d == "param#4" || strings.HasSuffix(d, " + param#4)") && strings.Contains(d, "GetTrackedCu)(") {
				nacc++
			} else {
				c.Fail("C11f/AddTrackedCu/accumulates", c.P.InstrPos(st), "tracked CU stored as "+trunc(d, 100))
			}
		})
		if nacc == 2 {
			c.OK("C11f/AddTrackedCu/accumulates", c.P.Pos(atc.Pos()), "new: cuToAdd; existing: previous + cuToAdd")
		} else {
			c.Fail("C11f/AddTrackedCu/accumulates-both-cases", c.P.Pos(atc.Pos()), "expected the new-entry and existing-entry stores, found "+itoa(nacc))
		}
		c.Rule("C11g participation is taken off what the provider gets: every successful return of ContributeToValidatorsAndCommunityPool hands back reward − community part − validators part (both parts of the one CalculateValidatorsAndCommunityParticipationRewards call); the unreduced reward is returned only together with an error — otherwise the parts already transferred are paid a second time through RewardProvidersAndDelegators")
		if cv := c.Fn("x/rewards/keeper.Keeper.ContributeToValidatorsAndCommunityPool"); cv != nil {
			n, bad := 0, ""
			var at ssa.Instruction
			for _, s := range c.SuccessReturns(cv) {
				ret := s.Instr.(*ssa.Return)
				for _, leaf := range phiLeaves(RetVal(ret, 0)) {
					n++
					d := ir.DescN(unconv(leaf), 12)
					const sub = "call(github.com/cosmos/cosmos-sdk/types.Coin.SubAmount)("
					calc := "call(x/rewards/keeper.Keeper.CalculateValidatorsAndCommunityParticipationRewards)("
					if !(strings.HasPrefix(d, sub+sub) && strings.Contains(d, calc) && strings.Contains(d, ")#0") && strings.Contains(d, ")#1")) {
						bad, at = trunc(d, 140), ret
					}
				}
			}
			switch {
			case n == 0:
				c.Undecided("C11g: ContributeToValidatorsAndCommunityPool has no successful return")
			case bad != "":
				c.Fail("C11g/ContributeToValidatorsAndCommunityPool/returns-reward-minus-both-parts", c.P.InstrPos(at), "a successful return hands back "+bad+" instead of reward − community part − validators part: participation that was already transferred is not deducted from what the provider and its delegators are then paid")
			default:
				c.OK("C11g/ContributeToValidatorsAndCommunityPool/returns-reward-minus-both-parts", c.P.Pos(cv.Pos()), itoa(n)+" successful return value(s), each reward.SubAmount(community).SubAmount(validators)")
			}
		}
		c.NotCovered("the numeric bound itself; what happens to the rounding remainder and to credit above the cap (it stays in the module account); timer scheduling (exactly one payout per month)")
	})
}
