package rules

import (
	"strings"

	"golang.org/x/tools/go/ssa"

	"lavaverif/checker/ir"
)

func init() {
	register("C21", "other", func(c *Ctx) {
		c.Explain = "Reward pools release funds on schedule and within balance — structural part: the time computations that decide the schedule are unit-consistent (timestamps compared with timestamps, durations with durations); each refill burns from the distribution pool before moving allocation/monthsLeft into it, for both pools, and only then merges the leftover pool; validator block rewards are a fraction of the distribution pool's own balance and are sent from that pool; bonus rewards return before paying once the running total exceeds the pool; the leftover pool is chosen only on the end-of-month outcome."
		refill := c.Fn(rk + "Keeper.refillDistributionPool")
		rrp := c.Fn(rk + "Keeper.RefillRewardsPools")
		dbr := c.Fn(rk + "Keeper.DistributeBlockReward")
		bonus := c.Fn(rk + "Keeper.DistributeMonthlyBonusRewards")
		contrib := c.Fn(rk + "Keeper.ContributeToValidatorsAndCommunityPool")
		if refill == nil || rrp == nil || dbr == nil || bonus == nil || contrib == nil {
			return
		}
		c.Rule("C21a units: isEndOfMonth, TimeToNextTimerExpiry and RefillRewardsPools never add two timestamps and never compare a timestamp with a duration (abstract interpretation over {timestamp, duration, scalar})")
		c.RequireUnitConsistency("C21a", 1, rk+"Keeper.isEndOfMonth", rk+"Keeper.TimeToNextTimerExpiry", rk+"Keeper.RefillRewardsPools")

		c.Rule("C21b refill: refillDistributionPool burns burnRate x the distribution pool's balance before it moves allocationBalance/monthsLeft from the allocation pool into the distribution pool; RefillRewardsPools refills the validators' pool (LeftoverBurnRate) and the providers' pool (burn rate 1) and only afterwards moves the leftover pool into the validators' distribution pool; it re-arms the refill timer on every path")
		burns := c.CallsByName(refill, false, rk+"Keeper.BurnPoolTokens")
		sends := c.CallsByName(refill, false, "invoke:x/rewards/types.BankKeeper.SendCoinsFromModuleToModule")
		if len(burns) == 1 && len(sends) == 1 && instrBefore(burns[0].Instr, sends[0].Instr) {
			c.OK("C21b/refillDistributionPool/burn-before-refill", c.P.InstrPos(burns[0].Instr), "BurnPoolTokens precedes the transfer")
		} else {
			c.Fail("C21b/refillDistributionPool/burn-before-refill", c.P.Pos(refill.Pos()), "the leftover of the distribution pool is not burned before the new quota arrives")
		}
		if len(burns) == 1 {
			a := argDescs(ir.CallOf(burns[0].Instr))
			n := len(a)
			if a[n-3] == "param#3" && strings.Contains(a[n-2], "LegacyDec.MulInt)(param#4") && strings.Contains(a[n-2], "TotalPoolTokens)(recv,param#0,param#3)") {
				c.OK("C21b/refillDistributionPool/burn=rate*distribution-balance", c.P.InstrPos(burns[0].Instr), "burnRate.MulInt(balance(distributionPool)) from distributionPool")
			} else {
				c.Fail("C21b/refillDistributionPool/burn=rate*distribution-balance", c.P.InstrPos(burns[0].Instr), "burn amount/pool: "+trunc(strings.Join(a[n-3:], ","), 240))
			}
		}
		if len(sends) == 1 {
			a := argDescs(ir.CallOf(sends[0].Instr))
			n := len(a)
			d := strings.Join(a[n-3:], ",")
			amtRoots := valueRoots(ir.CallOf(sends[0].Instr).Args[len(ir.CallOf(sends[0].Instr).Args)-1])
			quo := false
			for r := range amtRoots {
				if call, ok := r.(*ssa.Call); ok && ir.CalleeName(&call.Call) == "cosmossdk.io/math.Int.QuoRaw" && strings.Contains(ir.Desc(call.Call.Args[1]), "param#1") && strings.Contains(ir.Desc(call.Call.Args[0]), "TotalPoolTokens)(recv,param#0,param#2)") {
					quo = true
				}
			}
			if strings.Contains(a[n-3], "param#2") && strings.Contains(a[n-2], "param#3") && quo {
				c.OK("C21b/refillDistributionPool/quota=allocation/monthsLeft", c.P.InstrPos(sends[0].Instr), "allocationPool → distributionPool, balance.QuoRaw(monthsLeft)")
			} else {
				c.Fail("C21b/refillDistributionPool/quota=allocation/monthsLeft", c.P.InstrPos(sends[0].Instr), "transfer is not allocation→distribution of balance/monthsLeft: "+trunc(d, 240))
			}
			c.RequireGuards("C21b", sends, "refill-transfer", Cmp("months-left!=0", "param#1", "!=", "const(0)"))
		}
		rf := c.CallsByName(rrp, false, rk+"Keeper.refillDistributionPool")
		mv := c.CallsByName(rrp, false, rk+"Keeper.MovePoolToPool")
		if len(rf) == 2 && len(mv) == 1 && instrBefore(rf[0].Instr, mv[0].Instr) && instrBefore(rf[1].Instr, mv[0].Instr) {
			c.OK("C21b/RefillRewardsPools/refill-both-then-merge-leftover", c.P.InstrPos(mv[0].Instr), "two refills precede the leftover merge")
			va := c.Const("x/rewards/types", "ValidatorsRewardsAllocationPoolName")
			vd := c.Const("x/rewards/types", "ValidatorsRewardsDistributionPoolName")
			pa := c.Const("x/rewards/types", "ProvidersRewardsAllocationPool")
			pd := c.Const("x/rewards/types", "ProviderRewardsDistributionPool")
			lo := c.Const("x/rewards/types", "ValidatorsRewardsLeftOverPoolName")
			a0, a1 := strings.Join(argDescs(ir.CallOf(rf[0].Instr)), ","), strings.Join(argDescs(ir.CallOf(rf[1].Instr)), ",")
			if strings.Contains(a0, va) && strings.Contains(a0, vd) && strings.Contains(a0, "LeftoverBurnRate") && strings.Contains(a1, pa) && strings.Contains(a1, pd) && strings.Contains(a1, "OneDec") {
				c.OK("C21b/RefillRewardsPools/pools-and-burn-rates", c.P.InstrPos(rf[0].Instr), "validators: LeftoverBurnRate; providers: 1")
			} else {
				c.Fail("C21b/RefillRewardsPools/pools-and-burn-rates", c.P.InstrPos(rf[0].Instr), "unexpected pools / burn rates: "+trunc(a0, 160)+" | "+trunc(a1, 160))
			}
			ma := strings.Join(argDescs(ir.CallOf(mv[0].Instr)), ",")
			if strings.Contains(ma, lo+","+vd) || (strings.Contains(ma, lo) && strings.Contains(ma, vd) && strings.Index(ma, lo) < strings.Index(ma, vd)) {
				c.OK("C21b/RefillRewardsPools/leftover→validators-distribution", c.P.InstrPos(mv[0].Instr), "MovePoolToPool(leftover, distribution)")
			} else {
				c.Fail("C21b/RefillRewardsPools/leftover→validators-distribution", c.P.InstrPos(mv[0].Instr), ma)
			}
		} else {
			c.Fail("C21b/RefillRewardsPools/refill-both-then-merge-leftover", c.P.Pos(rrp.Pos()), "expected two refills followed by one leftover merge")
		}
		if r := c.MustPass(rrp, nil, IsCallTo("x/timerstore/types.TimerStore.AddTimerByBlockTime"), nil); r.OK {
			c.OK("C21b/RefillRewardsPools/re-arms-timer", c.P.Pos(rrp.Pos()), "all paths")
		} else {
			c.Fail("C21b/RefillRewardsPools/re-arms-timer", c.P.Pos(rrp.Pos()), "a refill path does not schedule the next refill: "+r.Witness)
		}
		c.RequireCallers("C21b", rk+"Keeper.refillDistributionPool", rk+"Keeper.RefillRewardsPools")

		c.Rule("C21c block rewards: DistributeBlockReward pays validators balance(distribution pool) x bondedTargetFactor / blocksToNextTimerExpiry (truncated), sent from the validators' distribution pool, and returns before dividing when the block count is zero")
		fees := c.CallsByName(dbr, false, rk+"Keeper.addCollectedFees")
		if len(fees) == 1 {
			d := valueDescDeep(ir.CallOf(fees[0].Instr).Args[len(ir.CallOf(fees[0].Instr).Args)-1])
			if strings.Contains(d, "Keeper.TotalPoolTokens)") && strings.Contains(d, "DecCoins.QuoDecTruncate)") && strings.Contains(d, "DecCoins.MulDec)") {
				c.OK("C21c/DistributeBlockReward/amount=balance*factor/blocks", c.P.InstrPos(fees[0].Instr), "fraction of the distribution pool's own balance")
			} else {
				c.Fail("C21c/DistributeBlockReward/amount=balance*factor/blocks", c.P.InstrPos(fees[0].Instr), trunc(d, 240))
			}
			c.RequireGuards("C21c", fees, "addCollectedFees", Cmp("blocks!=0", "Keeper.BlocksToNextTimerExpiry)", "!=", "const(0)"))
		} else {
			c.Fail("C21c/DistributeBlockReward/one-payment", c.P.Pos(dbr.Pos()), "expected exactly one addCollectedFees call")
		}
		if acf := c.Fn(rk + "Keeper.addCollectedFees"); acf != nil {
			for _, s := range c.CallsByName(acf, false, "invoke:x/rewards/types.BankKeeper.SendCoinsFromModuleToModule") {
				a := argDescs(ir.CallOf(s.Instr))
				n := len(a)
				if strings.Contains(a[n-3], c.Const("x/rewards/types", "ValidatorsRewardsDistributionPoolName")) && a[n-1] == "param#1" {
					c.OK("C21c/addCollectedFees/from-validators-distribution-pool", c.P.InstrPos(s.Instr), "sender is the validators' distribution pool")
				} else {
					c.Fail("C21c/addCollectedFees/from-validators-distribution-pool", c.P.InstrPos(s.Instr), strings.Join(a[n-3:], ","))
				}
			}
		}

		c.Rule("C21d bonus bound: in DistributeMonthlyBonusRewards every payment (RewardProvidersAndDelegators from the providers' distribution pool) is dominated by the false outcome of totalRewarded > total, where total is that pool's balance read at the start")
		pays := c.CallsByName(bonus, false, "invoke:x/rewards/types.DualStakingKeeper.RewardProvidersAndDelegators")
		if len(pays) != 1 {
			c.Fail("C21d/DistributeMonthlyBonusRewards/one-payment-site", c.P.Pos(bonus.Pos()), "expected exactly one payment site")
		}
		c.RequireGuards("C21d", pays, "RewardProvidersAndDelegators", GuardSpec{Name: "totalRewarded<=total", Match: func(g ir.Guard) bool {
			v, edge := stripNot(g.If.Cond, g.Edge)
			call, _ := callOfValue(v)
			if call == nil || ir.CalleeName(&call.Call) != "cosmossdk.io/math.Int.GT" || edge {
				return false
			}
			return strings.Contains(ir.Desc(call.Call.Args[1]), "Coins.AmountOf)(call("+rk+"Keeper.TotalPoolTokens)")
		}})
		for _, s := range pays {
			a := argDescs(ir.CallOf(s.Instr))
			if strings.Contains(strings.Join(a, ","), c.Const("x/rewards/types", "ProviderRewardsDistributionPool")) {
				c.OK("C21d/DistributeMonthlyBonusRewards/paid-from-providers-distribution-pool", c.P.InstrPos(s.Instr), "sender pool")
			} else {
				c.Fail("C21d/DistributeMonthlyBonusRewards/paid-from-providers-distribution-pool", c.P.InstrPos(s.Instr), "bonus rewards are paid from another pool")
			}
		}

		c.Rule("C21e leftover choice: ContributeToValidatorsAndCommunityPool sends the validators' share to the leftover pool only on the true outcome of isEndOfMonth, to the distribution pool otherwise")
		vs := c.CallsByName(contrib, false, "invoke:x/rewards/types.BankKeeper.SendCoinsFromModuleToModule")
		okChoice := false
		for _, s := range vs {
			a := ir.CallOf(s.Instr).Args
			pool := a[len(a)-2]
			d := valueDescDeep(pool)
			lo := c.Const("x/rewards/types", "ValidatorsRewardsLeftOverPoolName")
			vd := c.Const("x/rewards/types", "ValidatorsRewardsDistributionPoolName")
			if strings.Contains(d, lo) && strings.Contains(d, vd) {
				// phi: the leftover edge comes from the isEndOfMonth true branch
				if phi := findPhi(pool); phi != nil {
					for i, e := range phi.Edges {
						if strings.Contains(ir.Desc(e), lo) {
							pred := phi.Block().Preds[i]
							for _, g := range append(ir.GuardsOfBlock(pred), lastIfGuard(pred, phi.Block())...) {
								if CallIs(true, rk+"Keeper.isEndOfMonth").Match(g) {
									okChoice = true
								}
							}
						}
					}
				}
			}
		}
		if okChoice {
			c.OK("C21e/ContributeToValidatorsAndCommunityPool/leftover-only-at-end-of-month", c.P.Pos(contrib.Pos()), "leftover pool selected on isEndOfMonth==true only")
		} else {
			c.Fail("C21e/ContributeToValidatorsAndCommunityPool/leftover-only-at-end-of-month", c.P.Pos(contrib.Pos()), "the validators' share is not routed by isEndOfMonth")
		}
		c.RequireCallers("C21e", rk+"Keeper.isEndOfMonth", rk+"Keeper.ContributeToValidatorsAndCommunityPool")
		c.Rule("C21f between timers: isEndOfMonth answers true when no refill timer exists (the monthly callback runs after the expired timer was deleted and before the next one is armed; contributions made there belong to the month that just ended)")
		if iem := c.Fn(rk + "Keeper.isEndOfMonth"); iem != nil {
			okTrue := false
			for _, r := range c.AllReturns(iem) {
				ret := r.Instr.(*ssa.Return)
				if ir.Desc(ret.Results[0]) == "const(true)" {
					for _, f := range ir.GuardFacts(ret) {
						if strings.HasPrefix(f, "(call(builtin:len)(") && strings.Contains(f, "GetFrontTimers)(") && strings.HasSuffix(f, " == const(0))") {
							okTrue = true
						}
					}
				}
			}
			if okTrue {
				c.OK("C21f/isEndOfMonth/no-timer=>end-of-month", c.P.Pos(iem.Pos()), "return true under len(expiries) == 0")
			} else {
				c.Fail("C21f/isEndOfMonth/no-timer=>end-of-month", c.P.Pos(iem.Pos()), "with no refill timer isEndOfMonth no longer answers true: the validators' share taken during the monthly payout is routed to the wrong pool")
			}
		}
		c.NotCovered("amounts, the 24h constant's value, the accuracy of the blocks-to-expiry estimate")
	})
}

// valueDescDeep: descriptor with a larger depth budget.
func valueDescDeep(v ssa.Value) string { return ir.DescN(v, 10) }

func findPhi(v ssa.Value) *ssa.Phi {
	for i := 0; i < 6; i++ {
		switch x := v.(type) {
		case *ssa.Phi:
			return x
		case *ssa.Convert:
			v = x.X
		case *ssa.ChangeType:
			v = x.X
		case *ssa.MakeInterface:
			v = x.X
		default:
			return nil
		}
	}
	return nil
}

// lastIfGuard: if pred ends in an If and to is one of its successors, the guard of that edge.
func lastIfGuard(pred, to *ssa.BasicBlock) []ir.Guard {
	if len(pred.Instrs) == 0 {
		return nil
	}
	iff, ok := pred.Instrs[len(pred.Instrs)-1].(*ssa.If)
	if !ok || len(pred.Succs) != 2 || pred.Succs[0] == pred.Succs[1] {
		return nil
	}
	edge := pred.Succs[0] == to
	return []ir.Guard{{If: iff, Block: pred, Edge: edge, Fact: ir.Fact(iff.Cond, edge)}}
}
