package rules

import (
	"fmt"
	"go/token"
	"go/types"
	"strings"

	"golang.org/x/tools/go/ssa"

	"lavaverif/checker/ir"
)

// ---------------------------------------------------------------------------
// E7 — purity: a function must not write through memory reachable from its receiver or
// parameters. Stores into its own copy of a value receiver/parameter are local; a store
// whose address is reached from a parameter by crossing a pointer (loading a pointer
// field, dereferencing a pointer parameter) or a slice element is visible to the caller.
// ---------------------------------------------------------------------------

type escapingStore struct {
	At   *ssa.Store
	Path string
}

// paramRooted walks an address back to its root; crossed reports whether a pointer or
// slice indirection lies between the root and the address.
func paramRooted(addr ssa.Value) (root ssa.Value, crossed bool) {
	v := addr
	for i := 0; i < 32; i++ {
		switch x := v.(type) {
		case *ssa.FieldAddr:
			v = x.X
		case *ssa.IndexAddr:
			if _, isSlice := x.X.Type().Underlying().(*types.Slice); isSlice {
				crossed = true
			}
			v = x.X
		case *ssa.UnOp:
			if x.Op == token.MUL {
				crossed = true // loaded a pointer (or slice header) and then wrote through it
				v = x.X
				continue
			}
			return v, crossed
		case *ssa.Slice:
			v = x.X
		case *ssa.Field:
			v = x.X // a field of a struct value (e.g. of a value receiver)
		case *ssa.Alloc:
			// a local assigned once (e.g. because a closure captures it): look through to what it holds
			if refs := x.Referrers(); refs != nil && crossed {
				var sv ssa.Value
				n := 0
				for _, r := range *refs {
					if st, ok := r.(*ssa.Store); ok && st.Addr == ssa.Value(x) {
						sv = st.Val
						n++
					}
				}
				if n == 1 {
					if _, isParam := sv.(*ssa.Parameter); !isParam {
						v = sv
						continue
					}
				}
			}
			return v, crossed
		case *ssa.Call:
			// a generated getter (m.GetX() returns m.X): the result shares memory with the receiver
			callee := x.Call.StaticCallee()
			if callee != nil && strings.HasPrefix(callee.Name(), "Get") && len(x.Call.Args) == 1 && callee.Signature.Recv() != nil {
				switch x.Type().Underlying().(type) {
				case *types.Slice, *types.Pointer, *types.Map:
					crossed = true
					v = x.Call.Args[0]
					continue
				}
			}
			return v, crossed
		case *ssa.ChangeType:
			v = x.X
		case *ssa.Convert:
			v = x.X
		case *ssa.Phi:
			// any edge rooted in a parameter counts
			for _, e := range x.Edges {
				r, c := paramRooted(e)
				if _, ok := r.(*ssa.Parameter); ok {
					return r, crossed || c
				}
				if a, ok := r.(*ssa.Alloc); ok && spilledParam(a) != nil {
					return r, crossed || c
				}
			}
			return v, crossed
		default:
			return v, crossed
		}
	}
	return v, crossed
}

func spilledParam(a *ssa.Alloc) *ssa.Parameter {
	if sv := ir.SingleStore(a); sv != nil {
		if p, ok := sv.(*ssa.Parameter); ok {
			return p
		}
	}
	// multiple stores: spilled receiver later modified field-wise is still the parameter copy
	refs := a.Referrers()
	if refs == nil {
		return nil
	}
	var p *ssa.Parameter
	for _, r := range *refs {
		if st, ok := r.(*ssa.Store); ok && st.Addr == a {
			if q, ok := st.Val.(*ssa.Parameter); ok {
				p = q
			} else {
				return nil
			}
		}
	}
	return p
}

// EscapingStores lists the stores of fn (not its closures) that write through memory
// reachable from a receiver/parameter.
func EscapingStores(fn *ssa.Function) []escapingStore {
	var out []escapingStore
	ir.EachInstr(fn, func(in ssa.Instruction) {
		st, ok := in.(*ssa.Store)
		if !ok {
			return
		}
		root, crossed := paramRooted(st.Addr)
		switch r := root.(type) {
		case *ssa.Parameter:
			// pointer parameter: any store through it escapes; value parameter cannot be addressed directly
			if _, isPtr := r.Type().Underlying().(*types.Pointer); isPtr || crossed {
				out = append(out, escapingStore{st, ir.Desc(st.Addr)})
			}
		case *ssa.Alloc:
			if spilledParam(r) != nil && crossed {
				out = append(out, escapingStore{st, ir.Desc(st.Addr)})
			}
		}
	})
	return out
}

// inPlaceMutators: callees that write into the slice they are given.
func inPlaceMutator(n string) bool {
	return strings.HasPrefix(n, "sort.") && n != "sort.SearchInts" && n != "sort.Search" && !strings.HasPrefix(n, "sort.Search") && !strings.HasSuffix(n, "AreSorted") && !strings.HasSuffix(n, "IsSorted") ||
		strings.HasPrefix(n, "slices.Sort") || strings.HasPrefix(n, "golang.org/x/exp/slices.Sort") || strings.HasPrefix(n, "slices.Reverse") ||
		n == "builtin:copy" || n == "utils/lavaslices.SortStable"
}

// EscapingMutatorCalls: calls that hand a slice reachable from a receiver/parameter to an
// in-place mutator (sorting, copy into it).
func EscapingMutatorCalls(fn *ssa.Function) []ssa.Instruction {
	var out []ssa.Instruction
	ir.EachInstr(fn, func(in ssa.Instruction) {
		call := ir.CallOf(in)
		if call == nil || !inPlaceMutator(ir.CalleeName(call)) || len(call.Args) == 0 {
			return
		}
		a := call.Args[0]
		if mi, ok := a.(*ssa.MakeInterface); ok {
			a = mi.X
		}
		if _, isSlice := a.Type().Underlying().(*types.Slice); !isSlice {
			return
		}
		root, _ := paramRooted(a)
		switch r := root.(type) {
		case *ssa.Parameter:
			out = append(out, in)
		case *ssa.Alloc:
			if spilledParam(r) != nil {
				out = append(out, in)
			}
		}
	})
	return out
}

// rootParam returns the parameter of the enclosing function whose caller-visible memory
// v points into (nil if v is local to the function).
func rootParam(v ssa.Value) *ssa.Parameter {
	root, crossed := paramRooted(v)
	switch r := root.(type) {
	case *ssa.Parameter:
		switch r.Type().Underlying().(type) {
		case *types.Pointer, *types.Slice, *types.Map:
			return r
		}
		if crossed {
			return r
		}
	case *ssa.Alloc:
		if p := spilledParam(r); p != nil && crossed {
			return p
		}
	}
	return nil
}

func sharesMemory(t types.Type) bool {
	switch t.Underlying().(type) {
	case *types.Pointer, *types.Slice, *types.Map:
		return true
	}
	return false
}

type mutWitness struct {
	At   ssa.Instruction
	What string
}

// mutatedParams: for a function with a body, the parameters (by index in fn.Params,
// receiver first) through which the function — or a statically resolved callee it hands
// them to, to a bounded depth — may write memory its caller can see.
func mutatedParams(fn *ssa.Function, memo map[*ssa.Function]map[int]mutWitness, depth int) map[int]mutWitness {
	if m, ok := memo[fn]; ok {
		return m
	}
	out := map[int]mutWitness{}
	memo[fn] = out // cycles: the partial answer
	if fn.Blocks == nil || depth <= 0 {
		return out
	}
	idx := func(p *ssa.Parameter) int {
		for i, q := range fn.Params {
			if q == p {
				return i
			}
		}
		return -1
	}
	note := func(p *ssa.Parameter, at ssa.Instruction, what string) {
		if i := idx(p); i >= 0 {
			if _, seen := out[i]; !seen {
				out[i] = mutWitness{at, what}
			}
		}
	}
	for _, e := range EscapingStores(fn) {
		if p := rootParam(e.At.Addr); p != nil {
			note(p, e.At, "store to "+trunc(e.Path, 80))
		}
	}
	ir.EachInstr(fn, func(in ssa.Instruction) {
		call := ir.CallOf(in)
		if call == nil {
			return
		}
		if inPlaceMutator(ir.CalleeName(call)) && len(call.Args) > 0 {
			a := call.Args[0]
			if mi, ok := a.(*ssa.MakeInterface); ok {
				a = mi.X
			}
			if p := rootParam(a); p != nil {
				note(p, in, "in-place "+ir.CalleeName(call))
			}
			return
		}
		callee := call.StaticCallee()
		if callee == nil || callee.Blocks == nil {
			return
		}
		sub := mutatedParams(callee, memo, depth-1)
		for i, a := range call.Args {
			w, mut := sub[i]
			if !mut || !sharesMemory(a.Type()) {
				continue
			}
			if p := rootParam(a); p != nil {
				note(p, in, "passed to "+ir.StaticName(callee)+", which does "+w.What)
			}
		}
	})
	return out
}

// RequirePure: the named functions contain no escaping store, directly or through a
// statically resolved callee that is handed caller-visible memory.
func (c *Ctx) RequirePure(rule string, names ...string) {
	memo := map[*ssa.Function]map[int]mutWitness{}
	for _, n := range names {
		if fn := c.Fn(n); fn != nil {
			ir.EachInstr(fn, func(in ssa.Instruction) {
				call := ir.CallOf(in)
				if call == nil {
					return
				}
				callee := call.StaticCallee()
				if callee == nil || callee.Blocks == nil {
					return
				}
				sub := mutatedParams(callee, memo, 6)
				for i, a := range call.Args {
					if w, mut := sub[i]; mut && sharesMemory(a.Type()) && rootParam(a) != nil {
						c.Fail(rule+"/"+n+"/callee-writes="+shortNames([]string{ir.StaticName(callee)}), c.P.InstrPos(in), "the function hands memory shared with its caller ("+trunc(ir.Desc(a), 90)+") to "+ir.StaticName(callee)+", which does "+w.What)
					}
				}
			})
		}
	}
	c.requirePureLocal(rule, names...)
}

func (c *Ctx) requirePureLocal(rule string, names ...string) {
	for _, n := range names {
		fn := c.Fn(n)
		if fn == nil {
			continue
		}
		es := EscapingStores(fn)
		muts := EscapingMutatorCalls(fn)
		for _, m := range muts {
			c.Fail(rule+"/"+n+"/mutates-in-place="+shortNames([]string{ir.CalleeName(ir.CallOf(m))}), c.P.InstrPos(m), "the function reorders/overwrites in place a slice that belongs to the object it is given ("+ir.CalleeName(ir.CallOf(m))+"): checking/signing modifies its input")
		}
		if len(es) == 0 && len(muts) > 0 {
			continue
		}
		if len(es) == 0 {
			c.OK(rule+"/"+n+"/pure", c.P.Pos(fn.Pos()), "no store through memory reachable from the receiver or a parameter")
			continue
		}
		for _, e := range es {
			c.Fail(rule+"/"+n+"/writes="+trunc(e.Path, 90), c.P.InstrPos(e.At), "the function writes "+ir.Desc(e.At.Val)+" through memory shared with its caller ("+trunc(e.Path, 120)+"): checking/signing modifies the object it is given")
		}
	}
}

// ---------------------------------------------------------------------------
// E8 — encoding injectivity of a bytes.Join(parts, nil) / chained-append byte string that
// is hashed or signed. A part is fixed-width when it is produced by an 8-byte integer
// encoder; otherwise variable-width. Concatenation without separators or length prefixes
// is uniquely decodable only if at most one part is variable-width.
// ---------------------------------------------------------------------------

type concatPart struct {
	Desc  string
	Fixed bool
}

// joinParts recovers the parts of the (single) bytes.Join(<slice literal>, nil) in fn.
func joinParts(fn *ssa.Function) ([]concatPart, ssa.Instruction) {
	var join *ssa.Call
	ir.EachInstr(fn, func(in ssa.Instruction) {
		if call, ok := in.(*ssa.Call); ok && ir.CalleeName(&call.Call) == "bytes.Join" {
			join = call
		}
	})
	if join == nil {
		return nil, nil
	}
	if !isNilConst(join.Call.Args[1]) {
		return nil, join // a separator is used: not this template
	}
	sl, ok := join.Call.Args[0].(*ssa.Slice)
	if !ok {
		return nil, join
	}
	arr, ok := sl.X.(*ssa.Alloc)
	if !ok || arr.Referrers() == nil {
		return nil, join
	}
	parts := map[int]concatPart{}
	max := -1
	for _, r := range *arr.Referrers() {
		ia, ok := r.(*ssa.IndexAddr)
		if !ok || ia.Referrers() == nil {
			continue
		}
		k, ok := ia.Index.(*ssa.Const)
		if !ok {
			continue
		}
		idx := int(k.Int64())
		for _, rr := range *ia.Referrers() {
			if st, ok := rr.(*ssa.Store); ok && st.Addr == ia {
				d := ir.DescN(st.Val, 4)
				fixed := strings.HasPrefix(d, "call(utils/sigs.EncodeUint64)(")
				parts[idx] = concatPart{d, fixed}
				if idx > max {
					max = idx
				}
			}
		}
	}
	var out []concatPart
	for i := 0; i <= max; i++ {
		out = append(out, parts[i])
	}
	return out, join
}

// RequireInjectiveConcat checks E8 on fn and reports the variable-width parts.
func (c *Ctx) RequireInjectiveConcat(rule, name string, minParts int) {
	fn := c.Fn(name)
	if fn == nil {
		return
	}
	parts, join := joinParts(fn)
	if join == nil || len(parts) < minParts {
		c.Undecided("%s: %s no longer builds its bytes with bytes.Join of at least %d parts (found %d): encoding rule has no instance", rule, name, minParts, len(parts))
		return
	}
	var vars []string
	for _, p := range parts {
		if !p.Fixed {
			vars = append(vars, trunc(p.Desc, 60))
		}
	}
	key := rule + "/" + name + "/uniquely-decodable"
	if len(vars) <= 1 {
		c.OK(key, c.P.InstrPos(join), fmt.Sprintf("%d parts, %d variable-width", len(parts), len(vars)))
		return
	}
	c.Fail(key, c.P.InstrPos(join), fmt.Sprintf("%d variable-width parts are concatenated without separators or length prefixes (%s): different field values give the same bytes, hence the same hash/signature", len(vars), strings.Join(vars, " ‖ ")))
}
