package rules

import (
	"fmt"
	"go/constant"
	"go/token"
	"go/types"
	"sort"
	"strings"

	"golang.org/x/tools/go/ssa"

	"lavaverif/checker/ir"
)

// ---------------------------------------------------------------------------
// call-site discovery
// ---------------------------------------------------------------------------

// boxedTypes: named types (pointer stripped) that occur as the operand of a MakeInterface
// anywhere in the loaded program; filled by initBoxed.
var boxedTypes map[string]bool

func initBoxed(p *ir.Program) {
	boxedTypes = map[string]bool{}
	for _, f := range p.AllFuncs {
		ir.EachInstr(f, func(in ssa.Instruction) {
			if mi, ok := in.(*ssa.MakeInterface); ok {
				boxedTypes[ir.TypeName(mi.X.Type())] = true
			}
		})
	}
}

type Site struct {
	Fn    *ssa.Function   // enclosing function
	Instr ssa.Instruction // call / store / reference
	Kind  string          // "call" | "invoke" | "ref" | "store" | "defer" | "go"
}

func (c *Ctx) siteFn(s Site) string { return ir.FuncName(s.Fn) }

// calleeMatches reports whether a call may resolve to target: a static call to it, or
// an interface invoke of the same method name on an interface the target's receiver
// implements.
func calleeMatches(call *ssa.CallCommon, target *ssa.Function) (bool, string) {
	if call.IsInvoke() {
		if target.Signature.Recv() == nil || call.Method.Name() != target.Name() {
			return false, ""
		}
		// RTA refinement: an interface call can only dispatch to a method of T if a value
		// of type T (or *T) is converted to an interface somewhere in the program.
		if boxedTypes != nil && !boxedTypes[ir.TypeName(target.Signature.Recv().Type())] {
			return false, ""
		}
		iface, ok := call.Value.Type().Underlying().(*types.Interface)
		if !ok {
			return false, ""
		}
		rt := target.Signature.Recv().Type()
		if types.Implements(rt, iface) || types.Implements(types.NewPointer(rt), iface) {
			return true, "invoke"
		}
		if pt, ok := rt.(*types.Pointer); ok && types.Implements(pt.Elem(), iface) {
			return true, "invoke"
		}
		return false, ""
	}
	if f := call.StaticCallee(); f != nil {
		if f == target || (f.Origin() != nil && f.Origin() == target) {
			return true, "call"
		}
		// bound-method / thunk wrappers
		if f.Synthetic != "" && f.Object() != nil && target.Object() != nil && f.Object() == target.Object() {
			return true, "call"
		}
	}
	return false, ""
}

// CallsIn lists the call-like instructions in fn (closures included when deep) that may
// resolve to target.
func (c *Ctx) CallsIn(fn *ssa.Function, target *ssa.Function, deep bool) []Site {
	var out []Site
	fns := []*ssa.Function{fn}
	if deep {
		fns = ir.WithClosures(fn)
	}
	for _, f := range fns {
		ir.EachInstr(f, func(in ssa.Instruction) {
			call := ir.CallOf(in)
			if call == nil {
				return
			}
			if ok, kind := calleeMatches(call, target); ok {
				switch in.(type) {
				case *ssa.Defer:
					kind = "defer"
				case *ssa.Go:
					kind = "go"
				}
				out = append(out, Site{Fn: f, Instr: in, Kind: kind})
			}
		})
	}
	return out
}

// CallsByName lists call-like instructions in fn whose resolved callee key equals name
// (static "pkg.Recv.Method", or "invoke:<iface>.<method>").
func (c *Ctx) CallsByName(fn *ssa.Function, deep bool, names ...string) []Site {
	var out []Site
	fns := []*ssa.Function{fn}
	if deep {
		fns = ir.WithClosures(fn)
	}
	want := map[string]bool{}
	for _, n := range names {
		want[n] = true
	}
	for _, f := range fns {
		ir.EachInstr(f, func(in ssa.Instruction) {
			call := ir.CallOf(in)
			if call == nil {
				return
			}
			if want[ir.CalleeName(call)] {
				kind := "call"
				switch in.(type) {
				case *ssa.Defer:
					kind = "defer"
				case *ssa.Go:
					kind = "go"
				}
				out = append(out, Site{Fn: f, Instr: in, Kind: kind})
			}
		})
	}
	return out
}

// References lists every use of target anywhere in the program: call sites that may
// resolve to it and places where it is taken as a value (method values, callbacks).
func (c *Ctx) References(target *ssa.Function) []Site {
	var out []Site
	for _, f := range c.P.AllFuncs {
		ir.EachInstr(f, func(in ssa.Instruction) {
			if call := ir.CallOf(in); call != nil {
				if ok, kind := calleeMatches(call, target); ok {
					out = append(out, Site{Fn: f, Instr: in, Kind: kind})
					return
				}
			}
			for _, op := range in.Operands(nil) {
				if op == nil || *op == nil {
					continue
				}
				if g, ok := (*op).(*ssa.Function); ok {
					if g == target || (g.Synthetic != "" && g.Object() != nil && target.Object() != nil && g.Object() == target.Object()) {
						// skip the callee position of a static call (handled above)
						if call := ir.CallOf(in); call != nil && call.Value == g {
							continue
						}
						out = append(out, Site{Fn: f, Instr: in, Kind: "ref"})
					}
				}
			}
		})
	}
	return out
}

// RequireCallers: every reference to target lies in a function whose key (closures
// reduced to their top-level parent) is in allowed. Test-only helpers are never loaded.
func (c *Ctx) RequireCallers(rule, target string, allowed ...string) {
	tf := c.Fn(target)
	if tf == nil {
		return
	}
	allow := map[string]bool{}
	for _, a := range allowed {
		allow[a] = true
	}
	refs := c.References(tf)
	seenAllowed := map[string]bool{}
	for _, r := range refs {
		top := r.Fn
		for top.Parent() != nil {
			top = top.Parent()
		}
		name := ir.FuncName(top)
		key := fmt.Sprintf("%s/%s/caller=%s", rule, target, name)
		if !inProd(top) {
			c.Note(key, c.P.InstrPos(r.Instr), "test utility (testutil/), not part of the production program")
			continue
		}
		if allow[name] {
			seenAllowed[name] = true
			c.OK(key, c.P.InstrPos(r.Instr), "allowed "+r.Kind)
		} else {
			c.Fail(key, c.P.InstrPos(r.Instr), fmt.Sprintf("%s is used (%s) from %s, which is not in the allowed set %v", target, r.Kind, name, allowed))
		}
	}
	if len(refs) == 0 {
		c.OKTrivial(fmt.Sprintf("%s/%s/no-callers", rule, target), c.P.Pos(tf.Pos()), "no reference in non-test code")
	}
}

// ---------------------------------------------------------------------------
// guard specs (E2)
// ---------------------------------------------------------------------------

type GuardSpec struct {
	Name  string
	Match func(g ir.Guard) bool
}

func stripNot(v ssa.Value, edge bool) (ssa.Value, bool) {
	for {
		if u, ok := v.(*ssa.UnOp); ok && u.Op == token.NOT {
			v = u.X
			edge = !edge
			continue
		}
		return v, edge
	}
}

// callOfValue unwraps tuple extraction / interface conversion and returns the call that
// produced v (nil if none) and the tuple index (-1 if not extracted).
func callOfValue(v ssa.Value) (*ssa.Call, int) {
	idx := -1
	for {
		switch x := v.(type) {
		case *ssa.Extract:
			idx = x.Index
			v = x.Tuple
			continue
		case *ssa.MakeInterface:
			v = x.X
			continue
		case *ssa.ChangeInterface:
			v = x.X
			continue
		case *ssa.ChangeType:
			v = x.X
			continue
		case *ssa.Call:
			return x, idx
		}
		return nil, -1
	}
}

func nameIn(name string, names []string) bool {
	for _, n := range names {
		if n == name {
			return true
		}
	}
	return false
}

// valueFromCall: v is (an extracted result of) a call to one of callees; phis are
// accepted when every incoming edge is.
func valueFromCall(v ssa.Value, callees []string, seen map[ssa.Value]bool) bool {
	if call, _ := callOfValue(v); call != nil {
		return nameIn(ir.CalleeName(&call.Call), callees)
	}
	if ld, ok := v.(*ssa.UnOp); ok && ld.Op == token.MUL {
		if _, isAlloc := ld.X.(*ssa.Alloc); isAlloc {
			if seen[v] {
				return false
			}
			seen[v] = true
			if sv := storeBefore(ld); sv != nil {
				return valueFromCall(sv, callees, seen)
			}
		}
		return false
	}
	if phi, ok := v.(*ssa.Phi); ok {
		if seen[v] {
			return true
		}
		seen[v] = true
		if len(phi.Edges) == 0 {
			return false
		}
		for _, e := range phi.Edges {
			if !valueFromCall(e, callees, seen) {
				return false
			}
		}
		return true
	}
	return false
}

// CallIs: the branch condition is the boolean result of a call to one of callees and the
// path took the `want` outcome.
func CallIs(want bool, callees ...string) GuardSpec {
	return GuardSpec{
		Name: fmt.Sprintf("%s=%v", shortNames(callees), want),
		Match: func(g ir.Guard) bool {
			v, edge := stripNot(g.If.Cond, g.Edge)
			if edge != want {
				return false
			}
			return valueFromCall(v, callees, map[ssa.Value]bool{})
		},
	}
}

func isNilConst(v ssa.Value) bool {
	c, ok := v.(*ssa.Const)
	return ok && c.Value == nil
}

// ErrNil: the path took the `err == nil` outcome of a nil-comparison of the error (or
// pointer) returned by a call to one of callees.
func ErrNil(callees ...string) GuardSpec { return nilSpec(true, callees) }

// ErrNonNil: the `!= nil` outcome.
func ErrNonNil(callees ...string) GuardSpec { return nilSpec(false, callees) }

func nilSpec(wantNil bool, callees []string) GuardSpec {
	n := "err==nil:"
	if !wantNil {
		n = "err!=nil:"
	}
	return GuardSpec{
		Name: n + shortNames(callees),
		Match: func(g ir.Guard) bool {
			v, edge := stripNot(g.If.Cond, g.Edge)
			b, ok := v.(*ssa.BinOp)
			if !ok || (b.Op != token.EQL && b.Op != token.NEQ) {
				return false
			}
			var other ssa.Value
			switch {
			case isNilConst(b.Y):
				other = b.X
			case isNilConst(b.X):
				other = b.Y
			default:
				return false
			}
			isNil := (b.Op == token.EQL) == edge
			if isNil != wantNil {
				return false
			}
			return valueFromCall(other, callees, map[ssa.Value]bool{})
		},
	}
}

// FactHas: the canonical fact string of the guard contains all substrings (see ir.Fact
// for the normal form: negations pushed into operators, > rewritten to <).
func FactHas(name string, subs ...string) GuardSpec {
	return GuardSpec{Name: name, Match: func(g ir.Guard) bool {
		for _, s := range subs {
			if !strings.Contains(g.Fact, s) {
				return false
			}
		}
		return true
	}}
}

// FactRe-like helper: fact has prefix and all substrings.
func FactPrefix(name, prefix string, subs ...string) GuardSpec {
	return GuardSpec{Name: name, Match: func(g ir.Guard) bool {
		if !strings.HasPrefix(g.Fact, prefix) {
			return false
		}
		for _, s := range subs {
			if !strings.Contains(g.Fact, s) {
				return false
			}
		}
		return true
	}}
}

// Cmp: a comparison fact "(X op Y)" in normal form whose X contains xsub and Y contains
// ysub. op ∈ {"==","!=","<","<="}; callers give the normal form.
func Cmp(name, xsub, op, ysub string) GuardSpec {
	return GuardSpec{Name: name, Match: func(g ir.Guard) bool {
		x, o, y, ok := splitCmp(g.Fact)
		if !ok || o != op {
			return false
		}
		if strings.Contains(x, xsub) && strings.Contains(y, ysub) {
			return true
		}
		if (op == "==" || op == "!=") && strings.Contains(y, xsub) && strings.Contains(x, ysub) {
			return true
		}
		return false
	}}
}

// splitCmp splits a canonical "(X op Y)" at its top-level operator.
func splitCmp(f string) (x, op, y string, ok bool) {
	if len(f) < 2 || f[0] != '(' || f[len(f)-1] != ')' {
		return
	}
	s := f[1 : len(f)-1]
	depth := 0
	for i := 0; i < len(s); i++ {
		switch s[i] {
		case '(', '[', '{', '<':
			if s[i] == '<' && i+1 < len(s) && (s[i+1] == ' ' || s[i+1] == '=' || s[i+1] == '-') {
				break // operator / recv arrow, not a bracket
			}
			depth++
		case ')', ']', '}':
			depth--
		case '>':
			if i > 0 && s[i-1] != ' ' && s[i-1] != '-' {
				depth--
			}
		}
		if depth == 0 && s[i] == ' ' {
			for _, o := range []string{"==", "!=", "<=", "<"} {
				if strings.HasPrefix(s[i+1:], o+" ") {
					return s[:i], o, s[i+2+len(o):], true
				}
			}
		}
	}
	return
}

func shortNames(ns []string) string {
	var out []string
	for _, n := range ns {
		if i := strings.LastIndex(n, "."); i >= 0 {
			out = append(out, n[i+1:])
		} else {
			out = append(out, n)
		}
	}
	return strings.Join(out, "|")
}

// RequireGuards: every sink instruction is dominated by each required branch decision.
func (c *Ctx) RequireGuards(rule string, sinks []Site, sinkName string, specs ...GuardSpec) {
	for _, s := range sinks {
		gs := ir.Guards(s.Instr)
		for _, sp := range specs {
			key := fmt.Sprintf("%s/%s/sink=%s/g=%s", rule, ir.FuncName(s.Fn), sinkName, sp.Name)
			found := false
			for _, g := range gs {
				if sp.Match(g) {
					found = true
					c.OK(key, c.P.InstrPos(s.Instr), "dominated by "+trunc(g.Fact, 160)+" @"+c.P.InstrPos(g.If))
					break
				}
			}
			if !found {
				c.Fail(key, c.P.InstrPos(s.Instr), fmt.Sprintf("%s in %s is reachable without passing guard %s (dominating decisions: %d)", sinkName, ir.FuncName(s.Fn), sp.Name, len(gs)))
			}
		}
	}
}

func trunc(s string, n int) string {
	if len(s) <= n {
		return s
	}
	return s[:n] + "…"
}

// ---------------------------------------------------------------------------
// must-pass-through (E4)
// ---------------------------------------------------------------------------

var errorType = types.Universe.Lookup("error").Type()

var errCtorNames = map[string]bool{
	"fmt.Errorf": true, "errors.New": true,
	"cosmossdk.io/errors.Error.Wrap":           true,
	"cosmossdk.io/errors.Error.Wrapf":          true,
	"cosmossdk.io/errors.Register":             true,
	"cosmossdk.io/errors.RegisterWithGRPCCode": true,
	"google.golang.org/grpc/status.Error":      true,
	"google.golang.org/grpc/status.Errorf":     true,
}

var nonNilMemo = map[*ssa.Function]int{} // 0 unknown, 1 in progress, 2 yes, 3 no

// alwaysNonNilErr: every return of fn carries a certainly non-nil error in its last
// result (computed from the body; e.g. utils.LavaFormatLog and its wrappers).
func alwaysNonNilErr(fn *ssa.Function) bool {
	if fn == nil || fn.Blocks == nil {
		return false
	}
	switch nonNilMemo[fn] {
	case 1, 3:
		return false
	case 2:
		return true
	}
	res := fn.Signature.Results()
	if res.Len() == 0 || !types.Identical(res.At(res.Len()-1).Type(), errorType) {
		nonNilMemo[fn] = 3
		return false
	}
	nonNilMemo[fn] = 1
	ok := true
	n := 0
	ir.EachInstr(fn, func(in ssa.Instruction) {
		if r, isRet := in.(*ssa.Return); isRet {
			n++
			if !nonNilError(r.Results[len(r.Results)-1], r.Block(), map[ssa.Value]bool{}) {
				ok = false
			}
		}
	})
	if ok && n > 0 {
		nonNilMemo[fn] = 2
		return true
	}
	nonNilMemo[fn] = 3
	return false
}

// storeBefore: the value most recently stored to the loaded address earlier in the
// load's own block (nil if the block does not store to it before the load).
func storeBefore(ld *ssa.UnOp) ssa.Value {
	var v ssa.Value
	for _, in := range ld.Block().Instrs {
		if in == ld {
			break
		}
		if st, ok := in.(*ssa.Store); ok && st.Addr == ld.X {
			v = st.Val
		}
	}
	return v
}

// lastStoreInBlock returns the value most recently stored to addr in block b (nil if none).
func lastStoreInBlock(addr ssa.Value, b *ssa.BasicBlock) ssa.Value {
	var v ssa.Value
	for _, in := range b.Instrs {
		if st, ok := in.(*ssa.Store); ok && st.Addr == addr {
			v = st.Val
		}
	}
	return v
}

// nonNilError: v is certainly a non-nil error at the point it is returned from block b.
func nonNilError(v ssa.Value, b *ssa.BasicBlock, seen map[ssa.Value]bool) bool {
	switch x := v.(type) {
	case *ssa.Const:
		return false
	case *ssa.MakeInterface:
		// a concrete non-pointer value boxed into error is non-nil; pointers may be nil
		if _, isPtr := x.X.Type().Underlying().(*types.Pointer); !isPtr {
			return true
		}
		return nonNilError(x.X, b, seen)
	case *ssa.ChangeInterface:
		return nonNilError(x.X, b, seen)
	case *ssa.UnOp:
		if x.Op == token.MUL {
			if g, ok := x.X.(*ssa.Global); ok {
				// package-level error values: Err* by convention, or registered sdk errors
				if strings.HasPrefix(g.Name(), "Err") || ir.TypeName(x.Type()) == "cosmossdk.io/errors.Error" {
					return true
				}
			}
			// named result / captured variable: the value is what this block stored last
			if a, ok := x.X.(*ssa.Alloc); ok {
				if seen[v] {
					return false
				}
				seen[v] = true
				if sv := storeBefore(x); sv != nil {
					return nonNilError(sv, x.Block(), seen)
				}
				b = x.Block()
				// no store in this block: a dominating `*a != nil` decision, provided the
				// blocks in between do not store to a
				for _, g := range ir.GuardsOfBlock(b) {
					cv, edge := stripNot(g.If.Cond, g.Edge)
					bo, ok := cv.(*ssa.BinOp)
					if !ok || (bo.Op != token.NEQ && bo.Op != token.EQL) {
						continue
					}
					var other ssa.Value
					if isNilConst(bo.Y) {
						other = bo.X
					} else if isNilConst(bo.X) {
						other = bo.Y
					}
					ld, ok := other.(*ssa.UnOp)
					if !ok || ld.Op != token.MUL || ld.X != a || (bo.Op == token.NEQ) != edge {
						continue
					}
					// value tested is the last one stored before the test within the
					// guard's block, and nothing on the way stores again
					clean := true
					succ := g.Block.Succs[0]
					if !g.Edge {
						succ = g.Block.Succs[1]
					}
					for blk := range ir.Reachable(succ, func(x *ssa.BasicBlock) bool { return !succ.Dominates(x) }) {
						if blk != b && blk.Dominates(b) && lastStoreInBlock(a, blk) != nil {
							clean = false
						}
					}
					if clean {
						return true
					}
				}
				return false
			}
		}
	case *ssa.Phi:
		if seen[v] {
			return true
		}
		seen[v] = true
		for i, e := range x.Edges {
			if !nonNilError(e, x.Block().Preds[i], seen) {
				return false
			}
		}
		return len(x.Edges) > 0
	}
	if call, _ := callOfValue(v); call != nil {
		if errCtorNames[ir.CalleeName(&call.Call)] {
			return true
		}
		if sc := call.Call.StaticCallee(); sc != nil && alwaysNonNilErr(sc) {
			return true
		}
	}
	// dominated by (v != nil)
	for _, g := range ir.GuardsOfBlock(b) {
		cv, edge := stripNot(g.If.Cond, g.Edge)
		if bo, ok := cv.(*ssa.BinOp); ok && (bo.Op == token.NEQ || bo.Op == token.EQL) {
			var other ssa.Value
			if isNilConst(bo.Y) {
				other = bo.X
			} else if isNilConst(bo.X) {
				other = bo.Y
			}
			if other == v && ((bo.Op == token.NEQ) == edge) {
				return true
			}
		}
	}
	return false
}

// IsFailureReturn: the return certainly carries a non-nil error in its last result.
func IsFailureReturn(ret *ssa.Return) bool {
	if len(ret.Results) == 0 {
		return false
	}
	last := ret.Results[len(ret.Results)-1]
	if !types.Identical(last.Type(), errorType) {
		return false
	}
	return nonNilError(last, ret.Block(), map[ssa.Value]bool{})
}

type PathResult struct {
	OK      bool
	Witness string // block path to the offending return
	Returns int    // success returns examined
}

// MustPass: starting right after `from` (or at function entry when nil), every path to
// a return accepted by isExit passes an instruction for which through() is true. Deferred
// calls count when the Defer instruction is passed.
func (c *Ctx) MustPass(fn *ssa.Function, from ssa.Instruction, through func(ssa.Instruction) bool, isExit func(*ssa.Return) bool) PathResult {
	return c.MustPassOpt(fn, from, through, isExit, nil)
}

// MustPassOpt is MustPass with a predicate naming branch outcomes that are assumed
// infeasible (e.g. the `session == nil` outcome after a successful initRelay); such
// edges are not followed. Every use records the assumption in the evidence.
func (c *Ctx) MustPassOpt(fn *ssa.Function, from ssa.Instruction, through func(ssa.Instruction) bool, isExit func(*ssa.Return) bool, infeasible func(iff *ssa.If, edge bool) bool) PathResult {
	type item struct {
		b    *ssa.BasicBlock
		from int
	}
	res := PathResult{OK: true}
	start := item{fn.Blocks[0], 0}
	if from != nil {
		b := from.Block()
		for i, in := range b.Instrs {
			if in == from {
				start = item{b, i + 1}
			}
		}
	}
	parent := map[*ssa.BasicBlock]*ssa.BasicBlock{}
	seen := map[*ssa.BasicBlock]bool{}
	work := []item{start}
	first := true
	for len(work) > 0 {
		it := work[len(work)-1]
		work = work[:len(work)-1]
		if !first && seen[it.b] {
			continue
		}
		if !first {
			seen[it.b] = true
		}
		first = false
		passed := false
		for i := it.from; i < len(it.b.Instrs); i++ {
			in := it.b.Instrs[i]
			if through(in) {
				passed = true
				break
			}
			if ret, ok := in.(*ssa.Return); ok && it.b != fn.Recover {
				if isExit == nil || isExit(ret) {
					res.Returns++
					if res.OK {
						res.OK = false
						var path []string
						for b := it.b; b != nil; b = parent[b] {
							path = append([]string{fmt.Sprintf("b%d", b.Index)}, path...)
							if b == start.b {
								break
							}
						}
						res.Witness = strings.Join(path, "→") + " return@" + c.P.InstrPos(ret)
					}
				}
			}
		}
		if passed {
			continue
		}
		for si, s := range it.b.Succs {
			if infeasible != nil && len(it.b.Succs) == 2 {
				if iff, ok := it.b.Instrs[len(it.b.Instrs)-1].(*ssa.If); ok && infeasible(iff, si == 0) {
					continue
				}
			}
			if !seen[s] {
				if _, ok := parent[s]; !ok {
					parent[s] = it.b
				}
				work = append(work, item{s, 0})
			}
		}
	}
	return res
}

// SuccessExit accepts returns that are not certainly failures.
func SuccessExit(r *ssa.Return) bool { return !IsFailureReturn(r) }

// IsCallTo builds a `through` predicate: the instruction is a call/defer that may
// resolve to one of the named callees.
func IsCallTo(names ...string) func(ssa.Instruction) bool {
	return func(in ssa.Instruction) bool {
		call := ir.CallOf(in)
		if call == nil {
			return false
		}
		if _, isGo := in.(*ssa.Go); isGo {
			return false
		}
		return nameIn(ir.CalleeName(call), names)
	}
}

// ---------------------------------------------------------------------------
// field writers (E3 who-may-write)
// ---------------------------------------------------------------------------

// FieldStores lists every store instruction in the program whose address is the named
// struct field ("pkg.Type.Field").
func (c *Ctx) FieldStores(fieldKey string) []Site {
	var out []Site
	for _, f := range c.P.AllFuncs {
		ir.EachInstr(f, func(in ssa.Instruction) {
			st, ok := in.(*ssa.Store)
			if !ok {
				return
			}
			if fa, ok := st.Addr.(*ssa.FieldAddr); ok && ir.FieldKey(fa) == fieldKey {
				out = append(out, Site{Fn: f, Instr: in, Kind: "store"})
			}
		})
	}
	return out
}

// FieldAddrUses lists every instruction that takes the address of the field (stores,
// atomic calls, &x.f escapes).
func (c *Ctx) FieldAddrUses(fieldKey string) []*ssa.FieldAddr {
	var out []*ssa.FieldAddr
	for _, f := range c.P.AllFuncs {
		ir.EachInstr(f, func(in ssa.Instruction) {
			if fa, ok := in.(*ssa.FieldAddr); ok && ir.FieldKey(fa) == fieldKey {
				out = append(out, fa)
			}
		})
	}
	return out
}

func topName(fn *ssa.Function) string {
	for fn.Parent() != nil {
		fn = fn.Parent()
	}
	return ir.FuncName(fn)
}

func sortedKeys(m map[string]bool) []string {
	var out []string
	for k := range m {
		out = append(out, k)
	}
	sort.Strings(out)
	return out
}

// SuccessReturns lists the return instructions of fn that are not certainly failures.
func (c *Ctx) SuccessReturns(fn *ssa.Function) []Site {
	var out []Site
	ir.EachInstr(fn, func(in ssa.Instruction) {
		if r, ok := in.(*ssa.Return); ok && r.Block() != fn.Recover && !IsFailureReturn(r) {
			out = append(out, Site{Fn: fn, Instr: in, Kind: "return"})
		}
	})
	return out
}

// AllReturns lists all return instructions.
func (c *Ctx) AllReturns(fn *ssa.Function) []Site {
	var out []Site
	ir.EachInstr(fn, func(in ssa.Instruction) {
		if _, ok := in.(*ssa.Return); ok {
			out = append(out, Site{Fn: fn, Instr: in, Kind: "return"})
		}
	})
	return out
}

// IfsMatching lists the If instructions of fn whose condition, on some edge, matches spec;
// the returned bool is the edge on which it matches.
type IfEdge struct {
	If   *ssa.If
	Edge bool
}

func (c *Ctx) IfsMatching(fn *ssa.Function, spec GuardSpec) []IfEdge {
	var out []IfEdge
	for _, b := range fn.Blocks {
		if len(b.Instrs) == 0 {
			continue
		}
		iff, ok := b.Instrs[len(b.Instrs)-1].(*ssa.If)
		if !ok {
			continue
		}
		for _, e := range []bool{true, false} {
			g := ir.Guard{If: iff, Block: b, Edge: e, Fact: ir.Fact(iff.Cond, e)}
			if spec.Match(g) {
				out = append(out, IfEdge{iff, e})
			}
		}
	}
	return out
}

// EdgeCannotReach: starting on the given edge of an If, no path reaches a block holding
// one of the sink instructions before leaving the current loop iteration (re-entering a
// block that dominates the If) or returning. Reports the offending sink, if any.
func (c *Ctx) EdgeCannotReach(ie IfEdge, sinks []Site) (bool, string) {
	b := ie.If.Block()
	succ := b.Succs[0]
	if !ie.Edge {
		succ = b.Succs[1]
	}
	sinkBlocks := map[*ssa.BasicBlock]Site{}
	for _, s := range sinks {
		sinkBlocks[s.Instr.Block()] = s
	}
	stop := func(x *ssa.BasicBlock) bool { return x != b && x.Dominates(b) }
	if stop(succ) {
		return true, ""
	}
	reach := ir.Reachable(succ, stop)
	for blk := range reach {
		if s, ok := sinkBlocks[blk]; ok {
			return false, c.P.InstrPos(s.Instr)
		}
	}
	return true, ""
}

// Const returns the canonical descriptor ("const(V)") of a package-level constant.
func (c *Ctx) Const(pkg, name string) string {
	p := c.P.Package(pkg)
	if p == nil {
		c.Undecided("package %s not loaded", pkg)
		return "const(?)"
	}
	obj, ok := p.Types.Scope().Lookup(name).(*types.Const)
	if !ok {
		c.Undecided("constant %s.%s not found", pkg, name)
		return "const(?)"
	}
	if obj.Val().Kind() == constant.String {
		return "const(" + obj.Val().ExactString() + ")"
	}
	return "const(" + obj.Val().String() + ")"
}

// ParamsReachingResult: which parameters (receiver excluded, 0-based) flow, through any
// chain of SSA operands, into a returned value of fn.
func ParamsReachingResult(fn *ssa.Function) map[int]bool {
	seen := map[ssa.Value]bool{}
	var walk func(v ssa.Value)
	walk = func(v ssa.Value) {
		if v == nil || seen[v] {
			return
		}
		seen[v] = true
		if in, ok := v.(ssa.Instruction); ok {
			for _, op := range in.Operands(nil) {
				if op != nil && *op != nil {
					walk(*op)
				}
			}
		}
		// values stored into a local that is later read
		if a, ok := v.(*ssa.Alloc); ok {
			if refs := a.Referrers(); refs != nil {
				for _, r := range *refs {
					if st, ok := r.(*ssa.Store); ok && st.Addr == a {
						walk(st.Val)
					}
				}
			}
		}
		// stores through derived addresses (x.f = v, x[i] = v) feed the aggregate
		if refs := v.Referrers(); refs != nil {
			for _, r := range *refs {
				switch x := r.(type) {
				case *ssa.FieldAddr:
					walkStores(x, walk)
				case *ssa.IndexAddr:
					walkStores(x, walk)
				}
			}
		}
	}
	ir.EachInstr(fn, func(in ssa.Instruction) {
		if r, ok := in.(*ssa.Return); ok {
			for _, v := range r.Results {
				walk(v)
			}
		}
	})
	out := map[int]bool{}
	for i, p := range fn.Params {
		if seen[p] {
			idx := i
			if fn.Signature.Recv() != nil {
				idx = i - 1
			}
			out[idx] = true
		}
	}
	return out
}

// paramsReachingValue: the parameters (receiver excluded) that root flows from, through
// operands only (no phi merging across alternatives: callers pass one phi leaf at a time).
func paramsReachingValue(fn *ssa.Function, root ssa.Value) map[int]bool {
	seen := map[ssa.Value]bool{}
	var walk func(v ssa.Value)
	walk = func(v ssa.Value) {
		if v == nil || seen[v] {
			return
		}
		seen[v] = true
		if in, ok := v.(ssa.Instruction); ok {
			for _, op := range in.Operands(nil) {
				if op != nil && *op != nil {
					walk(*op)
				}
			}
		}
		if a, ok := v.(*ssa.Alloc); ok {
			if refs := a.Referrers(); refs != nil {
				for _, r := range *refs {
					if st, ok := r.(*ssa.Store); ok && st.Addr == a {
						walk(st.Val)
					}
				}
			}
		}
	}
	walk(root)
	out := map[int]bool{}
	for i, p := range fn.Params {
		if seen[p] {
			idx := i
			if fn.Signature.Recv() != nil {
				idx = i - 1
			}
			out[idx] = true
		}
	}
	return out
}

// RequireAllParamsInEveryResult: stricter than RequireAllParamsUsed — every alternative
// value the key constructor can return (each leaf of the returned phi) is built from all
// of its parameters, so no branch drops one of them from the key.
func (c *Ctx) RequireAllParamsInEveryResult(rule, name string) {
	fn := c.Fn(name)
	if fn == nil {
		return
	}
	n := fn.Signature.Params().Len()
	missing := map[int]string{}
	leaves := 0
	for _, r := range c.AllReturns(fn) {
		for _, leaf := range phiLeaves(RetVal(r.Instr.(*ssa.Return), 0)) {
			leaves++
			used := paramsReachingValue(fn, leaf)
			for i := 0; i < n; i++ {
				if !used[i] {
					missing[i] = trunc(ir.Desc(leaf), 100)
				}
			}
		}
	}
	if leaves == 0 {
		c.Undecided("%s: %s has no returned value to examine", rule, name)
		return
	}
	for i := 0; i < n; i++ {
		key := fmt.Sprintf("%s/%s/param-in-every-result/%s", rule, name, fn.Signature.Params().At(i).Name())
		if why, bad := missing[i]; bad {
			c.Fail(key, c.P.Pos(fn.Pos()), fmt.Sprintf("parameter %s of %s is left out of the key on some path (the value %s does not depend on it): entries that differ only in it share a key", fn.Signature.Params().At(i).Name(), name, why))
		} else {
			c.OK(key, c.P.Pos(fn.Pos()), "part of every returned key")
		}
	}
}

// loopLeavesOnlyAtHeader: the innermost loop around in is left only from its header
// (range exhausted / loop condition false) — no break, return or goto from inside.
// found is false when in is not in a loop.
func loopLeavesOnlyAtHeader(fn *ssa.Function, in ssa.Instruction) (found, ok bool, at ssa.Instruction) {
	lp := innermostLoop(fn, in.Block())
	if lp == nil {
		return false, false, nil
	}
	for _, b := range fn.Blocks { // deterministic order
		if !lp.Blocks[b] || b == lp.Header {
			continue
		}
		for _, s := range b.Succs {
			if !lp.Blocks[s] {
				return true, false, b.Instrs[len(b.Instrs)-1]
			}
		}
	}
	return true, true, nil
}

func walkStores(addr ssa.Value, walk func(ssa.Value)) {
	if refs := addr.Referrers(); refs != nil {
		for _, r := range *refs {
			if st, ok := r.(*ssa.Store); ok && st.Addr == addr {
				walk(st.Val)
			}
		}
	}
}

// RequireAllParamsUsed: every parameter of the key/encoding constructor fn flows into its
// result (a parameter that is ignored makes distinct inputs collide).
func (c *Ctx) RequireAllParamsUsed(rule, name string) {
	fn := c.Fn(name)
	if fn == nil {
		return
	}
	used := ParamsReachingResult(fn)
	n := fn.Signature.Params().Len()
	for i := 0; i < n; i++ {
		key := fmt.Sprintf("%s/%s/param-in-result/%s", rule, name, fn.Signature.Params().At(i).Name())
		if used[i] {
			c.OK(key, c.P.Pos(fn.Pos()), "flows into the result")
		} else {
			c.Fail(key, c.P.Pos(fn.Pos()), fmt.Sprintf("parameter #%d (%s) of %s does not flow into its result: values differing only in it collide", i, fn.Signature.Params().At(i).Name(), name))
		}
	}
}

func itoa(n int) string { return fmt.Sprint(n) }

// fieldNameOf: if v is a load of a struct field (or a Field extraction), its name.
func fieldNameOf(v ssa.Value) string {
	switch x := v.(type) {
	case *ssa.UnOp:
		if x.Op == token.MUL {
			if fa, ok := x.X.(*ssa.FieldAddr); ok {
				if f := ir.FieldOf(fa); f != nil {
					return f.Name()
				}
			}
		}
	case *ssa.Field:
		if f := ir.FieldOf(x); f != nil {
			return f.Name()
		}
	}
	return ""
}

// BackwardFields: the struct fields ("pkg.Type.Field") and callee keys that v depends on
// through SSA operands (data dependence only).
func BackwardDeps(v ssa.Value) (fields map[string]bool, calls map[string]bool) {
	fields, calls = map[string]bool{}, map[string]bool{}
	seen := map[ssa.Value]bool{}
	var walk func(v ssa.Value)
	walk = func(v ssa.Value) {
		if v == nil || seen[v] {
			return
		}
		seen[v] = true
		switch x := v.(type) {
		case *ssa.FieldAddr:
			fields[ir.FieldKey(x)] = true
		case *ssa.Field:
			fields[ir.FieldKey(x)] = true
		case *ssa.Call:
			calls[ir.CalleeName(&x.Call)] = true
		case *ssa.Alloc:
			if refs := x.Referrers(); refs != nil {
				for _, r := range *refs {
					if st, ok := r.(*ssa.Store); ok && st.Addr == x {
						walk(st.Val)
					}
				}
			}
		}
		if in, ok := v.(ssa.Instruction); ok {
			for _, op := range in.Operands(nil) {
				if op != nil && *op != nil {
					walk(*op)
				}
			}
		}
	}
	walk(v)
	return
}

// RequireArgNamesAgree: at a call whose arguments are struct-field loads, no argument's
// field name equals (case-insensitively) the name of a *different* parameter of the
// callee — the signature of two swapped arguments.
func (c *Ctx) RequireArgNamesAgree(rule string, s Site) {
	call := ir.CallOf(s.Instr)
	callee := call.StaticCallee()
	if callee == nil {
		return
	}
	sig := callee.Signature
	off := len(call.Args) - sig.Params().Len()
	names := map[string]int{}
	for i := 0; i < sig.Params().Len(); i++ {
		names[strings.ToLower(sig.Params().At(i).Name())] = i
	}
	checked := 0
	for i := 0; i < sig.Params().Len(); i++ {
		fn := strings.ToLower(fieldNameOf(call.Args[off+i]))
		if fn == "" {
			continue
		}
		if j, ok := names[fn]; ok {
			checked++
			key := fmt.Sprintf("%s/%s/arg-name-agreement/%s→%s", rule, topName(s.Fn), fn, ir.StaticName(callee))
			if j == i {
				c.OK(key, c.P.InstrPos(s.Instr), fmt.Sprintf("field %s passed as parameter %s", fn, sig.Params().At(i).Name()))
			} else {
				c.Fail(key, c.P.InstrPos(s.Instr), fmt.Sprintf("field %s is passed in the position of parameter %q while the callee has a parameter named %q at position %d: swapped arguments", fn, sig.Params().At(i).Name(), sig.Params().At(j).Name(), j))
			}
		}
	}
	if checked == 0 {
		c.Undecided("%s: no field-named arguments at %s", rule, c.P.InstrPos(s.Instr))
	}
}

// RequireResultNamesAgree: in fn, every store of an extracted result of a call to
// `callee` into a struct field goes to the field that carries the same name
// (case-insensitive) as the callee's named result.
func (c *Ctx) RequireResultNamesAgree(rule string, fn *ssa.Function, callee string, min int) {
	n := 0
	for _, f := range ir.WithClosures(fn) {
		ir.EachInstr(f, func(in ssa.Instruction) {
			st, ok := in.(*ssa.Store)
			if !ok {
				return
			}
			fa, ok := st.Addr.(*ssa.FieldAddr)
			if !ok {
				return
			}
			ex, ok := st.Val.(*ssa.Extract)
			if !ok {
				return
			}
			call, ok := ex.Tuple.(*ssa.Call)
			if !ok || ir.CalleeName(&call.Call) != callee {
				return
			}
			sc := call.Call.StaticCallee()
			if sc == nil {
				return
			}
			rn := sc.Signature.Results().At(ex.Index).Name()
			fld := ir.FieldOf(fa)
			if rn == "" || fld == nil {
				return
			}
			n++
			key := fmt.Sprintf("%s/%s/result-name-agreement/%s", rule, ir.FuncName(fn), fld.Name())
			if strings.EqualFold(rn, fld.Name()) {
				c.OK(key, c.P.InstrPos(in), "result "+rn+" → field "+fld.Name())
			} else {
				c.Fail(key, c.P.InstrPos(in), fmt.Sprintf("result %q of %s is stored into field %q: decoded components are swapped", rn, callee, fld.Name()))
			}
		})
	}
	if n < min {
		c.Undecided("%s: expected >=%d field stores from %s in %s, found %d", rule, min, callee, ir.FuncName(fn), n)
	}
}

// NilEdgeOfType: the `== nil` outcome of a comparison of a value of the named pointer
// type with nil (used as an infeasible-edge assumption).
func NilEdgeOfType(typeName string) func(iff *ssa.If, edge bool) bool {
	return func(iff *ssa.If, edge bool) bool {
		v, e := stripNot(iff.Cond, edge)
		b, ok := v.(*ssa.BinOp)
		if !ok || (b.Op != token.EQL && b.Op != token.NEQ) {
			return false
		}
		var other ssa.Value
		switch {
		case isNilConst(b.Y):
			other = b.X
		case isNilConst(b.X):
			other = b.Y
		default:
			return false
		}
		if ir.TypeName(other.Type()) != typeName {
			return false
		}
		isNil := (b.Op == token.EQL) == e
		return isNil
	}
}

// RetVal resolves the i-th returned value: with deferred calls the named results are
// spilled to locals and the Return carries loads; the value is what the return's own block
// stored last.
func RetVal(ret *ssa.Return, i int) ssa.Value {
	v := ret.Results[i]
	if ld, ok := v.(*ssa.UnOp); ok && ld.Op == token.MUL {
		if _, isAlloc := ld.X.(*ssa.Alloc); isAlloc {
			if sv := storeBefore(ld); sv != nil {
				return sv
			}
		}
	}
	return v
}

// DeepDeps is BackwardDeps made interprocedural: results of calls to lava functions with
// bodies are followed into the callee's returned values, and parameters are followed to
// the corresponding arguments at every call site of the enclosing function (both to the
// given depth). Used for provenance rules ("this stored value derives from that getter").
func (c *Ctx) DeepDeps(v ssa.Value, depth int) (fields map[string]bool, calls map[string]bool) {
	fields, calls = map[string]bool{}, map[string]bool{}
	seen := map[ssa.Value]bool{}
	var walk func(v ssa.Value, d int)
	walk = func(v ssa.Value, d int) {
		if v == nil || seen[v] {
			return
		}
		seen[v] = true
		switch x := v.(type) {
		case *ssa.FieldAddr:
			fields[ir.FieldKey(x)] = true
		case *ssa.Field:
			fields[ir.FieldKey(x)] = true
		case *ssa.Call:
			calls[ir.CalleeName(&x.Call)] = true
			if d > 0 {
				if sc := x.Call.StaticCallee(); sc != nil && sc.Blocks != nil {
					ir.EachInstr(sc, func(in ssa.Instruction) {
						if r, ok := in.(*ssa.Return); ok {
							for i := range r.Results {
								walk(RetVal(r, i), d-1)
							}
						}
					})
				}
			}
		case *ssa.Alloc:
			if refs := x.Referrers(); refs != nil {
				for _, r := range *refs {
					if st, ok := r.(*ssa.Store); ok && st.Addr == x {
						walk(st.Val, d)
					}
				}
			}
		case *ssa.Parameter:
			if d > 0 {
				fn := x.Parent()
				idx := -1
				for i, p := range fn.Params {
					if p == x {
						idx = i
					}
				}
				for _, ref := range c.References(fn) {
					call := ir.CallOf(ref.Instr)
					if call == nil {
						continue
					}
					args := call.Args
					ai := idx
					if call.IsInvoke() {
						ai = idx - 1 // receiver is call.Value
					}
					if ai >= 0 && ai < len(args) {
						walk(args[ai], d-1)
					}
				}
			}
		}
		if in, ok := v.(ssa.Instruction); ok {
			for _, op := range in.Operands(nil) {
				if op != nil && *op != nil {
					walk(*op, d)
				}
			}
		}
	}
	walk(v, depth)
	return
}
