package rules

import (
	"strings"

	"golang.org/x/tools/go/ssa"

	"lavaverif/checker/ir"
)

const (
	fk  = "x/pairing/keeper/filters."
	sck = "x/pairing/keeper/scores."
)

func init() {
	register("C02", "other", func(c *Ctx) {
		c.Explain = "Pairing lists are valid, distinct and bounded — structural part: there is one pairing computation (getPairingForClient) behind GetPairing, VerifyPairing, relay-payment validation and the pairing-chance query, always fed the project's strictest policy; a provider enters the score list only when every non-mix filter passed; the frozen and selected-provider filters are in the filter set and are not mix filters; a picked provider is removed from further selection on every path and the pick loop skips removed providers; the slot array has MaxProvidersToPair entries and each slot yields at most one pick."
		gp := c.Fn(pk + "Keeper.getPairingForClient")
		setup := c.Fn(fk + "SetupScores")
		pick := c.Fn(sck + "PickProviders")
		if gp == nil || setup == nil || pick == nil {
			return
		}
		c.Rule("C02a single source: getPairingForClient is called only by GetPairingForClient, ValidatePairingForClient and CalculatePairingChance; SetupScores, PickProviders, CalcSlots only by getPairingForClient; the GetPairing query uses GetPairingForClient, the VerifyPairing query and RelayPayment use ValidatePairingForClient; the policy passed down is the result of GetProjectStrictestPolicy")
		c.RequireCallers("C02a", pk+"Keeper.getPairingForClient", pk+"Keeper.GetPairingForClient", pk+"Keeper.ValidatePairingForClient", pk+"Keeper.CalculatePairingChance")
		c.RequireCallers("C02a", fk+"SetupScores", pk+"Keeper.getPairingForClient")
		c.RequireCallers("C02a", sck+"PickProviders", pk+"Keeper.getPairingForClient")
		c.RequireCallers("C02a", sck+"CalcSlots", pk+"Keeper.getPairingForClient")
		c.RequireCallers("C02a", pk+"Keeper.ValidatePairingForClient", pk+"Keeper.VerifyPairing", pk+"msgServer.RelayPayment")
		c.RequireCallers("C02a", pk+"Keeper.GetPairingForClient", pk+"Keeper.getPairing", pk+"Keeper.GetPairing")
		for _, caller := range []string{pk + "Keeper.GetPairingForClient", pk + "Keeper.ValidatePairingForClient"} {
			f := c.Fn(caller)
			if f == nil {
				continue
			}
			for _, s := range c.CallsIn(f, gp, true) {
				a := ir.CallOf(s.Instr).Args
				n := len(a)
				_, calls := BackwardDeps(a[n-4])
				if calls[pk+"Keeper.GetProjectStrictestPolicy"] {
					c.OK("C02a/"+caller+"/policy=strictest", c.P.InstrPos(s.Instr), "policy from GetProjectStrictestPolicy")
				} else {
					c.Fail("C02a/"+caller+"/policy=strictest", c.P.InstrPos(s.Instr), "pairing computed with a policy that is not the project's strictest policy: "+trunc(ir.Desc(a[n-4]), 160))
				}
			}
		}
		// both use the epoch start + the stake entries of that epoch snapshot
		for _, s := range c.CallsByName(gp, false, "invoke:x/pairing/types.EpochstorageKeeper.GetAllStakeEntriesForEpochChainId") {
			a := argDescs(ir.CallOf(s.Instr))
			n := len(a)
			if strings.Contains(a[n-2], "Keeper.VerifyPairingData)") && a[n-1] == "param#1" {
				c.OK("C02a/getPairingForClient/providers=epoch-snapshot(chain)", c.P.InstrPos(s.Instr), "GetAllStakeEntriesForEpochChainId(epoch from VerifyPairingData, chainID)")
			} else {
				c.Fail("C02a/getPairingForClient/providers=epoch-snapshot(chain)", c.P.InstrPos(s.Instr), "candidate providers are not the epoch snapshot of this chain: "+a[n-2]+","+a[n-1])
			}
		}

		// the filters are evaluated at the same epoch the candidate snapshot was taken at
		var snapEpoch string
		for _, s := range c.CallsByName(gp, false, "invoke:x/pairing/types.EpochstorageKeeper.GetAllStakeEntriesForEpochChainId") {
			a := argDescs(ir.CallOf(s.Instr))
			snapEpoch = a[len(a)-2]
		}
		for _, s := range c.CallsIn(gp, setup, false) {
			a := argDescs(ir.CallOf(s.Instr))
			if len(a) >= 8 && a[4] == snapEpoch && snapEpoch != "" {
				c.OK("C02a/getPairingForClient/filters-at-snapshot-epoch", c.P.InstrPos(s.Instr), "SetupScores(currentEpoch = the epoch of the stake-entry snapshot)")
			} else {
				c.Fail("C02a/getPairingForClient/filters-at-snapshot-epoch", c.P.InstrPos(s.Instr), "filters (stake-applied / frozen) are evaluated at "+a[4]+" while the candidates are the snapshot of "+snapEpoch+": get-pairing and verify-pairing can disagree")
			}
		}
		// per-requirement scratch state in the add-on filter is per requirement
		if irs := c.Fn(fk + "isRequirementSupported"); irs != nil {
			for _, mr := range mapRanges(irs) {
				for b := range mr.Body {
					for _, in := range b.Instrs {
						mu, ok := in.(*ssa.MapUpdate)
						if !ok {
							continue
						}
						mk, ok := mu.Map.(*ssa.MakeMap)
						key := "C02b/isRequirementSupported/scratch-map-allocated-per-requirement"
						if ok && mr.Body[mk.Block()] {
							c.OK(key, c.P.InstrPos(mk), "the supported-extensions set is created inside the requirements loop")
						} else {
							c.Fail(key, c.P.InstrPos(in), "extensions matched for one required collection are kept for the next one: the scratch set updated in the requirements loop is allocated outside it")
						}
					}
				}
			}
		}

		c.Rule("C02b mandatory filters: GetAllFilters contains the selected-providers, frozen-providers, geolocation and add-on filters; the first three report IsMix()==false; the frozen filter is always active; in SetupScores a provider is appended to the score list only when the accumulated result flag is true, and the flag is cleared whenever a non-mix filter's result for that provider is false")
		if gaf := c.Fn(fk + "GetAllFilters"); gaf != nil {
			found := map[string]bool{}
			ir.EachInstr(gaf, func(in ssa.Instruction) {
				if mi, ok := in.(*ssa.MakeInterface); ok {
					found[ir.TypeName(mi.X.Type())] = true
				}
			})
			for _, t := range []string{fk + "SelectedProvidersFilter", fk + "FrozenProvidersFilter", fk + "GeolocationFilter", fk + "AddonFilter"} {
				if found[strings.TrimSuffix(t, "")] {
					c.OK("C02b/GetAllFilters/has="+t[len(fk):], c.P.Pos(gaf.Pos()), "in the filter set")
				} else {
					c.Fail("C02b/GetAllFilters/has="+t[len(fk):], c.P.Pos(gaf.Pos()), "mandatory filter missing from the filter set")
				}
			}
		}
		// the selected-providers filter is a mix filter only in MIXED mode: its mix flag is set
		// to true only under SelectedProvidersMode == MIXED (exclusive lists stay mandatory)
		if f := c.Fn(fk + "SelectedProvidersFilter.InitFilter"); f != nil {
			mixed := c.Const("x/plans/types", "SELECTED_PROVIDERS_MODE_MIXED")
			n := 0
			ir.EachInstr(f, func(in ssa.Instruction) {
				st, ok := in.(*ssa.Store)
				if !ok {
					return
				}
				fa, ok := st.Addr.(*ssa.FieldAddr)
				if !ok || ir.FieldKey(fa) != fk+"SelectedProvidersFilter.mix" {
					return
				}
				n++
				c.RequireGuards("C02b", []Site{{Fn: f, Instr: in}}, "mix:=true", Cmp("mode==MIXED", ".SelectedProvidersMode", "==", mixed))
			})
			if n == 0 {
				c.Undecided("SelectedProvidersFilter.InitFilter never sets the mix flag")
			}
			if im := c.Fn(fk + "SelectedProvidersFilter.IsMix"); im != nil {
				ok := true
				for _, r := range c.AllReturns(im) {
					if ir.Desc(RetVal(r.Instr.(*ssa.Return), 0)) != "recv.mix" {
						ok = false
					}
				}
				if ok {
					c.OK("C02b/SelectedProvidersFilter.IsMix=mix-flag", c.P.Pos(im.Pos()), "returns the flag set by InitFilter")
				} else {
					c.Fail("C02b/SelectedProvidersFilter.IsMix=mix-flag", c.P.Pos(im.Pos()), "IsMix does not return the mode-derived flag")
				}
			}
		}
		for _, t := range []string{"FrozenProvidersFilter", "GeolocationFilter"} {
			if f := c.Fn(fk + t + ".IsMix"); f != nil {
				ok := true
				for _, r := range c.AllReturns(f) {
					if ir.Desc(RetVal(r.Instr.(*ssa.Return), 0)) != "const(false)" {
						ok = false
					}
				}
				if ok {
					c.OK("C02b/"+t+".IsMix=false", c.P.Pos(f.Pos()), "mandatory (a failing result excludes the provider)")
				} else {
					c.Fail("C02b/"+t+".IsMix=false", c.P.Pos(f.Pos()), "a mandatory filter reports itself as a mix filter: failing providers are only kept out of some slots")
				}
			}
		}
		if f := c.Fn(fk + "FrozenProvidersFilter.InitFilter"); f != nil {
			ok := true
			for _, r := range c.AllReturns(f) {
				if ir.Desc(RetVal(r.Instr.(*ssa.Return), 0)) != "const(true)" {
					ok = false
				}
			}
			if ok {
				c.OK("C02b/FrozenProvidersFilter.InitFilter=always-active", c.P.Pos(f.Pos()), "returns true")
			} else {
				c.Fail("C02b/FrozenProvidersFilter.InitFilter=always-active", c.P.Pos(f.Pos()), "the frozen/not-yet-applied-stake filter can be inactive")
			}
		}
		// SetupScores: append guarded by the result flag; flag cleared on non-mix failure
		var scoreAppends []Site
		ir.EachInstr(setup, func(in ssa.Instruction) {
			if call, ok := in.(*ssa.Call); ok && ir.CalleeName(&call.Call) == sck+"NewPairingScore" {
				scoreAppends = append(scoreAppends, Site{Fn: setup, Instr: in})
			}
		})
		if len(scoreAppends) != 1 {
			c.Fail("C02b/SetupScores/one-score-construction", c.P.Pos(setup.Pos()), "expected exactly one NewPairingScore site")
		} else {
			var flag *ssa.Phi
			for _, g := range ir.Guards(scoreAppends[0].Instr) {
				if p, ok := g.If.Cond.(*ssa.Phi); ok && g.Edge {
					flag = p
				}
			}
			if flag == nil {
				c.Fail("C02b/SetupScores/score-under-result-flag", c.P.InstrPos(scoreAppends[0].Instr), "a provider is scored without the all-filters-passed flag being tested")
			} else {
				c.OK("C02b/SetupScores/score-under-result-flag", c.P.InstrPos(scoreAppends[0].Instr), "dominated by result==true")
				// the false value enters the flag from a block dominated by: filter result false, and IsMix false
				okClear := false
				var walk func(p *ssa.Phi, depth int)
				seen := map[*ssa.Phi]bool{}
				walk = func(p *ssa.Phi, depth int) {
					if seen[p] || depth > 4 {
						return
					}
					seen[p] = true
					for i, e := range p.Edges {
						if k, ok := e.(*ssa.Const); ok && k.Value != nil && k.Value.String() == "false" {
							pred := p.Block().Preds[i]
							facts := append(ir.GuardFacts(pred.Instrs[len(pred.Instrs)-1]), "")
							hasRes, hasMix := false, false
							for _, f := range facts {
								if strings.HasPrefix(f, "!") && strings.Contains(f, "[i][i]") {
									hasRes = true
								}
								if strings.HasPrefix(f, "!invoke("+fk+"Filter.IsMix)") {
									hasMix = true
								}
							}
							if hasRes && hasMix {
								okClear = true
							}
						}
						if q, ok := e.(*ssa.Phi); ok {
							walk(q, depth+1)
						}
					}
				}
				walk(flag, 0)
				if okClear {
					c.OK("C02b/SetupScores/non-mix-failure-clears-flag", c.P.InstrPos(flag), "result=false under !filtersResult[i][j] && !IsMix()")
				} else {
					c.Fail("C02b/SetupScores/non-mix-failure-clears-flag", c.P.InstrPos(flag), "the result flag is not cleared when a mandatory (non-mix) filter rejects the provider")
				}
			}
		}
		// every filter in the set is applied to every provider: Filter() is invoked inside the loop over filters
		if n := len(c.CallsByName(setup, false, "invoke:"+fk+"Filter.Filter")); n == 1 {
			c.OK("C02b/SetupScores/applies-every-filter", c.P.Pos(setup.Pos()), "filter.Filter invoked in the loop over the initialised filters")
		} else {
			c.Fail("C02b/SetupScores/applies-every-filter", c.P.Pos(setup.Pos()), "expected one Filter invocation inside the filters loop, found "+itoa(n))
		}

		c.Rule("C02c distinct: in PickProviders every append to the result is followed on all paths by RemoveProviderFromSelection on the same score object, which sets SkipForSelection; the pick loop skips objects for which IsValidForSelection is false, and IsValidForSelection returns false for SkipForSelection")
		var resAppends []Site
		ir.EachInstr(pick, func(in ssa.Instruction) {
			if call, ok := in.(*ssa.Call); ok && ir.CalleeName(&call.Call) == "builtin:append" {
				if strings.HasSuffix(ir.TypeName(call.Type()), "x/epochstorage/types.StakeEntry") {
					resAppends = append(resAppends, Site{Fn: pick, Instr: in})
				}
			}
		})
		if len(resAppends) != 1 {
			c.Fail("C02c/PickProviders/one-pick-site", c.P.Pos(pick.Pos()), "expected exactly one append of a picked provider, found "+itoa(len(resAppends)))
		} else {
			app := resAppends[0].Instr
			r := c.MustPass(pick, app, IsCallTo(sck+"RemoveProviderFromSelection"), nil)
			// MustPass from the append to any return: the removal must come before the loop continues; check also same object
			rm := c.CallsByName(pick, false, sck+"RemoveProviderFromSelection")
			same := false
			// the appended element is stored into the variadic temp array in the append's block
			appended := ""
			for _, in := range app.Block().Instrs {
				if st, ok := in.(*ssa.Store); ok {
					if _, ok := st.Addr.(*ssa.IndexAddr); ok && strings.HasSuffix(ir.Desc(st.Val), ".Provider") {
						appended = ir.Desc(st.Val)
					}
				}
			}
			for _, s := range rm {
				obj := ir.Desc(ir.CallOf(s.Instr).Args[0])
				if appended == obj+".Provider" && s.Instr.Block() == app.Block() {
					same = true
				}
			}
			if r.OK && same {
				c.OK("C02c/PickProviders/picked=>removed", c.P.InstrPos(app), "same score object, same block")
			} else {
				c.Fail("C02c/PickProviders/picked=>removed", c.P.InstrPos(app), "a picked provider is not removed from the selection pool before the next pick: it can be picked twice")
			}
			c.RequireGuards("C02c", resAppends, "pick", CallIs(true, sck+"PairingScore.IsValidForSelection"))
			// at most one pick per slot: the append's block leaves the inner loop (its successor is not the inner loop header)
			// the smallest loop containing the pick is the per-slot loop (a block that always
			// breaks is not part of the candidates loop): within one iteration of it the pick
			// must not be reachable from itself
			slotLoop := innermostLoop(pick, app.Block())
			if slotLoop != nil {
				leaves := true
				for _, s := range app.Block().Succs {
					if s == slotLoop.Header {
						continue // next slot
					}
					if s == app.Block() || ir.Reachable(s, func(b *ssa.BasicBlock) bool { return b == slotLoop.Header })[app.Block()] {
						leaves = false
					}
				}
				if leaves {
					c.OK("C02c/PickProviders/one-pick-per-slot", c.P.InstrPos(app), "the pick leaves the candidates loop (break)")
				} else {
					c.Fail("C02c/PickProviders/one-pick-per-slot", c.P.InstrPos(app), "after a pick the candidates loop continues: a slot can yield several providers")
				}
			}
		}
		if rmf := c.Fn(sck + "RemoveProviderFromSelection"); rmf != nil {
			ok := false
			ir.EachInstr(rmf, func(in ssa.Instruction) {
				if st, isSt := in.(*ssa.Store); isSt {
					if fa, isFA := st.Addr.(*ssa.FieldAddr); isFA && ir.FieldKey(fa) == sck+"PairingScore.SkipForSelection" && ir.Desc(st.Val) == "const(true)" && ir.Desc(fa.X) == "param#0" {
						ok = true
					}
				}
			})
			if ok {
				c.OK("C02c/RemoveProviderFromSelection/sets-SkipForSelection", c.P.Pos(rmf.Pos()), "providerScore.SkipForSelection = true")
			} else {
				c.Fail("C02c/RemoveProviderFromSelection/sets-SkipForSelection", c.P.Pos(rmf.Pos()), "removal does not mark the provider as skipped")
			}
		}
		if iv := c.Fn(sck + "PairingScore.IsValidForSelection"); iv != nil {
			ifs := c.IfsMatching(iv, FactPrefix("skip", "recv.SkipForSelection"))
			ok := len(ifs) > 0
			for _, ie := range ifs {
				b := ie.If.Block()
				s := b.Succs[0]
				if !ie.Edge {
					s = b.Succs[1]
				}
				for blk := range ir.Reachable(s, nil) {
					for _, in := range blk.Instrs {
						if r, isRet := in.(*ssa.Return); isRet && s.Dominates(blk) && ir.Desc(r.Results[0]) != "const(false)" {
							ok = false
						}
					}
				}
			}
			if ok {
				c.OK("C02c/IsValidForSelection/skipped=>false", c.P.Pos(iv.Pos()), "SkipForSelection returns false")
			} else {
				c.Fail("C02c/IsValidForSelection/skipped=>false", c.P.Pos(iv.Pos()), "a provider marked as skipped is still valid for selection")
			}
		}

		c.Rule("C02d bounded: CalcSlots allocates MaxProvidersToPair slots; when there are not more eligible providers than slots all of them are returned; otherwise the result is built only from PickProviders")
		if cs := c.Fn(sck + "CalcSlots"); cs != nil {
			ok := false
			ir.EachInstr(cs, func(in ssa.Instruction) {
				if ms, isMs := in.(*ssa.MakeSlice); isMs && strings.Contains(ir.Desc(ms.Len), "param#0.MaxProvidersToPair") {
					ok = true
				}
			})
			if ok {
				c.OK("C02d/CalcSlots/len=MaxProvidersToPair", c.P.Pos(cs.Pos()), "make([]*PairingSlot, policy.MaxProvidersToPair)")
			} else {
				c.Fail("C02d/CalcSlots/len=MaxProvidersToPair", c.P.Pos(cs.Pos()), "slot count is not the policy's MaxProvidersToPair")
			}
		}
		picks := c.CallsIn(gp, pick, false)
		if len(picks) == 1 {
			c.RequireGuards("C02d", picks, "PickProviders", FactHas("more-eligible-than-slots", "call(builtin:len)(", "CalcSlots)", " < ", "SetupScores)"))
		} else {
			c.Fail("C02d/getPairingForClient/one-PickProviders", c.P.Pos(gp.Pos()), "expected exactly one PickProviders call")
		}
		c.NotCovered("exact count min(max, eligible); correctness of the weighted draw; the iff between pairing membership and verification at run time; mix-filter slot assignment")
	})
}

func innermostLoop(fn *ssa.Function, b *ssa.BasicBlock) *ir.Loop {
	var best *ir.Loop
	for _, l := range ir.NaturalLoops(fn) {
		if l.Blocks[b] && (best == nil || len(l.Blocks) < len(best.Blocks)) {
			best = l
		}
	}
	return best
}
