package rules

import (
	"strings"

	"golang.org/x/tools/go/ssa"

	"lavaverif/checker/ir"
)

const (
	rcK = "protocol/relaycore."
	rpK = "protocol/relaypolicy."
)

// structFieldStores: the values stored into the fields of a local struct (composite
// literal) keyed by field name.
func structFieldStores(a *ssa.Alloc) map[string]ssa.Value {
	out := map[string]ssa.Value{}
	if a == nil || a.Referrers() == nil {
		return out
	}
	for _, r := range *a.Referrers() {
		fa, ok := r.(*ssa.FieldAddr)
		if !ok || fa.Referrers() == nil {
			continue
		}
		for _, rr := range *fa.Referrers() {
			if st, ok := rr.(*ssa.Store); ok && st.Addr == fa {
				if f := ir.FieldOf(fa); f != nil {
					out[f.Name()] = st.Val
				}
			}
		}
	}
	return out
}

// allocOf: the local struct a value is loaded from.
func allocOf(v ssa.Value) *ssa.Alloc {
	if u, ok := v.(*ssa.UnOp); ok {
		if a, ok := u.X.(*ssa.Alloc); ok {
			return a
		}
	}
	if a, ok := v.(*ssa.Alloc); ok {
		return a
	}
	return nil
}

// chosenState: the select state under which the instruction executes (innermost).
func chosenState(in ssa.Instruction) (*ssa.Select, int) {
	for _, g := range ir.Guards(in) {
		if sel, k, onTrue, ok := selectChosen(g.If.Cond); ok && g.Edge == onTrue && int(k) < len(sel.States) {
			return sel, int(k)
		}
	}
	return nil, -1
}

func init() {
	register("C34", "other", func(c *Ctx) {
		c.Explain = "Consumer relay retries stop correctly and terminate — structural part: Policy.Decide answers Retry only past the false outcomes of cross-validation, stateful, non-retryable node error, permanent protocol error and attempt >= MaxRetries; OnSendRelayResult answers SendRetry only for a failed send whose consecutive-failure counter (incremented first) is within SendRelayAttempts; in the state-machine goroutine a new attempt is emitted only (a) on SendRetry of a failed send, (b) on a not-successful result with Decide==Retry, (c) on a tick with Decide==Retry, each after a state transition for (b),(c); a successful result leads only to the final instruction; after any final (Done) instruction the goroutine returns without emitting anything else, and it never returns from the loop without one."
		dec := c.Fn(rpK + "Policy.Decide")
		osr := c.Fn(rpK + "Policy.OnSendRelayResult")
		g1 := c.Fn(rcK + "UnifiedRelayStateMachine.GetRelayTaskChannel$1")
		cht := c.Fn(rcK + "UnifiedRelayStateMachine.checkAndHandleTimeout")
		bdi := c.Fn(rcK + "UnifiedRelayStateMachine.buildDecisionInput")
		if dec == nil || osr == nil || g1 == nil || cht == nil || bdi == nil {
			return
		}
		retry := c.Const("protocol/relaycore", "ActionRetry")
		sendRetry := c.Const("protocol/relaycore", "SendRetry")
		sendSuccess := c.Const("protocol/relaycore", "SendSuccess")
		cv := c.Const("protocol/relaycore", "CrossValidation")
		stateful := c.Const("protocol/relaycore", "Stateful")
		if retry == "" || sendRetry == "" || sendSuccess == "" || cv == "" || stateful == "" {
			c.Undecided("C34: relaycore action/selection constants not found")
			return
		}

		c.Rule("C34a Decide: every return whose Action is Retry is dominated by Selection != CrossValidation, Selection != Stateful, !HasNonRetryableNodeError, !HasPermanentProtocolError and AttemptNumber < MaxRetries")
		nRetry := 0
		for _, r := range c.AllReturns(dec) {
			ret := r.Instr.(*ssa.Return)
			a := allocOf(ret.Results[0])
			if a == nil {
				c.Undecided("C34a: Decide returns a value that is not a local composite literal at %s", c.P.InstrPos(ret))
				continue
			}
			act, has := structFieldStores(a)["Action"]
			actD := "const(0)"
			if has {
				actD = ir.Desc(act)
			}
			if actD != retry {
				continue
			}
			nRetry++
			c.RequireGuards("C34a", []Site{r}, "Action=Retry#"+itoa(nRetry),
				FactHas("not-cross-validation", "(param#0.Selection != "+cv+")"),
				FactHas("not-stateful", "(param#0.Selection != "+stateful+")"),
				FactHas("no-non-retryable-node-error", "!param#0.Summary.HasNonRetryableNodeError"),
				FactHas("no-permanent-protocol-error", "!param#0.Summary.HasPermanentProtocolError"),
				FactHas("below-max-retries", "(param#0.AttemptNumber < recv.config.MaxRetries)"))
		}
		if nRetry < 2 {
			c.Undecided("C34a: expected >=2 Retry returns in Policy.Decide, found %d", nRetry)
		}

		c.Rule("C34b OnSendRelayResult: SendSuccess only under err == nil; SendRetry only under err != nil ∧ consecutiveBatchErrors <= SendRelayAttempts, with the counter incremented before on that path; success resets the counter")
		isInc := func(in ssa.Instruction) bool {
			st, ok := in.(*ssa.Store)
			if !ok {
				return false
			}
			fa, ok := st.Addr.(*ssa.FieldAddr)
			return ok && ir.FieldKey(fa) == rpK+"Policy.consecutiveBatchErrors" && ir.Desc(st.Val) == "(const(1) + recv.consecutiveBatchErrors)"
		}
		isReset := func(in ssa.Instruction) bool {
			st, ok := in.(*ssa.Store)
			if !ok {
				return false
			}
			fa, ok := st.Addr.(*ssa.FieldAddr)
			return ok && ir.FieldKey(fa) == rpK+"Policy.consecutiveBatchErrors" && isZeroConst(st.Val)
		}
		nR, nS := 0, 0
		for _, r := range c.AllReturns(osr) {
			ret := r.Instr.(*ssa.Return)
			switch ir.Desc(ret.Results[0]) {
			case sendRetry:
				nR++
				c.RequireGuards("C34b", []Site{r}, "SendRetry", FactHas("send-failed", "(param#0 != nil)"), FactHas("within-send-attempts", "(recv.consecutiveBatchErrors <= recv.config.SendRelayAttempts)"))
				if c.mustPassBefore(osr, ret, isInc) {
					c.OK("C34b/OnSendRelayResult/SendRetry/counter-incremented-first", c.P.InstrPos(ret), "consecutiveBatchErrors++ on every path to it")
				} else {
					c.Fail("C34b/OnSendRelayResult/SendRetry/counter-incremented-first", c.P.InstrPos(ret), "a failed send can be retried without being counted: unbounded resend loop")
				}
			case sendSuccess:
				nS++
				c.RequireGuards("C34b", []Site{r}, "SendSuccess", FactHas("send-ok", "(param#0 == nil)"))
				if c.mustPassBefore(osr, ret, isReset) {
					c.OK("C34b/OnSendRelayResult/SendSuccess/resets-counter", c.P.InstrPos(ret), "")
				} else {
					c.Fail("C34b/OnSendRelayResult/SendSuccess/resets-counter", c.P.InstrPos(ret), "the consecutive-failure counter survives a successful send")
				}
			}
		}
		if nR != 1 || nS != 1 {
			c.Undecided("C34b: expected one SendRetry and one SendSuccess return, found %d and %d", nR, nS)
		}

		c.Rule("C34c state machine goroutine: sends on the task channel are either final (Done: true) or a new attempt (RelayState set). A new attempt inside the loop is emitted only in the batchUpdate case under OnSendRelayResult(...) == SendRetry, or in the gotResults case under !success ∧ Decide(...).Action == Retry, or in the ticker case under Decide(...).Action == Retry, the latter two after stateTransition; the success outcome of gotResults cannot reach a new attempt; after a final send nothing else is sent and the goroutine returns; every return after the loop started passes a final send (directly, or through checkAndHandleTimeout, which sends Done before returning true and sends nothing when it returns false)")
		type tsend struct {
			s    *ssa.Send
			done bool
		}
		var sends []tsend
		ir.EachInstr(g1, func(in ssa.Instruction) {
			s, ok := in.(*ssa.Send)
			if !ok || !strings.Contains(ir.TypeName(s.X.Type()), "RelayStateSendInstructions") {
				return
			}
			f := structFieldStores(allocOf(s.X))
			d, hasDone := f["Done"]
			sends = append(sends, tsend{s, hasDone && ir.Desc(d) == "const(true)"})
		})
		var dones, attempts []tsend
		for _, s := range sends {
			if s.done {
				dones = append(dones, s)
			} else {
				attempts = append(attempts, s)
			}
		}
		if len(dones) < 3 || len(attempts) < 4 {
			c.Undecided("C34c: expected >=3 final and >=4 attempt sends in the state-machine goroutine, found %d and %d", len(dones), len(attempts))
		}
		var loopSel *ssa.Select
		ir.EachInstr(g1, func(in ssa.Instruction) {
			if sel, ok := in.(*ssa.Select); ok && len(sel.States) >= 4 {
				loopSel = sel
			}
		})
		if loopSel == nil {
			c.Undecided("C34c: the state machine's select loop was not found")
			return
		}
		loop := innermostLoop(g1, loopSel.Block())
		if loop == nil {
			c.Undecided("C34c: the state machine's select is not in a loop")
			return
		}
		stateName := func(k int) string {
			d := ir.Desc(loopSel.States[k].Chan)
			switch {
			case strings.HasSuffix(d, ".batchUpdate"):
				return "batchUpdate"
			case strings.HasSuffix(d, ".C"):
				return "ticker"
			case strings.Contains(d, "context.Context.Done"):
				return "ctxDone"
			}
			if ch := loopSel.States[k].Chan.Type().String(); strings.HasSuffix(ch, "chan bool") {
				return "gotResults"
			} else if strings.HasSuffix(ch, "chan error") {
				return "returnCondition"
			}
			return d
		}
		holdsDecide := func(g ir.Guard) bool {
			// (local(DecisionOutput).Action == Retry) where the local was assigned from policy.Decide
			f := g.Fact
			if !strings.Contains(f, ".Action == "+retry+")") {
				return false
			}
			b, ok := g.If.Cond.(*ssa.BinOp)
			if !ok {
				return false
			}
			ld, ok := b.X.(*ssa.UnOp)
			if !ok {
				return false
			}
			fa, ok := ld.X.(*ssa.FieldAddr)
			if !ok {
				return false
			}
			a, ok := fa.X.(*ssa.Alloc)
			if !ok || a.Referrers() == nil {
				return false
			}
			for _, r := range *a.Referrers() {
				if st, ok := r.(*ssa.Store); ok && st.Addr == a {
					if cl, _ := callOfValue(st.Val); cl != nil && strings.HasSuffix(ir.CalleeName(&cl.Call), "RelayPolicyInf.Decide") {
						return true
					}
				}
			}
			return false
		}
		isTransition := IsCallTo(rcK + "UnifiedRelayStateMachine.stateTransition")
		nIn := 0
		for _, a := range attempts {
			if !loop.Blocks[a.s.Block()] {
				continue // the first attempt, before the loop
			}
			nIn++
			sel, k := chosenState(a.s)
			if sel != loopSel {
				c.Fail("C34c/attempt@"+itoa(nIn)+"/inside-a-select-case", c.P.InstrPos(a.s), "a new attempt is emitted outside the cases of the state machine's select")
				continue
			}
			name := stateName(k)
			key := "C34c/attempt-in-" + name
			gs := ir.Guards(a.s)
			has := func(pred func(ir.Guard) bool) bool {
				for _, g := range gs {
					if pred(g) {
						return true
					}
				}
				return false
			}
			switch name {
			case "batchUpdate":
				if has(func(g ir.Guard) bool {
					return strings.Contains(g.Fact, "RelayPolicyInf.OnSendRelayResult)(") && strings.HasSuffix(g.Fact, " == "+sendRetry+")")
				}) {
					c.OK(key+"/only-on-SendRetry", c.P.InstrPos(a.s), "resend after a failed send, bounded by C34b")
				} else {
					c.Fail(key+"/only-on-SendRetry", c.P.InstrPos(a.s), "a new attempt follows a send result other than SendRetry (a request whose send succeeded, or whose retries are exhausted, is sent again)")
				}
			case "gotResults", "ticker":
				okDecide := has(holdsDecide)
				okFail := name == "ticker" || has(func(g ir.Guard) bool {
					v, edge := stripNot(g.If.Cond, g.Edge)
					ex, isEx := v.(*ssa.Extract)
					return isEx && ex.Tuple == ssa.Value(loopSel) && !edge
				})
				okTrans := c.mustPassBeforeInIteration(g1, loop, a.s, isTransition)
				switch {
				case !okDecide:
					c.Fail(key+"/only-on-Decide=Retry", c.P.InstrPos(a.s), "a new attempt is emitted without the policy having answered Retry")
				case !okFail:
					c.Fail(key+"/only-on-Decide=Retry", c.P.InstrPos(a.s), "a new attempt can follow a successful result")
				case !okTrans:
					c.Fail(key+"/only-on-Decide=Retry", c.P.InstrPos(a.s), "the retry is emitted without a state transition (same relay state is resent)")
				default:
					c.OK(key+"/only-on-Decide=Retry", c.P.InstrPos(a.s), "policy.Decide(...).Action == Retry, after stateTransition")
				}
			default:
				c.Fail(key+"/unexpected-case", c.P.InstrPos(a.s), "a new attempt is emitted in the "+name+" case")
			}
		}
		if nIn < 3 {
			c.Undecided("C34c: expected >=3 attempt sends inside the loop, found %d", nIn)
		}
		// success => final only
		var attemptSites []Site
		for _, a := range attempts {
			attemptSites = append(attemptSites, Site{Fn: g1, Instr: a.s})
		}
		nSucc := 0
		for _, b := range g1.Blocks {
			if len(b.Instrs) == 0 || !loop.Blocks[b] {
				continue
			}
			iff, ok := b.Instrs[len(b.Instrs)-1].(*ssa.If)
			if !ok {
				continue
			}
			ex, isEx := iff.Cond.(*ssa.Extract)
			if !isEx || ex.Tuple != ssa.Value(loopSel) || ex.Index < 2 {
				continue
			}
			nSucc++
			if ok, where := c.EdgeCannotReach(IfEdge{iff, true}, attemptSites); ok {
				c.OK("C34c/gotResults/success=>no-new-attempt", c.P.InstrPos(iff), "the success outcome reaches only the final send and return")
			} else {
				c.Fail("C34c/gotResults/success=>no-new-attempt", c.P.InstrPos(iff), "after a successful result a new attempt can be emitted at "+where)
			}
		}
		if nSucc != 1 {
			c.Undecided("C34c: expected one branch on the received gotResults value, found %d", nSucc)
		}
		// a non-successful results round re-arms the results reader before the loop goes round again
		isReaderGo := func(in ssa.Instruction) bool {
			g, ok := in.(*ssa.Go)
			if !ok {
				return false
			}
			callee := g.Call.StaticCallee()
			if callee == nil {
				return false
			}
			sendsBool := false
			ir.EachInstr(callee, func(x ssa.Instruction) {
				if s, ok := x.(*ssa.Send); ok && strings.HasSuffix(s.Chan.Type().String(), "chan bool") {
					sendsBool = true
				}
			})
			return sendsBool
		}
		for _, b := range g1.Blocks {
			if len(b.Instrs) == 0 || !loop.Blocks[b] {
				continue
			}
			iff, ok := b.Instrs[len(b.Instrs)-1].(*ssa.If)
			if !ok {
				continue
			}
			ex, isEx := iff.Cond.(*ssa.Extract)
			if !isEx || ex.Tuple != ssa.Value(loopSel) || ex.Index < 2 {
				continue
			}
			seen := map[*ssa.BasicBlock]bool{}
			var escape *ssa.BasicBlock
			var walk func(x *ssa.BasicBlock)
			walk = func(x *ssa.BasicBlock) {
				if seen[x] || escape != nil {
					return
				}
				seen[x] = true
				if x == loop.Header {
					escape = x
					return
				}
				for _, in := range x.Instrs {
					if isReaderGo(in) {
						return
					}
				}
				for _, s := range x.Succs {
					if s == loop.Header {
						escape = x
						return
					}
					walk(s)
				}
			}
			walk(b.Succs[1])
			if escape == nil {
				c.OK("C34c/gotResults/failure-round-re-arms-the-results-reader", c.P.InstrPos(iff), "every path from !success back to the select starts the results reader again (or returns)")
			} else {
				at := ssa.Instruction(iff)
				if len(escape.Instrs) > 0 {
					at = escape.Instrs[len(escape.Instrs)-1]
				}
				c.Fail("C34c/gotResults/failure-round-re-arms-the-results-reader", c.P.InstrPos(at), "a path from a non-successful results round returns to the select without restarting the results reader: a success that arrives later is never observed, so the machine can neither emit its final instruction for it nor refrain from a new attempt")
			}
		}
		// after a final send: nothing else, and return
		taskSendBlocks := map[*ssa.BasicBlock]bool{}
		for _, s := range sends {
			taskSendBlocks[s.s.Block()] = true
		}
		isCHT := IsCallTo(rcK + "UnifiedRelayStateMachine.checkAndHandleTimeout")
		for i, d := range dones {
			key := "C34c/final-send#" + itoa(i+1) + "/then-return-nothing-else"
			bad := ""
			// rest of the block
			after := false
			for _, in := range d.s.Block().Instrs {
				if in == ssa.Instruction(d.s) {
					after = true
					continue
				}
				if after {
					if _, isSend := in.(*ssa.Send); isSend && taskSendBlocks[in.Block()] && in != ssa.Instruction(d.s) {
						if s2 := in.(*ssa.Send); strings.Contains(ir.TypeName(s2.X.Type()), "RelayStateSendInstructions") {
							bad = "another instruction is sent right after the final one"
						}
					}
					if isCHT(in) {
						bad = "checkAndHandleTimeout may send a second final instruction"
					}
				}
			}
			for _, s := range d.s.Block().Succs {
				reach := ir.Reachable(s, func(*ssa.BasicBlock) bool { return false })
				for b := range reach {
					if b == loop.Header {
						bad = "the loop continues after the final instruction"
					}
					if taskSendBlocks[b] {
						bad = "another instruction can be sent after the final one (" + c.P.Pos(b.Instrs[0].Pos()) + ")"
					}
					for _, in := range b.Instrs {
						if isCHT(in) {
							bad = "checkAndHandleTimeout can run after the final instruction and send a second one"
						}
					}
				}
			}
			if bad == "" {
				c.OK(key, c.P.InstrPos(d.s), "")
			} else {
				c.Fail(key, c.P.InstrPos(d.s), bad)
			}
		}
		// every return from inside the loop passes a final send
		final := func(in ssa.Instruction) bool {
			for _, d := range dones {
				if in == ssa.Instruction(d.s) {
					return true
				}
			}
			return isCHT(in)
		}
		if r := c.MustPass(g1, loopSel.Block().Instrs[0], final, func(*ssa.Return) bool { return true }); r.OK {
			c.OK("C34c/goroutine/never-returns-without-final-instruction", c.P.Pos(g1.Pos()), "every return reachable from the loop passes a Done send or checkAndHandleTimeout")
		} else {
			c.Fail("C34c/goroutine/never-returns-without-final-instruction", c.P.Pos(g1.Pos()), "the goroutine can return without a final instruction ("+r.Witness+"): the relay waits forever")
		}
		// returns right after checkAndHandleTimeout are taken only on its true result, except in the ctx.Done case
		chtSeen := map[string]int{}
		for _, s := range c.CallsIn(g1, cht, false) {
			call, isVal := s.Instr.(*ssa.Call)
			if !isVal {
				continue
			}
			_, k := chosenState(call)
			used := call.Referrers() != nil && len(*call.Referrers()) > 0
			where := "loop-top"
			if k >= 0 {
				where = stateName(k)
			}
			chtSeen[where]++
			key := "C34c/checkAndHandleTimeout@" + where + "#" + itoa(chtSeen[where])
			if used {
				// the true edge must return, the false edge must not
				okRet := false
				for _, r := range *call.Referrers() {
					if iff, ok := r.(*ssa.If); ok {
						t := iff.Block().Succs[0]
						if len(t.Instrs) > 0 {
							if _, isRet := t.Instrs[len(t.Instrs)-1].(*ssa.Return); isRet {
								okRet = true
							}
						}
					}
				}
				if okRet {
					c.OK(key+"/true=>return", c.P.InstrPos(call), "")
				} else {
					c.Fail(key+"/true=>return", c.P.InstrPos(call), "the goroutine continues after the timeout handler sent the final instruction")
				}
			} else if k >= 0 && stateName(k) == "ctxDone" {
				c.Audit(key+"/in-ctxDone-case", c.P.InstrPos(call), "result ignored: in the <-processingCtx.Done() case processingCtx.Err() is non-nil, so the handler takes its sending branch (belief about context.Context)")
			} else {
				c.Fail(key+"/result-used", c.P.InstrPos(call), "the timeout handler's result is ignored outside the ctx.Done case: a final instruction may have been sent and the loop goes on")
			}
		}
		// checkAndHandleTimeout itself
		var chtSends []ssa.Instruction
		ir.EachInstr(cht, func(in ssa.Instruction) {
			if s, ok := in.(*ssa.Send); ok {
				f := structFieldStores(allocOf(s.X))
				if d, has := f["Done"]; has && ir.Desc(d) == "const(true)" {
					chtSends = append(chtSends, in)
				} else {
					c.Fail("C34c/checkAndHandleTimeout/sends-only-final", c.P.InstrPos(in), "the timeout handler emits a non-final instruction")
				}
			}
		})
		for _, r := range c.AllReturns(cht) {
			ret := r.Instr.(*ssa.Return)
			sent := c.mustPassBefore(cht, ret, func(in ssa.Instruction) bool {
				for _, s := range chtSends {
					if s == in {
						return true
					}
				}
				return false
			})
			switch ir.Desc(ret.Results[0]) {
			case "const(true)":
				if sent {
					c.OK("C34c/checkAndHandleTimeout/true=>sent-final", c.P.InstrPos(ret), "")
				} else {
					c.Fail("C34c/checkAndHandleTimeout/true=>sent-final", c.P.InstrPos(ret), "reports a timeout without having sent the final instruction")
				}
			case "const(false)":
				reachable := false
				for _, s := range chtSends {
					if reaches(s.Block(), ret.Block()) {
						reachable = true
					}
				}
				if !reachable {
					c.OK("C34c/checkAndHandleTimeout/false=>sent-nothing", c.P.InstrPos(ret), "")
				} else {
					c.Fail("C34c/checkAndHandleTimeout/false=>sent-nothing", c.P.InstrPos(ret), "reports no timeout after sending a final instruction: the loop continues and sends more")
				}
			default:
				c.Fail("C34c/checkAndHandleTimeout/constant-results", c.P.InstrPos(ret), "unexpected result "+ir.Desc(ret.Results[0]))
			}
		}

		c.Rule("C34d inputs: buildDecisionInput fills Selection from sm.selection, AttemptNumber from usedProviders.BatchNumber(), Summary from getResultsSummary(), IsTickerHedge from its parameter; the gotResults case passes false and the ticker case true")
		for _, r := range c.AllReturns(bdi) {
			f := structFieldStores(allocOf(r.Instr.(*ssa.Return).Results[0]))
			want := map[string]string{
				"Selection":     "recv.selection",
				"AttemptNumber": "call(protocol/lavasession.UsedProviders.BatchNumber)(recv.usedProviders)",
				"Summary":       "call(" + rcK + "UnifiedRelayStateMachine.getResultsSummary)(recv)",
				"IsTickerHedge": "param#1",
			}
			for fld, w := range want {
				got := ""
				if v, ok := f[fld]; ok {
					got = ir.Desc(v)
				}
				if got == w {
					c.OK("C34d/buildDecisionInput/"+fld, c.P.Pos(bdi.Pos()), w)
				} else {
					c.Fail("C34d/buildDecisionInput/"+fld, c.P.Pos(bdi.Pos()), "DecisionInput."+fld+" is "+trunc(got, 80)+", expected "+w)
				}
			}
		}
		for _, s := range c.CallsIn(g1, bdi, false) {
			_, k := chosenState(s.Instr)
			if k < 0 {
				continue
			}
			name := stateName(k)
			arg := ir.Desc(ir.CallOf(s.Instr).Args[2])
			want := map[string]string{"gotResults": "const(false)", "ticker": "const(true)"}[name]
			if want == "" {
				continue
			}
			if arg == want {
				c.OK("C34d/"+name+"/isTickerHedge="+want, c.P.InstrPos(s.Instr), "")
			} else {
				c.Fail("C34d/"+name+"/isTickerHedge="+want, c.P.InstrPos(s.Instr), "the "+name+" case tells the policy isTickerHedge="+arg)
			}
		}
		c.Rule("C34e the non-retryable flags summarise all recorded errors: in GetResultsSummary (or a helper it calls) the loops that test node errors for IsNonRetryable and protocol errors with IsUnsupportedMethodError / ShouldRetryError run over every recorded error — the loop is left only at its header (range exhausted), never by a break or return after a partial scan — so a permanent error recorded after a retryable one still stops the retries")
		if grs := c.Fn(rcK + "RelayProcessor.GetResultsSummary"); grs != nil {
			cands := []*ssa.Function{grs}
			ir.EachInstr(grs, func(in ssa.Instruction) {
				if call := ir.CallOf(in); call != nil {
					if callee := call.StaticCallee(); callee != nil && callee.Blocks != nil && strings.HasPrefix(ir.FuncName(callee), rcK) {
						cands = append(cands, callee)
					}
				}
			})
			found := map[string]bool{}
			for _, f := range cands {
				ir.EachInstr(f, func(in ssa.Instruction) {
					what := ""
					if call := ir.CallOf(in); call != nil {
						switch ir.CalleeName(call) {
						case "protocol/chainlib.ShouldRetryError":
							what = "ShouldRetryError"
						case "protocol/chainlib.IsUnsupportedMethodError":
							what = "IsUnsupportedMethodError"
						}
					}
					switch x := in.(type) {
					case *ssa.FieldAddr:
						if strings.HasSuffix(ir.FieldKey(x), "RelayResult.IsNonRetryable") {
							what = "IsNonRetryable"
						}
					case *ssa.Field:
						if strings.HasSuffix(ir.FieldKey(x), "RelayResult.IsNonRetryable") {
							what = "IsNonRetryable"
						}
					}
					if what == "" || found[what] {
						return
					}
					found[what] = true
					key := "C34e/GetResultsSummary/" + what + "-scan-is-exhaustive"
					lp := innermostLoop(f, in.Block())
					if lp == nil {
						c.Fail(key, c.P.InstrPos(in), "the "+what+" test is not applied in a loop over the recorded errors")
						return
					}
					for b := range lp.Blocks {
						if b == lp.Header {
							continue
						}
						for _, s := range b.Succs {
							if !lp.Blocks[s] {
								c.Fail(key, c.P.InstrPos(b.Instrs[len(b.Instrs)-1]), "the scan over the recorded errors can stop early (an exit other than range exhaustion): errors recorded later are not examined, so a permanent error after a retryable one no longer sets the flag")
								return
							}
						}
					}
					c.OK(key, c.P.InstrPos(in), "loop left only at its header")
				})
			}
			for _, w := range []string{"ShouldRetryError", "IsUnsupportedMethodError", "IsNonRetryable"} {
				if !found[w] {
					c.Fail("C34e/GetResultsSummary/"+w+"-scan-is-exhaustive", c.P.Pos(grs.Pos()), "the results summary no longer applies the "+w+" test to the recorded errors")
				}
			}
		}
		c.NotCovered("the relay processor's side (what counts as a successful result; eligibility of individual errors); timing of the 15ms return-condition probe; that the consumer of the task channel starts exactly one send per instruction")
	})
}

// mustPassBeforeInIteration: within the loop, every path from the loop header to `at`
// passes an instruction satisfying through.
func (c *Ctx) mustPassBeforeInIteration(fn *ssa.Function, loop *ir.Loop, at ssa.Instruction, through func(ssa.Instruction) bool) bool {
	// same block, earlier
	for _, in := range at.Block().Instrs {
		if in == at {
			break
		}
		if through(in) {
			return true
		}
	}
	pass := map[*ssa.BasicBlock]bool{}
	for b := range loop.Blocks {
		for _, in := range b.Instrs {
			if through(in) {
				pass[b] = true
			}
		}
	}
	// can we get from the header to at's block avoiding pass blocks?
	reach := ir.Reachable(loop.Header, func(b *ssa.BasicBlock) bool { return (pass[b] && b != at.Block()) || !loop.Blocks[b] })
	return !reach[at.Block()]
}
