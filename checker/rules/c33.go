package rules

import (
	"go/token"
	"strings"

	"golang.org/x/tools/go/ssa"

	"lavaverif/checker/ir"
)

func init() {
	register("C33", "other", func(c *Ctx) {
		c.Explain = "Cross-validated responses reflect an agreeing quorum — structural part: responsesCrossValidation returns a result only past size > 0 and the false outcome of best-count < size; the best count is only ever a group's count taken under count > best (together with that group's stored result), or the number of empty replies under empty >= size ∧ best < size (together with an empty reply); a response joins a group only when its data is non-empty, under the key ResponseHash or, when that is zero, sha256 of its data; an existing group is incremented, a new one starts at 1 holding that response; the cached ResponseHash is sha256 of the reply data and is set only for successful responses; the caller passes the successful results and the agreement threshold."
		cv := c.Fn(rcK + "RelayProcessor.responsesCrossValidation")
		pcv := c.Fn(rcK + "RelayProcessor.processCrossValidationResult")
		hr := c.Fn(rcK + "RelayProcessor.handleResponse")
		if cv == nil || pcv == nil || hr == nil {
			return
		}

		c.Rule("C33a threshold: the non-nil result is returned only past crossValidationSize > 0 and past the false outcome of bestCount < crossValidationSize; bestCount's sources are 0, a group's count under count > bestCount, and the empty-reply count under emptyReplies >= size ∧ bestCount < size")
		var best *ssa.Phi
		nsucc := 0
		for _, r := range c.SuccessReturns(cv) {
			ret := r.Instr.(*ssa.Return)
			if ir.Desc(ret.Results[0]) == "nil" {
				continue
			}
			nsucc++
			okSize := ir.HasFact(ir.GuardFacts(ret), "(const(0) < param#1)")
			okThr := false
			for _, g := range ir.Guards(ret) {
				b, ok := g.If.Cond.(*ssa.BinOp)
				if !ok {
					continue
				}
				if b.Op == token.LSS && ir.Desc(b.Y) == "param#1" && !g.Edge {
					if p, isPhi := b.X.(*ssa.Phi); isPhi {
						best = p
						okThr = true
					}
				}
			}
			if okSize && okThr {
				c.OK("C33a/responsesCrossValidation/result-only-with-bestCount>=size", c.P.InstrPos(ret), "")
			} else {
				c.Fail("C33a/responsesCrossValidation/result-only-with-bestCount>=size", c.P.InstrPos(ret), "a response is returned without bestCount >= crossValidationSize (> 0) having been established")
			}
		}
		if nsucc != 1 || best == nil {
			c.Undecided("C33a: expected one result-carrying return guarded by the threshold in responsesCrossValidation (found %d)", nsucc)
			return
		}
		var nilCount ssa.Value
		for _, lf := range phiLeaves(best) {
			d := ir.Desc(lf)
			in, isIn := lf.(ssa.Instruction)
			switch {
			case d == "const(0)":
			case strings.HasSuffix(d, ".count") && isIn:
				// taken under count > best
				ok := false
				for _, g := range ir.Guards(in) {
					if b, isBin := g.If.Cond.(*ssa.BinOp); isBin && g.Edge && (b.Op == token.GTR && ir.Desc(b.X) == d || b.Op == token.LSS && ir.Desc(b.Y) == d) {
						ok = true
					}
				}
				if ok {
					c.OK("C33a/responsesCrossValidation/best=largest-group-count", c.P.InstrPos(in), "updated only under count > best")
				} else {
					c.Fail("C33a/responsesCrossValidation/best=largest-group-count", c.P.InstrPos(in), "the best count is replaced by a group's count without count > best")
				}
			default:
				// the empty-reply counter: stepping by one from zero
				if b, isBin := lf.(*ssa.BinOp); isBin && b.Op == token.ADD && strings.HasPrefix(d, "(const(1) + phi{") {
					nilCount = lf
				} else {
					c.Fail("C33a/responsesCrossValidation/best-count-sources", c.P.Pos(cv.Pos()), "the count compared with the threshold can be "+trunc(d, 100))
				}
			}
		}
		if nilCount == nil {
			c.Fail("C33a/responsesCrossValidation/empty-replies-can-form-a-quorum", c.P.Pos(cv.Pos()), "the empty-reply count never competes: an all-empty quorum returns an error")
		} else {
			// the empty-reply count replaces the best count only on the edge guarded by empty >= size ∧ best < size
			okNil := false
			var walk func(p *ssa.Phi, depth int)
			seenPhi := map[*ssa.Phi]bool{}
			walk = func(p *ssa.Phi, depth int) {
				if depth > 6 || seenPhi[p] {
					return
				}
				seenPhi[p] = true
				for i, e := range p.Edges {
					q, isPhi := e.(*ssa.Phi)
					if !isPhi {
						continue
					}
					isCounter := false
					for _, qe := range q.Edges {
						if qe == nilCount {
							isCounter = true
						}
					}
					if isCounter {
						facts := []string{}
						for _, g := range guardsOfEdge(p.Block().Preds[i], p.Block()) {
							facts = append(facts, g.Fact)
						}
						if ir.HasFact(facts, "(param#1 <= phi{") && ir.HasFact(facts, "< param#1)") {
							okNil = true
						} else {
							okNil = false
							return
						}
						continue
					}
					walk(q, depth+1)
				}
			}
			walk(best, 0)
			if okNil {
				c.OK("C33a/responsesCrossValidation/empty-wins-only-when-no-group-reaches-size", c.P.Pos(cv.Pos()), "emptyReplies >= size ∧ best < size")
			} else {
				c.Fail("C33a/responsesCrossValidation/empty-wins-only-when-no-group-reaches-size", c.P.Pos(cv.Pos()), "the empty reply can replace a non-empty group that reached the threshold")
			}
		}

		c.Rule("C33b groups: a response is counted in a group only under Reply != nil ∧ Reply.Data != nil ∧ len(data) > 0; the group key is ResponseHash, or sha256.Sum256(Reply.Data) when that is all zero; an existing group's count is incremented by one, a new group is created with count 1 and this response; everything else increments the empty-reply count")
		var inc *ssa.Store
		var mk *ssa.MapUpdate
		ir.EachInstr(cv, func(in ssa.Instruction) {
			switch x := in.(type) {
			case *ssa.Store:
				if fa, ok := x.Addr.(*ssa.FieldAddr); ok && fieldNameOfAddr(fa) == "count" {
					if b, ok := x.Val.(*ssa.BinOp); ok && b.Op == token.ADD {
						inc = x
					}
				}
			case *ssa.MapUpdate:
				if strings.Contains(x.Map.Type().String(), "[32]byte") {
					mk = x
				}
			}
		})
		if inc == nil || mk == nil {
			c.Undecided("C33b: group increment or group creation not found in responsesCrossValidation")
		} else {
			validFacts := func(in ssa.Instruction) bool {
				f := ir.GuardFacts(in)
				return ir.HasFact(f, ".Reply != nil)") && ir.HasFact(f, ".Reply.Data != nil)") && ir.HasFact(f, "responsesCrossValidation$1)(")
			}
			if validFacts(inc) && validFacts(mk) {
				c.OK("C33b/responsesCrossValidation/only-non-empty-data-joins-a-group", c.P.InstrPos(mk), "")
			} else {
				c.Fail("C33b/responsesCrossValidation/only-non-empty-data-joins-a-group", c.P.InstrPos(mk), "responses without data (nil reply, nil or empty data) can join an agreement group")
			}
			if d := ir.Desc(inc.Val); strings.HasPrefix(d, "(const(1) + ") && strings.HasSuffix(d, ".count)") {
				c.OK("C33b/responsesCrossValidation/existing-group+1", c.P.InstrPos(inc), "")
			} else {
				c.Fail("C33b/responsesCrossValidation/existing-group+1", c.P.InstrPos(inc), "existing group's count becomes "+trunc(d, 80))
			}
			f := structFieldStores(allocOf(mk.Value))
			cnt, res := "", ""
			if v, ok := f["count"]; ok {
				cnt = ir.Desc(v)
			}
			if v, ok := f["result"]; ok {
				res = ir.Desc(v)
			}
			if cnt == "const(1)" && strings.Contains(res, "param#0[") {
				c.OK("C33b/responsesCrossValidation/new-group=1-holding-this-response", c.P.InstrPos(mk), "")
			} else {
				c.Fail("C33b/responsesCrossValidation/new-group=1-holding-this-response", c.P.InstrPos(mk), "a new group starts with count "+cnt+" and result "+trunc(res, 60))
			}
			// key
			okKey := false
			var keySources []ssa.Value
			if p, isPhi := mk.Key.(*ssa.Phi); isPhi {
				keySources = p.Edges
			} else if a := allocOf(mk.Key); a != nil && a.Referrers() != nil {
				for _, r := range *a.Referrers() {
					if st, ok := r.(*ssa.Store); ok && st.Addr == ssa.Value(a) {
						keySources = append(keySources, st.Val)
					}
				}
			}
			if len(keySources) > 0 {
				n := 0
				for _, e := range keySources {
					d := ir.Desc(e)
					if strings.HasSuffix(d, ".ResponseHash") {
						n++
					} else if strings.HasPrefix(d, "call(crypto/sha256.Sum256)(") && strings.HasSuffix(d, ".Reply.Data)") {
						n++
					} else {
						n = -10
					}
				}
				okKey = n == 2
			}
			if okKey {
				c.OK("C33b/responsesCrossValidation/group-key=hash-of-data", c.P.InstrPos(mk), "cached ResponseHash or sha256(Reply.Data)")
			} else {
				c.Fail("C33b/responsesCrossValidation/group-key=hash-of-data", c.P.InstrPos(mk), "groups are keyed by "+trunc(ir.Desc(mk.Key), 100)+": responses with different data can be counted as agreeing")
			}
		}
		// the winner stored with the count
		var winner *ssa.Alloc
		for _, r := range c.SuccessReturns(cv) {
			if a, ok := r.Instr.(*ssa.Return).Results[0].(*ssa.Alloc); ok {
				winner = a
			}
		}
		if winner == nil {
			c.Undecided("C33b: the returned result is not the address of a local")
		} else if winner.Referrers() != nil {
			nres := 0
			for _, r := range *winner.Referrers() {
				st, ok := r.(*ssa.Store)
				if !ok || st.Addr != ssa.Value(winner) {
					continue
				}
				d := ir.Desc(st.Val)
				switch {
				case strings.HasSuffix(d, ".result"):
					nres++
					// same block as a best := count.count source
					same := false
					for _, lf := range phiLeaves(best) {
						if in, ok := lf.(ssa.Instruction); ok && in.Block() == st.Block() && strings.HasSuffix(ir.Desc(lf), ".count") {
							same = true
						}
					}
					if same {
						c.OK("C33b/responsesCrossValidation/winner-updated-with-best-count", c.P.InstrPos(st), "")
					} else {
						c.Fail("C33b/responsesCrossValidation/winner-updated-with-best-count", c.P.InstrPos(st), "the returned response and the best count are not updated together: the data returned may belong to a smaller group")
					}
				case strings.HasPrefix(d, "param#0["):
					nres++
					if ir.HasFact(ir.GuardFacts(st), "(param#1 <= phi{") {
						c.OK("C33b/responsesCrossValidation/empty-winner-under-empty-quorum", c.P.InstrPos(st), "")
					} else {
						c.Fail("C33b/responsesCrossValidation/empty-winner-under-empty-quorum", c.P.InstrPos(st), "an arbitrary response replaces the winner")
					}
				}
			}
			if nres != 2 {
				c.Undecided("C33b: expected the winner to be assigned from a group and from the empty reply, found %d assignments", nres)
			}
		}

		c.Rule("C33d completeness: the loop that looks for the largest group visits every group (its only exit is the exhausted map iterator); processCrossValidationResult returns a result without error only when that result is responsesCrossValidation's, under its nil error")
		for _, lf := range phiLeaves(best) {
			in, isIn := lf.(ssa.Instruction)
			if !isIn || !strings.HasSuffix(ir.Desc(lf), ".count") {
				continue
			}
			loop := innermostLoop(cv, in.Block())
			if loop == nil {
				c.Fail("C33d/responsesCrossValidation/scans-every-group", c.P.InstrPos(in), "the largest group is not searched in a loop over the groups")
				continue
			}
			bad := ""
			for b := range loop.Blocks {
				for _, s := range b.Succs {
					if !loop.Blocks[s] && b != loop.Header {
						bad = c.P.Pos(b.Instrs[len(b.Instrs)-1].Pos())
					}
				}
			}
			if bad == "" {
				c.OK("C33d/responsesCrossValidation/scans-every-group", c.P.InstrPos(in), "no early exit from the scan")
			} else {
				c.Fail("C33d/responsesCrossValidation/scans-every-group", c.P.InstrPos(in), "the scan for the largest group can stop early ("+bad+"): with random map order a smaller group that reached the threshold can be returned instead of the largest")
			}
		}
		for _, r := range c.SuccessReturns(pcv) {
			ret := r.Instr.(*ssa.Return)
			d := ir.Desc(RetVal(ret, 0))
			if strings.HasPrefix(d, "call("+rcK+"RelayProcessor.responsesCrossValidation)(recv,param#0,param#3)#0") && ir.HasFact(ir.GuardFacts(ret), "responsesCrossValidation)(recv,param#0,param#3)#1 == nil)") {
				c.OK("C33d/processCrossValidationResult/success=responsesCrossValidation's-result", c.P.InstrPos(ret), "")
			} else {
				c.Fail("C33d/processCrossValidationResult/success=responsesCrossValidation's-result", c.P.InstrPos(ret), "a cross-validated success is returned that did not come out of responsesCrossValidation ("+trunc(d, 100)+"): the agreement on the stored successful results is bypassed")
			}
		}

		c.Rule("C33c inputs: processCrossValidationResult hands responsesCrossValidation the successful results and the required size it was given, which ProcessingResult takes from getAgreementThreshold; handleResponse caches sha256 of the reply data as ResponseHash only for responses without node or protocol error")
		for _, s := range c.CallsIn(pcv, cv, false) {
			call := ir.CallOf(s.Instr)
			if ir.Desc(call.Args[1]) == "param#0" && ir.Desc(call.Args[2]) == "param#3" {
				c.OK("C33c/processCrossValidationResult/passes-successes-and-threshold", c.P.InstrPos(s.Instr), "")
			} else {
				c.Fail("C33c/processCrossValidationResult/passes-successes-and-threshold", c.P.InstrPos(s.Instr), "responsesCrossValidation("+trunc(ir.Desc(call.Args[1]), 50)+", "+trunc(ir.Desc(call.Args[2]), 50)+")")
			}
		}
		if pr := c.Fn(rcK + "RelayProcessor.ProcessingResult"); pr != nil {
			for _, s := range c.CallsIn(pr, pcv, false) {
				call := ir.CallOf(s.Instr)
				if strings.HasPrefix(ir.Desc(call.Args[4]), "call("+rcK+"RelayProcessor.getAgreementThreshold)(") && strings.Contains(ir.Desc(call.Args[1]), "GetResultsData)(") && strings.HasSuffix(ir.Desc(call.Args[1]), "#0") {
					c.OK("C33c/ProcessingResult/threshold=getAgreementThreshold", c.P.InstrPos(s.Instr), "")
				} else {
					c.Fail("C33c/ProcessingResult/threshold=getAgreementThreshold", c.P.InstrPos(s.Instr), "cross-validation is evaluated with size "+trunc(ir.Desc(call.Args[4]), 80))
				}
			}
		}
		nh := 0
		ir.EachInstr(hr, func(in ssa.Instruction) {
			st, ok := in.(*ssa.Store)
			if !ok {
				return
			}
			fa, ok := st.Addr.(*ssa.FieldAddr)
			if !ok || fieldNameOfAddr(fa) != "ResponseHash" {
				return
			}
			nh++
			d := ir.DescN(st.Val, 10)
			f := ir.GuardFacts(st)
			if strings.HasPrefix(d, "call(crypto/sha256.Sum256)(") && strings.Contains(d, "GetData)(") && ir.HasFact(f, "SetResponse)(", " == nil)") && ir.HasFact(f, ".Err == nil)") {
				c.OK("C33c/handleResponse/ResponseHash=sha256(data)-for-successes-only", c.P.InstrPos(st), "")
			} else {
				c.Fail("C33c/handleResponse/ResponseHash=sha256(data)-for-successes-only", c.P.InstrPos(st), "cached hash is "+trunc(d, 100))
			}
		})
		if nh != 1 {
			c.Undecided("C33c: expected one ResponseHash assignment in handleResponse, found %d", nh)
		}
		// who-may-write: the cached hash is the group key, so it may only ever be set on the
		// response whose own data was hashed — never on a result picked by position
		for _, s := range c.FieldStores("protocol/common.RelayResult.ResponseHash") {
			if !inProd(s.Fn) || s.Fn == hr {
				continue
			}
			c.Fail("C33c/RelayResult.ResponseHash/written-only-by-handleResponse/"+ir.FuncName(s.Fn), c.P.InstrPos(s.Instr), "the cached response hash (the cross-validation group key) is also written in "+ir.FuncName(s.Fn)+": a hash attached to a result other than the one whose data was hashed moves that result into a foreign agreement group")
		}
		c.OK("C33c/RelayResult.ResponseHash/written-only-by-handleResponse", c.P.Pos(hr.Pos()), "no other production function stores the field")
		c.NotCovered("arrival order and which of several equally large groups wins (map iteration order — any of them is 'a largest group'); collision resistance of sha256")
	})
}

func fieldNameOfAddr(fa *ssa.FieldAddr) string {
	if f := ir.FieldOf(fa); f != nil {
		return f.Name()
	}
	return ""
}
