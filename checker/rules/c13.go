package rules

import (
	"fmt"
	"strings"

	"golang.org/x/tools/go/ssa"

	"lavaverif/checker/ir"
)

const (
	sk       = "x/subscription/keeper."
	getPlan  = "invoke:x/subscription/types.PlansKeeper.GetPlan"
	findPlan = "invoke:x/subscription/types.PlansKeeper.FindPlan"
	putPlan  = "invoke:x/subscription/types.PlansKeeper.PutPlan"
)

var planRefFields = map[string]bool{
	"x/subscription/types.Subscription.PlanIndex":       true,
	"x/subscription/types.Subscription.PlanBlock":       true,
	"x/subscription/types.FutureSubscription.PlanIndex": true,
	"x/subscription/types.FutureSubscription.PlanBlock": true,
}

// storeDominatesLoad: some store to the same struct field precedes the load on every path
// (same block earlier, or in a dominating block).
func storeBeforeLoad(fn *ssa.Function, fieldKey string, ld ssa.Instruction) ssa.Instruction {
	var hit ssa.Instruction
	ir.EachInstr(fn, func(in ssa.Instruction) {
		st, ok := in.(*ssa.Store)
		if !ok || hit != nil {
			return
		}
		fa, ok := st.Addr.(*ssa.FieldAddr)
		if !ok || ir.FieldKey(fa) != fieldKey {
			return
		}
		if st.Block() == ld.Block() {
			for _, x := range st.Block().Instrs {
				if x == in {
					hit = in
					return
				}
				if x == ld {
					return
				}
			}
		} else if st.Block().Dominates(ld.Block()) {
			hit = in
		}
	})
	return hit
}

func init() {
	register("C13", "other", func(c *Ctx) {
		c.Explain = "Plan versions used by live subscriptions remain available: the plans fixation store keeps a version while its reference count is positive, so the property holds iff every persisted plan reference (Subscription/FutureSubscription PlanIndex+PlanBlock) holds a counted reference. Decided as reference provenance of every store to those fields, correct old/new swap where a reference is replaced, release only of persisted references, and who-may-call on the reference-counting entry points."
		c.Rule("C13a provenance: every store to a persisted plan reference field in x/subscription/keeper takes its value from (i) the reference-taking getter PlansKeeper.GetPlan, or (ii) another persisted reference field (transfer of an advance purchase), or (iii) the non-counting FindPlan only if the same function releases the old reference with PutPlan on values read before the overwrite and takes the new one with GetPlan")
		nStores := 0
		for _, f := range c.P.AllFuncs {
			if !strings.HasPrefix(topName(f), sk) || strings.Contains(topName(f), "Migrat") || strings.Contains(topName(f), "migrat") {
				continue
			}
			fn := f
			ir.EachInstr(fn, func(in ssa.Instruction) {
				st, ok := in.(*ssa.Store)
				if !ok {
					return
				}
				fa, ok := st.Addr.(*ssa.FieldAddr)
				if !ok || !planRefFields[ir.FieldKey(fa)] {
					return
				}
				nStores++
				// a Subscription value built as a scratch local in a function that writes no
				// fixation entry is not a persisted reference (cluster-key computation)
				if a, isLocal := fa.X.(*ssa.Alloc); isLocal && len(c.CallsByName(fn, true,
					"x/fixationstore/types.FixationStore.AppendEntry", "x/fixationstore/types.FixationStore.ModifyEntry")) == 0 && !escapesToCall(a) {
					c.Audit(fmt.Sprintf("C13a/%s/store=scratch-value", topName(fn)), c.P.InstrPos(in), "scratch Subscription value: the function writes no fixation entry and the value's address is not passed on; not a persisted reference")
					return
				}
				fk := ir.FieldKey(fa)
				short := fk[strings.LastIndex(fk[:strings.LastIndex(fk, ".")], ".")+1:]
				key := fmt.Sprintf("C13a/%s/store=%s", topName(fn), short)
				fields, calls := c.DeepDeps(st.Val, 2)
				fromRefField := false
				for k := range fields {
					if planRefFields[k] && k != fk {
						// transfer from the *other* record kind (FutureSubscription -> Subscription)
						if strings.Contains(k, "FutureSubscription") != strings.Contains(fk, "FutureSubscription") {
							fromRefField = true
						}
					}
				}
				switch {
				case calls[getPlan] && !calls[findPlan]:
					c.OK(key, c.P.InstrPos(in), "value derives from the reference-taking GetPlan")
				case fromRefField && !calls[findPlan]:
					c.OK(key, c.P.InstrPos(in), "reference transferred from the advance-purchase record")
				case calls[findPlan]:
					// swap obligation
					puts := c.CallsByName(fn, true, putPlan)
					gets := c.CallsByName(fn, true, getPlan)
					if len(puts) == 0 || len(gets) == 0 {
						c.Fail(key, c.P.InstrPos(in), "persisted plan reference overwritten with an uncounted FindPlan result and the function neither releases the old reference (PutPlan) nor takes the new one (GetPlan): the subscription ends up pointing at a version it holds no reference on")
						return
					}
					bad := ""
					for _, p := range puts {
						for _, a := range ir.CallOf(p.Instr).Args {
							ld, ok := a.(*ssa.UnOp)
							if !ok {
								continue
							}
							lfa, ok := ld.X.(*ssa.FieldAddr)
							if !ok || !planRefFields[ir.FieldKey(lfa)] {
								continue
							}
							if w := storeBeforeLoad(fn, ir.FieldKey(lfa), ld); w != nil {
								bad = fmt.Sprintf("PutPlan at %s releases %s read after it was overwritten at %s (it releases the new version, not the old one; the comparison deciding the swap reads the overwritten fields too)", c.P.InstrPos(p.Instr), ir.FieldKey(lfa), c.P.InstrPos(w))
							}
						}
					}
					if bad != "" {
						c.Fail(key, c.P.InstrPos(in), bad)
					} else {
						c.OK(key, c.P.InstrPos(in), "FindPlan result with PutPlan(old values read before the overwrite) + GetPlan(new)")
					}
				default:
					c.Fail(key, c.P.InstrPos(in), "persisted plan reference set from a value with no counted provenance: "+ir.DescN(st.Val, 4))
				}
			})
		}
		if nStores < 8 {
			c.Undecided("expected at least 8 stores to persisted plan reference fields in x/subscription/keeper, found %d", nStores)
		}

		c.Rule("C13b release: PutPlan is called only from RemoveExpiredSubscription and renewSubscription; RemoveExpiredSubscription releases its (planIndex, planBlock) parameters and every caller passes the subscription's own persisted PlanIndex/PlanBlock")
		allowed := map[string]bool{sk + "Keeper.RemoveExpiredSubscription": true, sk + "Keeper.renewSubscription": true}
		np := 0
		for _, f := range c.P.AllFuncs {
			if !inProd(f) {
				continue
			}
			for _, s := range c.CallsByName(f, false, putPlan, "x/plans/keeper.Keeper.PutPlan") {
				np++
				n := topName(s.Fn)
				key := "C13b/PutPlan/caller=" + n
				if allowed[n] {
					c.OK(key, c.P.InstrPos(s.Instr), "allowed releaser")
				} else {
					c.Fail(key, c.P.InstrPos(s.Instr), "plan reference released from an unexpected function (a double release drops a version other subscriptions still use)")
				}
			}
		}
		if np < 2 {
			c.Undecided("expected >=2 PutPlan call sites, found %d", np)
		}
		if res := c.Fn(sk + "Keeper.RemoveExpiredSubscription"); res != nil {
			for _, s := range c.CallsByName(res, true, putPlan) {
				a := argDescs(ir.CallOf(s.Instr))
				n := len(a)
				if a[n-2] == "param#3" && a[n-1] == "param#4" {
					c.OK("C13b/RemoveExpiredSubscription/PutPlan-args=params", c.P.InstrPos(s.Instr), "releases (planIndex, planBlock)")
				} else {
					c.Fail("C13b/RemoveExpiredSubscription/PutPlan-args=params", c.P.InstrPos(s.Instr), "releases "+a[n-2]+","+a[n-1])
				}
			}
			if r := c.MustPass(res, nil, IsCallTo(putPlan), nil); r.OK {
				c.OK("C13b/RemoveExpiredSubscription/must-pass=PutPlan", c.P.Pos(res.Pos()), "all paths")
			} else {
				c.Note("C13b/RemoveExpiredSubscription/must-pass=PutPlan", c.P.Pos(res.Pos()), "a path skips the release (leak only, does not break availability): "+r.Witness)
			}
			for _, ref := range c.References(res) {
				call := ir.CallOf(ref.Instr)
				if call == nil {
					continue
				}
				a := argDescs(call)
				n := len(a)
				key := "C13b/" + topName(ref.Fn) + "/RemoveExpiredSubscription-args=persisted-ref"
				if strings.HasSuffix(a[n-2], ".PlanIndex") && strings.HasSuffix(a[n-1], ".PlanBlock") {
					c.OK(key, c.P.InstrPos(ref.Instr), a[n-2]+","+a[n-1])
				} else {
					c.Fail(key, c.P.InstrPos(ref.Instr), "releases something other than the subscription's persisted reference: "+a[n-2]+","+a[n-1])
				}
			}
		}

		c.Rule("C13c who-may-call: the plans fixation store's reference-counting operations are reached only through the plans keeper's GetPlan / PutPlan / DelPlan / AddPlan; lookups that feed pairing (GetPlanFromSubscription) use the persisted (index, block) pair")
		fsOps := map[string][]string{
			"x/fixationstore/types.FixationStore.GetEntry":    {"x/plans/keeper.Keeper.GetPlan"},
			"x/fixationstore/types.FixationStore.PutEntry":    {"x/plans/keeper.Keeper.PutPlan"},
			"x/fixationstore/types.FixationStore.DelEntry":    {"x/plans/keeper.Keeper.DelPlan"},
			"x/fixationstore/types.FixationStore.AppendEntry": {"x/plans/keeper.Keeper.AddPlan"},
		}
		for op, allow := range fsOps {
			n := 0
			for _, f := range c.P.AllFuncs {
				if !inProd(f) {
					continue
				}
				for _, s := range c.CallsByName(f, false, op) {
					call := ir.CallOf(s.Instr)
					if !strings.HasSuffix(ir.Desc(call.Args[0]), ".plansFS") {
						continue
					}
					n++
					key := "C13c/plansFS." + op[strings.LastIndex(op, ".")+1:] + "/caller=" + topName(s.Fn)
					if nameIn(topName(s.Fn), allow) {
						c.OK(key, c.P.InstrPos(s.Instr), "via the plans keeper wrapper")
					} else {
						c.Fail(key, c.P.InstrPos(s.Instr), "plans fixation store reference count touched outside "+strings.Join(allow, ","))
					}
				}
			}
			if n == 0 {
				c.Undecided("no plansFS.%s call found", op)
			}
		}
		if gp := c.Fn(sk + "Keeper.GetPlanFromSubscription"); gp != nil {
			for _, s := range c.CallsByName(gp, true, findPlan) {
				a := argDescs(ir.CallOf(s.Instr))
				n := len(a)
				if strings.HasSuffix(a[n-2], ".PlanIndex") && strings.HasSuffix(a[n-1], ".PlanBlock") {
					c.OK("C13c/GetPlanFromSubscription/looks-up-persisted-ref", c.P.InstrPos(s.Instr), a[n-2]+","+a[n-1])
				} else {
					c.Fail("C13c/GetPlanFromSubscription/looks-up-persisted-ref", c.P.InstrPos(s.Instr), a[n-2]+","+a[n-1])
				}
			}
		}
		c.NotCovered("reference leaks (extra GetPlan on extension) — they keep versions alive longer and do not break the property; correctness of the fixation store's own reference counting (C14)")
	})
}

// escapesToCall: the address of the local is passed to a call (so a callee may persist it).
func escapesToCall(a *ssa.Alloc) bool {
	refs := a.Referrers()
	if refs == nil {
		return false
	}
	for _, r := range *refs {
		if _, ok := r.(ssa.CallInstruction); ok {
			return true
		}
		if _, ok := r.(*ssa.MakeClosure); ok {
			return true
		}
		if st, ok := r.(*ssa.Store); ok && st.Val == a {
			return true
		}
	}
	return false
}
