package rules

import (
	"strings"

	"golang.org/x/tools/go/ssa"

	"lavaverif/checker/ir"
)

func init() {
	register("C23", "other", func(c *Ctx) {
		c.Explain = "Delegation credit is a bounded time-weighted average — structural part (shape of the average): CalculateCredit returns (amount·amountHours + previousCredit·creditHours)/(creditHours + amountHours), a convex combination because both hour counts are assigned only under the earlier-before-later comparison of the two timestamps they are the difference of, and the denominator is their sum, tested against zero before the division; timestamps older than 30 days are clamped to 30 days ago (and an older delegation restarts with zero credit history); CalculateMonthlyCredit scales by hours/720 with the hours clamped to 720 and non-positive hours giving zero. The numeric bound itself is not decided."
		cc := c.Fn(dsK + "CalculateCredit")
		cm := c.Fn(dsK + "CalculateMonthlyCredit")
		if cc == nil || cm == nil {
			return
		}
		const D = 16
		c.Rule("C23a average: the non-zero return of CalculateCredit is NewCoin(denom, amount.MulRaw(amountDelta).Add(credit.MulRaw(creditDelta)).QuoRaw(totalDelta)) with totalDelta = creditDelta + amountDelta, returned only past totalDelta != 0")
		n := 0
		for _, r := range c.AllReturns(cc) {
			ret := r.Instr.(*ssa.Return)
			if ret.Block() == cc.Recover {
				continue
			}
			d := ir.DescN(RetVal(ret, 0), D)
			if !strings.Contains(d, "QuoRaw") {
				continue
			}
			n++
			call, _ := callOfValue(RetVal(ret, 0))
			var quo *ssa.Call
			if call != nil && len(call.Call.Args) == 2 {
				quo, _ = callOfValue(call.Call.Args[1])
			}
			ok := false
			why := ""
			if quo != nil && strings.HasSuffix(ir.CalleeName(&quo.Call), "Int.QuoRaw") {
				den := quo.Call.Args[1]
				add, _ := callOfValue(quo.Call.Args[0])
				if b, isBin := den.(*ssa.BinOp); isBin && b.Op.String() == "+" && add != nil && strings.HasSuffix(ir.CalleeName(&add.Call), "Int.Add") {
					m1, _ := callOfValue(add.Call.Args[0])
					m2, _ := callOfValue(add.Call.Args[1])
					if m1 != nil && m2 != nil && strings.HasSuffix(ir.CalleeName(&m1.Call), "Int.MulRaw") && strings.HasSuffix(ir.CalleeName(&m2.Call), "Int.MulRaw") {
						w1, w2 := m1.Call.Args[1], m2.Call.Args[1]
						if (w1 == b.X && w2 == b.Y) || (w1 == b.Y && w2 == b.X) {
							ok = true
						} else {
							why = "the weights multiplied are not the two terms of the denominator"
						}
					}
				}
			}
			denNonZero := false
			if quo != nil && len(quo.Call.Args) == 2 {
				denNonZero = ir.HasFact(ir.GuardFacts(ret), "("+ir.Desc(quo.Call.Args[1])+" != const(0))")
			}
			if ok && denNonZero {
				c.OK("C23a/CalculateCredit/weighted-average-with-weights-summing-to-denominator", c.P.InstrPos(ret), "convex combination of the current amount and the previous credit")
			} else {
				c.Fail("C23a/CalculateCredit/weighted-average-with-weights-summing-to-denominator", c.P.InstrPos(ret), "credit is "+trunc(d, 200)+" "+why)
			}
		}
		if n == 0 {
			c.Fail("C23a/CalculateCredit/weighted-average-with-weights-summing-to-denominator", c.P.Pos(cc.Pos()), "the credit is no longer computed as amount.MulRaw(hours).Add(credit.MulRaw(hours)).QuoRaw(total hours) on arbitrary-precision integers (native integer products of amounts and hours can wrap)")
		} else if n != 1 {
			c.Undecided("C23a: expected one averaged return in CalculateCredit, found %d", n)
		}

		c.Rule("C23d bookkeeping: Delegation.Credit and CreditTimestamp are assigned only in SetDelegation, from CalculateCredit of the delegation as stored before the change (GetDelegation of the same provider and delegator); the delegations collection is written only by SetDelegation (and genesis)")
		sd := c.Fn(dsK + "SetDelegation")
		for _, fld := range []string{"Credit", "CreditTimestamp"} {
			nw := 0
			for _, a := range c.fieldAccesses("x/dualstaking/types.Delegation." + fld) {
				if a.Kind != "write" || a.Fresh || !inProd(a.Fn) || strings.HasSuffix(c.P.InstrPos(a.Instr), ".pb.go") || strings.Contains(c.P.InstrPos(a.Instr), ".pb.go:") {
					continue
				}
				nw++
				if topName(a.Fn) == dsK+"SetDelegation" {
					v := ir.Desc(a.Instr.(*ssa.Store).Val)
					idx := map[string]string{"Credit": "#0", "CreditTimestamp": "#1"}[fld]
					if strings.HasPrefix(v, "call("+dsK+"CalculateCredit)(recv,param#0,call("+dsK+"GetDelegation)(recv,param#0,") && strings.HasSuffix(v, idx) {
						c.OK("C23d/SetDelegation/"+fld+"=CalculateCredit(stored-delegation)", c.P.InstrPos(a.Instr), "")
					} else {
						c.Fail("C23d/SetDelegation/"+fld+"=CalculateCredit(stored-delegation)", c.P.InstrPos(a.Instr), fld+" is set to "+trunc(v, 120))
					}
				} else {
					c.Fail("C23d/Delegation."+fld+"/written-only-by-SetDelegation", c.P.InstrPos(a.Instr), fld+" is also assigned in "+ir.FuncName(a.Fn)+": the credit no longer is the time average maintained by SetDelegation")
				}
			}
			if nw == 0 {
				c.Undecided("C23d: no production store to Delegation.%s found", fld)
			}
		}
		if sd != nil {
			nset := 0
			for _, f := range c.P.AllFuncs {
				if !inProd(f) || !strings.HasPrefix(ir.FuncName(f), "x/dualstaking/") {
					continue
				}
				ir.EachInstr(f, func(in ssa.Instruction) {
					call := ir.CallOf(in)
					if call == nil || !strings.HasPrefix(ir.CalleeName(call), "cosmossdk.io/collections.") || !strings.HasSuffix(ir.CalleeName(call), "Map.Set") {
						return
					}
					if len(call.Args) == 0 || !strings.HasSuffix(ir.Desc(call.Args[0]), ".delegations") {
						return
					}
					nset++
					tn := topName(f)
					if tn != dsK+"SetDelegation" && !strings.Contains(tn, "InitGenesis") && !strings.Contains(tn, "Migrat") {
						c.Fail("C23d/delegations.Set/only-in-SetDelegation", c.P.InstrPos(in), "the delegations collection is written directly in "+ir.FuncName(f)+", bypassing the credit update of SetDelegation")
					}
				})
			}
			if nset >= 2 {
				c.OK("C23d/delegations.Set/only-in-SetDelegation", c.P.Pos(sd.Pos()), itoa(nset)+" write sites, all in SetDelegation/genesis/migration")
			} else if nset == 0 {
				c.Undecided("C23d: no write to the delegations collection found")
			}
			// a delegation reaches SetDelegation only from the two functions that hand it either the entry read for
			// that very (provider, delegator) — whose stored credit is its own history — or a NewDelegation (no
			// credit): a copy of another pair's entry would carry a foreign credit history into a new pair
			c.RequireCallers("C23d", dsK+"SetDelegation", dsK+"ChangeDelegationTimestampForTesting", dsK+"increaseDelegation", dsK+"decreaseDelegation", dsK+"InitGenesis", "x/dualstaking.InitGenesis", "x/dualstaking/keeper.Migrator.MigrateVersion5To6", "x/dualstaking/keeper.Migrator.MigrateVersion6To7")
			for _, fnm := range []string{"increaseDelegation", "decreaseDelegation"} {
				f := c.P.Fn(dsK + fnm)
				if f == nil {
					continue
				}
				for _, s := range c.CallsByName(f, false, dsK+"SetDelegation") {
					a := ir.CallOf(s.Instr).Args
					src := allocOf(a[len(a)-1])
					okSrc := src != nil
					if src != nil && src.Referrers() != nil {
						for _, r := range *src.Referrers() {
							st, isSt := r.(*ssa.Store)
							if !isSt || st.Addr != ssa.Value(src) {
								continue
							}
							for _, leaf := range phiLeaves(st.Val) {
								d := ir.Desc(leaf)
								own := strings.HasPrefix(d, "call("+dsK+"GetDelegation)(recv,param#0,param#2,param#1)#0")
								fresh := strings.HasPrefix(d, "call(x/dualstaking/types.NewDelegation)(param#1,param#2,")
								if !own && !fresh {
									okSrc = false
								}
							}
						}
					}
					key := "C23d/" + fnm + "/stores-this-pair's-own-entry-or-a-new-one"
					if okSrc {
						c.OK(key, c.P.InstrPos(s.Instr), "GetDelegation(provider, delegator) of its own parameters, or NewDelegation")
					} else {
						c.Fail(key, c.P.InstrPos(s.Instr), fnm+" stores a delegation that is neither the entry read for its own (provider, delegator) nor a NewDelegation: a foreign credit history can be attached to this pair")
					}
				}
			}
		}

		c.Rule("C23b weights: each hour count in CalculateCredit is 0 or (later.Unix() − earlier.Unix())/3600 assigned under earlier.Before(later); timestamps are clamped to 30 days before the block time")
		nw := 0
		ir.EachInstr(cc, func(in ssa.Instruction) {
			b, ok := in.(*ssa.BinOp)
			if !ok || b.Op.String() != "/" || ir.Desc(b.Y) != "const(3600)" {
				return
			}
			sub, isSub := b.X.(*ssa.BinOp)
			if !isSub || sub.Op.String() != "-" {
				return
			}
			nw++
			later, _ := callOfValue(sub.X)
			earlier, _ := callOfValue(sub.Y)
			ok2 := false
			if later != nil && earlier != nil && ir.CalleeName(&later.Call) == "time.Time.Unix" && ir.CalleeName(&earlier.Call) == "time.Time.Unix" {
				for _, g := range ir.Guards(in) {
					v, edge := stripNot(g.If.Cond, g.Edge)
					if bc, _ := callOfValue(v); bc != nil && edge && ir.CalleeName(&bc.Call) == "time.Time.Before" {
						if ir.Desc(bc.Call.Args[0]) == ir.Desc(earlier.Call.Args[0]) && ir.Desc(bc.Call.Args[1]) == ir.Desc(later.Call.Args[0]) {
							ok2 = true
						}
					}
				}
			}
			if ok2 {
				c.OK("C23b/CalculateCredit/hours#"+itoa(nw)+"-non-negative", c.P.InstrPos(in), "assigned under earlier.Before(later)")
			} else {
				c.Fail("C23b/CalculateCredit/hours#"+itoa(nw)+"-non-negative", c.P.InstrPos(in), "an hour count can be negative (not guarded by earlier.Before(later) of its own two timestamps): the credit leaves the [min,max] range of its inputs")
			}
		})
		if nw != 2 {
			c.Undecided("C23b: expected two hour computations in CalculateCredit, found %d", nw)
		}
		okClamp := false
		for _, s := range c.CallsByName(cc, false, "time.Time.AddDate") {
			call := ir.CallOf(s.Instr)
			if ir.Desc(call.Args[1]) == "const(0)" && ir.Desc(call.Args[2]) == "const(0)" && ir.Desc(call.Args[3]) == "const(-30)" {
				okClamp = true
			}
		}
		if okClamp && len(c.CallsByName(cc, false, "time.Time.After")) >= 2 {
			c.OK("C23b/CalculateCredit/window=30-days", c.P.Pos(cc.Pos()), "older timestamps are replaced by now − 30 days")
		} else {
			c.Fail("C23b/CalculateCredit/window=30-days", c.P.Pos(cc.Pos()), "timestamps are no longer clamped to 30 days before the block time")
		}

		c.Rule("C23c monthly: CalculateMonthlyCredit returns credit·hours/720 with hours replaced by 720 when larger, and zero when hours <= 0 or the credit is nil/zero")
		okScale, okCap := false, false
		ir.EachInstr(cm, func(in ssa.Instruction) {
			call := ir.CallOf(in)
			if call == nil || !strings.HasSuffix(ir.CalleeName(call), "Int.QuoRaw") || ir.Desc(call.Args[1]) != "const(720)" {
				return
			}
			mul, _ := callOfValue(call.Args[0])
			if mul == nil || !strings.HasSuffix(ir.CalleeName(&mul.Call), "Int.MulRaw") {
				return
			}
			okScale = true
			if phi, isPhi := mul.Call.Args[1].(*ssa.Phi); isPhi {
				for i, e := range phi.Edges {
					if ir.Desc(e) == "const(720)" {
						for _, g := range guardsOfEdge(phi.Block().Preds[i], phi.Block()) {
							if strings.HasPrefix(g.Fact, "(const(720) < ") {
								okCap = true
							}
						}
					}
				}
			}
			if !ir.HasFact(ir.GuardFacts(in), "(const(0) < ") {
				okScale = false
			}
		})
		if okScale && okCap {
			c.OK("C23c/CalculateMonthlyCredit/credit·min(hours,720)/720", c.P.Pos(cm.Pos()), "hours > 0")
		} else {
			c.Fail("C23c/CalculateMonthlyCredit/credit·min(hours,720)/720", c.P.Pos(cm.Pos()), "the monthly credit is not credit·hours/720 with hours clamped to (0, 720]: it can exceed the credit or go negative")
		}
		c.Rule("C23e the credit used for rewards is the time-weighted one: in RewardProvidersAndDelegators every amount a delegation is given for the reward split is CalculateMonthlyCredit of that delegation — directly, or through a helper all of whose returns are CalculateMonthlyCredit of its delegation parameter; no path substitutes the raw amount or another estimate")
		if rpd := c.Fn("x/dualstaking/keeper.Keeper.RewardProvidersAndDelegators"); rpd != nil {
			const cmc = "x/dualstaking/keeper.Keeper.CalculateMonthlyCredit"
			var isCredit func(v ssa.Value, depth int) (bool, string)
			isCredit = func(v ssa.Value, depth int) (bool, string) {
				call, ok := unconv(v).(*ssa.Call)
				if !ok {
					return false, trunc(ir.Desc(v), 90)
				}
				callee := call.Call.StaticCallee()
				if callee == nil {
					return false, trunc(ir.Desc(v), 90)
				}
				if ir.FuncName(callee) == cmc {
					return true, ""
				}
				if depth <= 0 || callee.Blocks == nil || !inProd(callee) {
					return false, "the result of " + ir.FuncName(callee)
				}
				n := 0
				for _, r := range c.AllReturns(callee) {
					for _, leaf := range phiLeaves(RetVal(r.Instr.(*ssa.Return), 0)) {
						n++
						if ok, why := isCredit(leaf, depth-1); !ok {
							return false, ir.FuncName(callee) + " can return " + why
						}
					}
				}
				return n > 0, "the result of " + ir.FuncName(callee)
			}
			nSt := 0
			ir.EachInstr(rpd, func(in ssa.Instruction) {
				st, ok := in.(*ssa.Store)
				if !ok {
					return
				}
				fa, ok := st.Addr.(*ssa.FieldAddr)
				if !ok || ir.FieldKey(fa) != "x/dualstaking/types.Delegation.Amount" {
					return
				}
				nSt++
				key := "C23e/RewardProvidersAndDelegators/reward-amount=monthly-credit#" + itoa(nSt)
				if ok, why := isCredit(st.Val, 2); ok {
					c.OK(key, c.P.InstrPos(st), "CalculateMonthlyCredit of the delegation")
				} else {
					c.Fail(key, c.P.InstrPos(st), "a delegation enters the reward split with "+why+" instead of its CalculateMonthlyCredit: the 30-day time weighting of recent amount changes is bypassed on that path")
				}
			})
			if nSt < 2 {
				c.Fail("C23e/RewardProvidersAndDelegators/reward-amount=monthly-credit", c.P.Pos(rpd.Pos()), "expected the self delegation and every delegator's delegation to be re-weighted by their monthly credit before the split, found "+itoa(nSt)+" such assignment(s)")
			}
		}
		c.NotCovered("the numeric claims (never above the 30-day maximum, equal to the amount after 30 unchanged days, monotone while unchanged); how SetDelegation stores Credit/CreditTimestamp")
	})

	register("C24", "other", func(c *Ctx) {
		c.Explain = "Reputation pairing scores are bounded and order-preserving — structural part (decision table): setReputationPairingScoreByBenchmark rejects a negative benchmark and negative scores; the value stored for a provider is MaxReputationPairingScore under score == 0 ∨ score <= benchmark, and otherwise Min + (benchmark/score)·(Max − Min) under score > benchmark — so it is Max for the best scores and decreases with the score down to (but above) Min — and nothing else; it is stored for that same provider. The numeric bounds and the decay arithmetic are not decided."
		fn := c.Fn("x/pairing/keeper.Keeper.setReputationPairingScoreByBenchmark")
		if fn == nil {
			return
		}
		c.Rule("C24a table: the score handed to SetReputationScore is one of {Min (initial), Max under IsZero ∨ LTE(benchmark), Min.Add(benchmark.Quo(score).Mul(Max.Sub(Min))) under GT(benchmark)}, for providerScore.Provider; negative benchmark/score return errors before any store")
		sites := c.CallsByName(fn, false, "x/pairing/keeper.Keeper.SetReputationScore")
		if len(sites) != 1 {
			c.Undecided("C24a: expected one SetReputationScore call, found %d", len(sites))
			return
		}
		call := ir.CallOf(sites[0].Instr)
		minG, maxG := "global(x/pairing/types.MinReputationPairingScore)", "global(x/pairing/types.MaxReputationPairingScore)"
		leaves := phiLeaves(call.Args[5])
		okMax, okScaled, bad := false, false, ""
		for _, lf := range leaves {
			d := ir.DescN(lf, 12)
			switch {
			case d == minG:
			case d == maxG:
				okMax = true
			case strings.HasPrefix(d, "call(cosmossdk.io/math.LegacyDec.Add)("+minG+",call(cosmossdk.io/math.LegacyDec.Mul)(call(cosmossdk.io/math.LegacyDec.Quo)(param#3,") && strings.HasSuffix(d, "call(cosmossdk.io/math.LegacyDec.Sub)("+maxG+","+minG+")))"):
				if in, ok := lf.(ssa.Instruction); ok && ir.HasFact(ir.GuardFacts(in), "call(cosmossdk.io/math.LegacyDec.GT)(", ",param#3)") {
					okScaled = true
				}
			default:
				bad = d
			}
		}
		// Max edge condition
		okMaxCond := false
		if phi, isPhi := call.Args[5].(*ssa.Phi); isPhi {
			for i, e := range phi.Edges {
				if ir.Desc(e) != maxG {
					continue
				}
				p := phi.Block().Preds[i]
				// the block assigning Max is reached from IsZero true or LTE true
				blk := p
				okPreds := len(blk.Preds) > 0
				for _, pp := range blk.Preds {
					iff, isIf := pp.Instrs[len(pp.Instrs)-1].(*ssa.If)
					if !isIf {
						okPreds = false
						continue
					}
					f := ir.Fact(iff.Cond, pp.Succs[0] == blk)
					if !(strings.HasPrefix(f, "call(cosmossdk.io/math.LegacyDec.IsZero)(") || strings.HasPrefix(f, "call(cosmossdk.io/math.LegacyDec.LTE)(") && strings.HasSuffix(f, ",param#3)")) {
						okPreds = false
					}
				}
				okMaxCond = okPreds
			}
		}
		if okMax && okScaled && okMaxCond && bad == "" && len(leaves) == 3 {
			c.OK("C24a/setReputationPairingScoreByBenchmark/score∈{Max | Min+(benchmark/score)·(Max−Min)}", c.P.InstrPos(sites[0].Instr), "Max for score <= benchmark, decreasing in score above it")
		} else {
			c.Fail("C24a/setReputationPairingScoreByBenchmark/score∈{Max | Min+(benchmark/score)·(Max−Min)}", c.P.InstrPos(sites[0].Instr), "the stored pairing score is not given by the bounded, order-preserving table (unexpected: "+trunc(bad, 160)+")")
		}
		// every provider of the pass gets its score stored: no iteration path skips the store
		if loop := innermostLoop(fn, sites[0].Instr.Block()); loop != nil {
			store := sites[0].Instr.Block()
			skip := false
			for _, s := range loop.Header.Succs {
				if !loop.Blocks[s] {
					continue
				}
				reach := ir.Reachable(s, func(b *ssa.BasicBlock) bool { return b == store || !loop.Blocks[b] })
				if reach[loop.Header] && s != store {
					skip = true
				}
			}
			if skip {
				c.Fail("C24a/setReputationPairingScoreByBenchmark/every-scored-provider-is-stored", c.P.InstrPos(sites[0].Instr), "an iteration can continue without SetReputationScore: that provider keeps a pairing score from an earlier pass while its neighbours get fresh ones, so a better QoS score can end with the lower pairing score")
			} else {
				c.OK("C24a/setReputationPairingScoreByBenchmark/every-scored-provider-is-stored", c.P.InstrPos(sites[0].Instr), "the only ways out of an iteration are the store or an error return")
			}
		} else {
			c.Fail("C24a/setReputationPairingScoreByBenchmark/every-scored-provider-is-stored", c.P.InstrPos(sites[0].Instr), "scores are not stored in the loop over the scored providers")
		}
		if strings.HasSuffix(ir.Desc(call.Args[4]), ".Provider") {
			c.OK("C24a/setReputationPairingScoreByBenchmark/stored-for-the-scored-provider", c.P.InstrPos(sites[0].Instr), "")
		} else {
			c.Fail("C24a/setReputationPairingScoreByBenchmark/stored-for-the-scored-provider", c.P.InstrPos(sites[0].Instr), "score stored for "+trunc(ir.Desc(call.Args[4]), 60))
		}
		c.RequireGuards("C24a", sites, "SetReputationScore",
			FactHas("benchmark-non-negative", "!call(cosmossdk.io/math.LegacyDec.IsNegative)(param#3)"),
			FactHas("score-non-negative", "!call(cosmossdk.io/math.LegacyDec.IsNegative)(call(x/pairing/types.Frac.Resolve)("))
		c.Rule("C24c decay applies to the past only: in Reputation.ApplyTimeDecayAndUpdateScore each of the four stored fractions (score and variance, numerator and denominator) becomes old·decay + this epoch's, i.e. Add(Mul(old, decay), epoch) — directly or through a helper all of whose returns have that shape; decaying the sum instead zeroes the fresh epoch score when the decay factor underflows to 0, which leaves a zero denominator (an invalid reputation)")
		if ad := c.Fn("x/pairing/types.Reputation.ApplyTimeDecayAndUpdateScore"); ad != nil {
			const addP = "call(cosmossdk.io/math.LegacyDec.Add)(call(cosmossdk.io/math.LegacyDec.Mul)("
			var shape func(v ssa.Value, depth int) (bool, string)
			shape = func(v ssa.Value, depth int) (bool, string) {
				d := ir.DescN(unconv(v), 8)
				if strings.HasPrefix(d, addP) {
					return true, ""
				}
				call, ok := unconv(v).(*ssa.Call)
				if !ok || depth <= 0 {
					return false, trunc(d, 100)
				}
				callee := call.Call.StaticCallee()
				if callee == nil || callee.Blocks == nil || !inProd(callee) {
					return false, trunc(d, 100)
				}
				n := 0
				for _, r := range c.AllReturns(callee) {
					for _, leaf := range phiLeaves(RetVal(r.Instr.(*ssa.Return), 0)) {
						n++
						if ok, why := shape(leaf, depth-1); !ok {
							return false, ir.FuncName(callee) + " returns " + why
						}
					}
				}
				return n > 0, ir.FuncName(callee)
			}
			nSt := 0
			// the updates are either written inline or built by a helper of the same package that returns the new fraction
			scan := []*ssa.Function{ad}
			ir.EachInstr(ad, func(in ssa.Instruction) {
				if call := ir.CallOf(in); call != nil {
					if callee := call.StaticCallee(); callee != nil && callee.Blocks != nil && inProd(callee) && strings.HasPrefix(ir.FuncName(callee), "x/pairing/types.") && strings.HasSuffix(callee.Signature.Results().String(), "types.Frac)") {
						scan = append(scan, callee, callee) // a fraction helper stands for a numerator and a denominator update per use
					}
				}
			})
			seenFn := map[*ssa.Function]bool{}
			for _, f := range scan {
				weight := 1
				if seenFn[f] {
					continue
				}
				seenFn[f] = true
				if f != ad {
					weight = 2
				}
				ir.EachInstr(f, func(in ssa.Instruction) {
					st, ok := in.(*ssa.Store)
					if !ok {
						return
					}
					fa, ok := st.Addr.(*ssa.FieldAddr)
					if !ok {
						return
					}
					k := ir.FieldKey(fa)
					if k != "x/pairing/types.Frac.Num" && k != "x/pairing/types.Frac.Denom" {
						return
					}
					nSt += weight
					key := "C24c/" + f.Name() + "/old·decay+epoch#" + itoa(nSt)
					if ok, why := shape(st.Val, 1); ok {
						c.OK(key, c.P.InstrPos(st), "Add(Mul(old, decay), epoch)")
					} else {
						c.Fail(key, c.P.InstrPos(st), "a reputation fraction is updated to "+why+", not old·decay + this epoch's: the fresh epoch score is decayed as well, and a decay factor of 0 leaves a zero denominator")
					}
				})
			}
			if nSt != 4 {
				c.Undecided("C24c: expected the four fraction updates in ApplyTimeDecayAndUpdateScore, found %d", nSt)
			}
		}
		c.Rule("C24b the table's value is what gets stored, for everyone updated: SetReputationScore appends its score parameter to the pairing-score store on every successful return (no 'unchanged enough' skip: that compares a provider with its own past, not with its peers); in UpdateReputationsForEpochStart every reputation that is stored at this epoch start (SetReputation) is also entered into the per-chain-and-cluster scores collection before the next one is read, so that it is re-scored against the same benchmark as its peers")
		const pk = "x/pairing/keeper.Keeper."
		if srs := c.Fn(pk + "SetReputationScore"); srs != nil {
			isAppend := func(in ssa.Instruction) bool {
				call := ir.CallOf(in)
				if call == nil || !strings.HasSuffix(ir.CalleeName(call), "fixationstore/types.FixationStore.AppendEntry") {
					return false
				}
				// the appended value is built from the score parameter
				last := call.Args[len(call.Args)-1]
				if mi, ok := last.(*ssa.MakeInterface); ok {
					last = mi.X
				}
				if a := allocOf(last); a != nil {
					if v, ok := structFieldStores(a)["Score"]; ok && len(srs.Params) == 6 && v == ssa.Value(srs.Params[5]) {
						return true
					}
				}
				return false
			}
			r := c.MustPass(srs, nil, isAppend, func(ret *ssa.Return) bool { return !IsFailureReturn(ret) })
			if r.OK {
				c.OK("C24b/SetReputationScore/always-appends-the-given-score", c.P.Pos(srs.Pos()), "every successful return passes reputationsFS.AppendEntry of {Score: score}")
			} else {
				c.Fail("C24b/SetReputationScore/always-appends-the-given-score", c.P.Pos(srs.Pos()), "SetReputationScore can return successfully without storing the score it was given ("+r.Witness+"): the provider keeps a stale pairing score while its peers get fresh ones, which can invert their order")
			}
		}
		if ur := c.Fn(pk + "UpdateReputationsForEpochStart"); ur != nil {
			sets := c.CallsByName(ur, false, pk+"SetReputation")
			if len(sets) != 1 {
				c.Undecided("C24b: expected one SetReputation call in UpdateReputationsForEpochStart, found %d", len(sets))
			} else {
				set := sets[0].Instr
				loop := innermostLoop(ur, set.Block())
				var scoresMap ssa.Value
				ir.EachInstr(ur, func(in ssa.Instruction) {
					if mm, ok := in.(*ssa.MakeMap); ok && strings.Contains(mm.Type().String(), "ReputationChainClusterKey") {
						scoresMap = mm
					}
				})
				if loop == nil || scoresMap == nil {
					c.Undecided("C24b: the reputations loop or the scores map was not found in UpdateReputationsForEpochStart")
				} else {
					records := func(in ssa.Instruction) bool {
						mu, ok := in.(*ssa.MapUpdate)
						return ok && mu.Map == scoresMap
					}
					seen := map[*ssa.BasicBlock]bool{}
					var escape ssa.Instruction
					var walk func(b *ssa.BasicBlock, from int)
					walk = func(b *ssa.BasicBlock, from int) {
						if escape != nil {
							return
						}
						for i := from; i < len(b.Instrs); i++ {
							if records(b.Instrs[i]) {
								return
							}
							if ret, ok := b.Instrs[i].(*ssa.Return); ok {
								if !IsFailureReturn(ret) {
									escape = ret
								}
								return
							}
						}
						for _, s := range b.Succs {
							if s == loop.Header {
								escape = b.Instrs[len(b.Instrs)-1]
								return
							}
							if !seen[s] {
								seen[s] = true
								walk(s, 0)
							}
						}
					}
					idx := 0
					for i, in := range set.Block().Instrs {
						if in == set {
							idx = i + 1
						}
					}
					walk(set.Block(), idx)
					if escape == nil {
						c.OK("C24b/UpdateReputationsForEpochStart/stored=>entered-into-scores", c.P.InstrPos(set), "every path from SetReputation to the next iteration passes scores[chain,cluster] = …")
					} else {
						c.Fail("C24b/UpdateReputationsForEpochStart/stored=>entered-into-scores", c.P.InstrPos(escape), "a reputation can be stored for this epoch start and the loop go on (or the function return) without entering it into the scores collection: its pairing score is not recomputed against this epoch's benchmark while its peers' are")
					}
				}
			}
		}
		c.NotCovered("numeric bounds of the stored value; order preservation across the benchmark computation; time decay keeping reputations valid")
	})
}
