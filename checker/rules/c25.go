package rules

import (
	"go/token"
	"go/types"
	"sort"
	"strings"

	"golang.org/x/tools/go/ssa"

	"lavaverif/checker/ir"
)

const pt = "x/pairing/types."

func init() {
	register("C25", "other", func(c *Ctx) {
		c.Explain = "Relay signatures bind every signed field — structural part: signing/verification code is pure (it never writes through memory shared with the object it is given); the session's signed bytes are the rendering of the whole message with exactly {Sig, Badge} cleared, so every other field is bound; the exchange's signed bytes are built from the reply data, the whole request data with exactly {Salt} cleared, and every reply metadata entry; the verification helpers recover the key from the same DataToSign/GetSignature pair that signing uses; the byte encoding of the exchange must be uniquely decodable."
		c.Rule("C25a purity: DataToSign / GetSignature / HashRounds of every sigs.Signable implementation, and sigs.Sign, ExtractSignerAddress, RecoverPubKey, lavaprotocol.VerifyRelayReply and SignRelayResponse's signing step contain no store through memory reachable from their receiver or parameters")
		var impls []string
		for _, f := range c.P.AllFuncs {
			if f.Parent() != nil || !inProd(f) || f.Signature.Recv() == nil {
				continue
			}
			if f.Name() == "DataToSign" && f.Signature.Params().Len() == 0 && f.Signature.Results().Len() == 1 {
				impls = append(impls, ir.FuncName(f))
			}
		}
		sort.Strings(impls)
		if len(impls) < 5 {
			c.Undecided("expected at least 5 Signable implementations (DataToSign), found %d", len(impls))
		}
		for _, n := range impls {
			c.RequirePure("C25a", n)
			base := strings.TrimSuffix(n, ".DataToSign")
			for _, m := range []string{".GetSignature", ".HashRounds"} {
				if c.P.Fn(base+m) != nil {
					c.RequirePure("C25a", base+m)
				}
			}
		}
		c.RequirePure("C25a", "utils/sigs.Sign", "utils/sigs.ExtractSignerAddress", "utils/sigs.RecoverPubKey", "protocol/lavaprotocol.VerifyRelayReply")

		c.Rule("C25b coverage: RelaySession.DataToSign clears exactly the fields {Sig, Badge} of its own copy and returns the rendering (String()) of the whole message; RelayExchange.DataToSign clears exactly {Reply.Sig, RelayData.Salt} and joins reply data, the rendering of the whole request data, and all reply metadata")
		cleared := func(fn *ssa.Function) []string {
			var out []string
			ir.EachInstr(fn, func(in ssa.Instruction) {
				if st, ok := in.(*ssa.Store); ok && isNilConst(st.Val) {
					if fa, ok := st.Addr.(*ssa.FieldAddr); ok {
						out = append(out, ir.FieldKey(fa))
					}
				}
			})
			sort.Strings(out)
			return out
		}
		if f := c.Fn(pt + "RelaySession.DataToSign"); f != nil {
			got := strings.Join(cleared(f), ",")
			want := pt + "RelaySession.Badge," + pt + "RelaySession.Sig"
			if got == want {
				c.OK("C25b/RelaySession.DataToSign/cleared={Badge,Sig}", c.P.Pos(f.Pos()), got)
			} else {
				c.Fail("C25b/RelaySession.DataToSign/cleared={Badge,Sig}", c.P.Pos(f.Pos()), "fields excluded from the consumer's signature are {"+got+"}, expected exactly {Badge, Sig}: a field left out can be changed without invalidating the signature")
			}
			okStr := false
			for _, r := range c.AllReturns(f) {
				d := ir.Desc(RetVal(r.Instr.(*ssa.Return), 0))
				if strings.Contains(d, "call("+pt+"RelaySession.String)(") {
					okStr = true
				}
			}
			if okStr {
				c.OK("C25b/RelaySession.DataToSign/signs-whole-message-rendering", c.P.Pos(f.Pos()), "[]byte(rs.String())")
			} else {
				c.Fail("C25b/RelaySession.DataToSign/signs-whole-message-rendering", c.P.Pos(f.Pos()), "signed bytes are not the rendering of the whole session message")
			}
		}
		if f := c.Fn(pt + "RelayExchange.DataToSign"); f != nil {
			got := strings.Join(cleared(f), ",")
			want := pt + "RelayPrivateData.Salt," + pt + "RelayReply.Sig"
			if got == want {
				c.OK("C25b/RelayExchange.DataToSign/cleared={Reply.Sig,RelayData.Salt}", c.P.Pos(f.Pos()), got)
			} else {
				c.Fail("C25b/RelayExchange.DataToSign/cleared={Reply.Sig,RelayData.Salt}", c.P.Pos(f.Pos()), "fields excluded from the provider's signature are {"+got+"}, expected exactly {Reply.Sig, RelayData.Salt}")
			}
			parts, _ := joinParts(f)
			ds := ""
			for _, p := range parts {
				ds += p.Desc + " | "
			}
			if len(parts) == 3 && strings.Contains(ds, "RelayReply.GetData)") && strings.Contains(ds, "RelayPrivateData.String)") && strings.Contains(ds, "phi{") {
				c.OK("C25b/RelayExchange.DataToSign/parts=reply-data,request-data,metadata", c.P.Pos(f.Pos()), "three parts")
			} else {
				c.Fail("C25b/RelayExchange.DataToSign/parts=reply-data,request-data,metadata", c.P.Pos(f.Pos()), "signed bytes no longer consist of reply data, the whole request data and the reply metadata: "+trunc(ds, 240))
			}
			// every metadata entry is appended
			if n := len(c.CallsByName(f, false, pt+"Metadata.Marshal")); n == 1 {
				c.OK("C25b/RelayExchange.DataToSign/all-metadata-entries", c.P.Pos(f.Pos()), "Marshal of each entry in the loop over Reply.GetMetadata()")
			} else {
				c.Fail("C25b/RelayExchange.DataToSign/all-metadata-entries", c.P.Pos(f.Pos()), "reply metadata entries are not all serialised into the signed bytes")
			}
		}

		c.Rule("C25c same bytes for signing and verifying: sigs.Sign and sigs.RecoverPubKey both hash data.DataToSign() data.HashRounds() times and use data.GetSignature() only for recovery; ExtractSignerAddress derives the address from RecoverPubKey")
		for _, n := range []string{"utils/sigs.Sign", "utils/sigs.RecoverPubKey"} {
			f := c.Fn(n)
			if f == nil {
				continue
			}
			d2s := len(c.CallsByName(f, true, "invoke:utils/sigs.Signable.DataToSign"))
			hr := len(c.CallsByName(f, true, "invoke:utils/sigs.Signable.HashRounds"))
			if d2s == 1 && hr == 1 {
				c.OK("C25c/"+n+"/hashes-DataToSign-HashRounds-times", c.P.Pos(f.Pos()), "one DataToSign, one HashRounds")
			} else {
				c.Fail("C25c/"+n+"/hashes-DataToSign-HashRounds-times", c.P.Pos(f.Pos()), "signing and verification no longer derive the digest the same way")
			}
		}
		if f := c.Fn("utils/sigs.ExtractSignerAddress"); f != nil {
			c.RequireGuards("C25c", c.SuccessReturns(f), "return-address", ErrNil("utils/sigs.RecoverPubKey"))
		}

		c.Rule("C25d encoding: the provider-signed bytes (reply data ‖ request data rendering ‖ metadata) must be uniquely decodable")
		c.RequireInjectiveConcat("C25d", pt+"RelayExchange.DataToSign", 3)
		c.Rule("C25e no shortcut around recovery: the address the provider attributes a relay session to is, on every success return of RPCProviderServer.ExtractConsumerAddress, the first result of sigs.ExtractSignerAddress applied to that very session (a result remembered under the signature alone no longer binds the signed fields)")
		if f := c.Fn("protocol/rpcprovider.RPCProviderServer.ExtractConsumerAddress"); f != nil {
			const esa = "utils/sigs.ExtractSignerAddress"
			ok, why := true, ""
			n := 0
			for _, s := range c.SuccessReturns(f) {
				n++
				ret := s.Instr.(*ssa.Return)
				for _, leaf := range phiLeaves(RetVal(ret, 0)) {
					d := ir.Desc(unconv(leaf))
					if !(strings.HasPrefix(d, "call("+esa+")(") && strings.HasSuffix(d, "#0")) {
						ok, why = false, "returns "+trunc(d, 120)+" as the consumer address"
					}
				}
			}
			for _, s := range c.CallsByName(f, false, esa) {
				a := ir.CallOf(s.Instr).Args[0]
				if mi, isMI := a.(*ssa.MakeInterface); isMI {
					a = mi.X
				}
				if len(f.Params) != 3 || a != ssa.Value(f.Params[2]) {
					ok, why = false, "recovers the signer of "+trunc(ir.Desc(a), 100)+", not of the session it was given"
				}
			}
			if n == 0 {
				c.Undecided("C25e: ExtractConsumerAddress has no success return")
			} else if ok {
				c.OK("C25e/ExtractConsumerAddress/address=ExtractSignerAddress(session)", c.P.Pos(f.Pos()), "every success return yields the recovery result for param#2")
			} else {
				c.Fail("C25e/ExtractConsumerAddress/address=ExtractSignerAddress(session)", c.P.Pos(f.Pos()), why)
			}
		}
		c.Rule("C25f every verification recovers: each successful return of sigs.RecoverPubKey has passed the RecoverCompact call over this object's signature and the hash of this object's DataToSign, and the returned key is that call's result (a key remembered under the signature bytes alone is returned for any object carrying those bytes)")
		if rp := c.Fn("utils/sigs.RecoverPubKey"); rp != nil {
			isRecover := func(in ssa.Instruction) bool {
				call := ir.CallOf(in)
				if call == nil || !strings.HasSuffix(ir.CalleeName(call), "ecdsa.RecoverCompact") || len(call.Args) != 2 {
					return false
				}
				sig, msg := ir.Desc(call.Args[0]), ir.DescN(call.Args[1], 8)
				return strings.HasPrefix(sig, "invoke(utils/sigs.Signable.GetSignature)(param#0") && strings.Contains(msg, "invoke(utils/sigs.Signable.DataToSign)(param#0")
			}
			r := c.MustPass(rp, nil, isRecover, func(ret *ssa.Return) bool { return !IsFailureReturn(ret) })
			keyOK := true
			for _, s := range c.SuccessReturns(rp) {
				for _, leaf := range phiLeaves(RetVal(s.Instr.(*ssa.Return), 0)) {
					a := allocOf(leaf)
					if a == nil {
						keyOK = false
						continue
					}
					v, has := structFieldStores(a)["Key"]
					if !has || !strings.Contains(ir.DescN(v, 8), "ecdsa.RecoverCompact)(") {
						keyOK = false
					}
				}
			}
			if r.OK && keyOK {
				c.OK("C25f/RecoverPubKey/success=>recovered-from-this-object", c.P.Pos(rp.Pos()), "RecoverCompact(GetSignature(), hash^n(DataToSign())) on every successful path; returned key is its result")
			} else {
				c.Fail("C25f/RecoverPubKey/success=>recovered-from-this-object", c.P.Pos(rp.Pos()), "RecoverPubKey can succeed without recovering the key from this object's signature over this object's signed bytes ("+r.Witness+"): a signature no longer binds the fields it was made over")
			}
		}
		c.NotCovered("the iff at the cryptographic level (secp256k1 recovery, sha256); proto text rendering is assumed injective on messages")
	})

	register("C26", "other", func(c *Ctx) {
		c.Explain = "Content hashes identify relay requests unambiguously — structural part: GetContentHashData reads every field the property lists (data, URL, connection type, API interface, add-on, extensions, metadata, requested block, seen block, salt); the provider compares the hash of exactly these bytes with the signed ContentHash (C39a); the byte encoding must be uniquely decodable, otherwise two different requests share a hash."
		f := c.Fn(pt + "RelayPrivateData.GetContentHashData")
		if f == nil {
			return
		}
		c.Rule("C26a coverage: GetContentHashData reads each of the fields ConnectionType, ApiUrl, Data, RequestBlock, ApiInterface, Salt, Metadata, Addon, Extensions, SeenBlock of the request data")
		read := map[string]bool{}
		ir.EachInstr(f, func(in ssa.Instruction) {
			switch x := in.(type) {
			case *ssa.FieldAddr:
				if strings.HasPrefix(ir.FieldKey(x), pt+"RelayPrivateData.") {
					read[strings.TrimPrefix(ir.FieldKey(x), pt+"RelayPrivateData.")] = true
				}
			case *ssa.Field:
				if strings.HasPrefix(ir.FieldKey(x), pt+"RelayPrivateData.") {
					read[strings.TrimPrefix(ir.FieldKey(x), pt+"RelayPrivateData.")] = true
				}
			}
		})
		for _, fld := range []string{"ConnectionType", "ApiUrl", "Data", "RequestBlock", "ApiInterface", "Salt", "Metadata", "Addon", "Extensions", "SeenBlock"} {
			if read[fld] {
				c.OK("C26a/GetContentHashData/covers="+fld, c.P.Pos(f.Pos()), "field is part of the hashed bytes")
			} else {
				c.Fail("C26a/GetContentHashData/covers="+fld, c.P.Pos(f.Pos()), "request field "+fld+" is not covered by the content hash: it can be changed under a signed session")
			}
		}
		// both metadata name and value are read
		mdRead := map[string]bool{}
		ir.EachInstr(f, func(in ssa.Instruction) {
			switch x := in.(type) {
			case *ssa.FieldAddr:
				mdRead[ir.FieldKey(x)] = true
			case *ssa.Field:
				mdRead[ir.FieldKey(x)] = true
			}
		})
		mdOK := mdRead[pt+"Metadata.Name"] && mdRead[pt+"Metadata.Value"]
		if mdOK {
			c.OK("C26a/GetContentHashData/metadata-name-and-value", c.P.Pos(f.Pos()), "Name+Value of each entry")
		} else {
			c.Fail("C26a/GetContentHashData/metadata-name-and-value", c.P.Pos(f.Pos()), "metadata entries are not hashed by name and value")
		}
		c.Rule("C26e block numbers enter the hash injectively: between the read of RequestBlock / SeenBlock and the hashed bytes there is nothing but same-width integer conversions (a bijection, also on the negative symbolic values LATEST, EARLIEST, …) and the fixed-width encoder sigs.EncodeUint64; a clamp, mask or any other function in between merges distinct requests")
		for _, fld := range []string{"RequestBlock", "SeenBlock"} {
			var starts []ssa.Value
			ir.EachInstr(f, func(in ssa.Instruction) {
				switch x := in.(type) {
				case *ssa.FieldAddr:
					if ir.FieldKey(x) == pt+"RelayPrivateData."+fld && x.Referrers() != nil {
						for _, r := range *x.Referrers() {
							if ld, ok := r.(*ssa.UnOp); ok && ld.Op == token.MUL {
								starts = append(starts, ld)
							}
						}
					}
				case *ssa.Field:
					if ir.FieldKey(x) == pt+"RelayPrivateData."+fld {
						starts = append(starts, x)
					}
				}
			})
			if len(starts) == 0 {
				continue // C26a reports the missing field
			}
			bad, encoded := "", false
			seen := map[ssa.Value]bool{}
			var walk func(v ssa.Value)
			walk = func(v ssa.Value) {
				if seen[v] || v.Referrers() == nil {
					return
				}
				seen[v] = true
				for _, r := range *v.Referrers() {
					switch u := r.(type) {
					case *ssa.Convert:
						from, ok1 := u.X.Type().Underlying().(*types.Basic)
						to, ok2 := u.Type().Underlying().(*types.Basic)
						if ok1 && ok2 && from.Info()&types.IsInteger != 0 && to.Info()&types.IsInteger != 0 && types.SizesFor("gc", "amd64").Sizeof(from) == types.SizesFor("gc", "amd64").Sizeof(to) {
							walk(u)
						} else {
							bad = "a width- or kind-changing conversion " + u.X.Type().String() + "→" + u.Type().String()
						}
					case *ssa.ChangeType:
						walk(u)
					case *ssa.DebugRef:
					case ssa.CallInstruction:
						if n := ir.CalleeName(u.Common()); n == "utils/sigs.EncodeUint64" {
							encoded = true
						} else {
							bad = "a call to " + n
						}
					default:
						bad = "the instruction " + trunc(r.String(), 80)
					}
				}
			}
			for _, s := range starts {
				walk(s)
			}
			key := "C26e/GetContentHashData/" + fld + "-encoded-injectively"
			switch {
			case bad != "":
				c.Fail(key, c.P.Pos(f.Pos()), fld+" passes through "+bad+" before it is hashed: distinct block numbers (the negative symbolic ones included) may hash alike")
			case !encoded:
				c.Fail(key, c.P.Pos(f.Pos()), fld+" is read but never reaches sigs.EncodeUint64")
			default:
				c.OK(key, c.P.Pos(f.Pos()), "field → same-width integer conversion → sigs.EncodeUint64")
			}
		}
		c.Rule("C26b consumer side: the request builder fills ContentHash with HashMsg(GetContentHashData()) of the same request data it sends")
		nb := 0
		for _, fn := range c.P.AllFuncs {
			if !strings.HasPrefix(ir.FuncName(fn), "protocol/lavaprotocol.") {
				continue
			}
			for _, s := range c.CallsByName(fn, false, pt+"RelayPrivateData.GetContentHashData") {
				nb++
				// the result feeds sigs.HashMsg
				ok := false
				if refs := s.Instr.(*ssa.Call).Referrers(); refs != nil {
					for _, r := range *refs {
						if call, isCall := r.(*ssa.Call); isCall && ir.CalleeName(&call.Call) == "utils/sigs.HashMsg" {
							ok = true
						}
					}
				}
				if ok {
					c.OK("C26b/"+ir.FuncName(fn)+"/content-hash=HashMsg(GetContentHashData)", c.P.InstrPos(s.Instr), "consumer-side hash of the request data")
				} else {
					c.Fail("C26b/"+ir.FuncName(fn)+"/content-hash=HashMsg(GetContentHashData)", c.P.InstrPos(s.Instr), "content hash data is not hashed with HashMsg")
				}
			}
		}
		if nb == 0 {
			c.Undecided("no consumer-side use of GetContentHashData found in protocol/lavaprotocol")
		}
		c.Rule("C26d provider side: verifyRelayRequestMetaData returns nil only past bytes.Equal(session.ContentHash, HashMsg(relayData.GetContentHashData())) on the request's own data")
		if meta := c.Fn("protocol/rpcprovider.RPCProviderServer.verifyRelayRequestMetaData"); meta != nil {
			c.RequireGuards("C26d", c.SuccessReturns(meta), "return-nil",
				FactPrefix("content-hash", "call(bytes.Equal)(", "param#1.ContentHash", "call(utils/sigs.HashMsg)(call(x/pairing/types.RelayPrivateData.GetContentHashData)(param#2))"))
		}
		c.Rule("C26c encoding: the hashed bytes must be uniquely decodable")
		c.RequireInjectiveConcat("C26c", pt+"RelayPrivateData.GetContentHashData", 8)
		c.NotCovered("collision resistance of the hash function")
	})
}
