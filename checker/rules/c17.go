package rules

import (
	"strings"

	"golang.org/x/tools/go/ssa"

	"lavaverif/checker/ir"
)

const prk = "x/projects/keeper."

func init() {
	register("C17", "other", func(c *Ctx) {
		c.Explain = "Developer keys map to one project and usage is charged once — structural part: the developer-key index is written only by registerKey/unregisterKey; a key is indexed only after a lookup showed it is free, and kept only for the same project; it is removed only after the lookup showed it belongs to the project it is removed from; a deleted project unregisters all its keys; each accepted relay charges project, subscription and tracked CU exactly once (C04f), and the project charge writes every version of the current snapshot."
		reg := c.Fn(prk + "Keeper.registerKey")
		unreg := c.Fn(prk + "Keeper.unregisterKey")
		del := c.Fn(prk + "Keeper.DeleteProject")
		chg := c.Fn(prk + "Keeper.ChargeComputeUnitsToProject")
		if reg == nil || unreg == nil || del == nil || chg == nil {
			return
		}
		fsOp := func(fn *ssa.Function, op string) []Site {
			var out []Site
			for _, s := range c.CallsByName(fn, true, "x/fixationstore/types.FixationStore."+op) {
				if strings.HasSuffix(ir.Desc(ir.CallOf(s.Instr).Args[0]), ".developerKeysFS") {
					out = append(out, s)
				}
			}
			return out
		}
		c.Rule("C17a who-may-write: developerKeysFS.AppendEntry only in registerKey, developerKeysFS.DelEntry only in unregisterKey (genesis import aside)")
		for _, f := range c.P.AllFuncs {
			if !inProd(f) || f.Parent() != nil {
				continue
			}
			tn := ir.FuncName(f)
			for _, s := range fsOp(f, "AppendEntry") {
				if tn == prk+"Keeper.registerKey" {
					c.OK("C17a/developerKeysFS.AppendEntry/writer="+tn, c.P.InstrPos(s.Instr), "registerKey")
				} else {
					c.Fail("C17a/developerKeysFS.AppendEntry/writer="+tn, c.P.InstrPos(s.Instr), "developer key indexed outside registerKey")
				}
			}
			for _, s := range fsOp(f, "DelEntry") {
				if tn == prk+"Keeper.unregisterKey" {
					c.OK("C17a/developerKeysFS.DelEntry/writer="+tn, c.P.InstrPos(s.Instr), "unregisterKey")
				} else {
					c.Fail("C17a/developerKeysFS.DelEntry/writer="+tn, c.P.InstrPos(s.Instr), "developer key un-indexed outside unregisterKey")
				}
			}
			for _, s := range fsOp(f, "ModifyEntry") {
				c.Fail("C17a/developerKeysFS.ModifyEntry/writer="+tn, c.P.InstrPos(s.Instr), "a developer key's project is rewritten in place")
			}
		}
		c.RequireCallers("C17a", prk+"Keeper.registerKey", prk+"Keeper.AddKeysToProject", prk+"Keeper.CreateProject")
		c.RequireCallers("C17a", prk+"Keeper.unregisterKey", prk+"Keeper.DelKeysFromProject", prk+"Keeper.DeleteProject")

		c.Rule("C17b one project per key: in registerKey the index append is dominated by the not-found outcome of developerKeysFS.FindEntry(key, epoch) and the project's key list gets the developer key only past the false outcome of found && ProjectID != project.Index; the appended record carries the registering project's index")
		apps := fsOp(reg, "AppendEntry")
		finds := fsOp(reg, "FindEntry")
		if len(apps) != 1 || len(finds) != 1 {
			c.Fail("C17b/registerKey/shape", c.P.Pos(reg.Pos()), "expected one lookup and one append on developerKeysFS")
		} else {
			c.RequireGuards("C17b", apps, "developerKeysFS.AppendEntry", CallIs(false, "x/fixationstore/types.FixationStore.FindEntry"))
			fa, aa := argDescs(ir.CallOf(finds[0].Instr)), argDescs(ir.CallOf(apps[0].Instr))
			if fa[2] == aa[2] && fa[3] == aa[3] && fa[2] == "param#1.Key" && fa[3] == "param#3" {
				c.OK("C17b/registerKey/lookup-and-append-same-key-and-epoch", c.P.InstrPos(apps[0].Instr), fa[2]+","+fa[3])
			} else {
				c.Fail("C17b/registerKey/lookup-and-append-same-key-and-epoch", c.P.InstrPos(apps[0].Instr), "lookup("+fa[2]+","+fa[3]+") vs append("+aa[2]+","+aa[3]+")")
			}
			// record content: ProjectID := project.GetIndex()
			okPid := false
			ir.EachInstr(reg, func(in ssa.Instruction) {
				if st, ok := in.(*ssa.Store); ok {
					if f, ok := st.Addr.(*ssa.FieldAddr); ok && ir.FieldKey(f) == "x/projects/types.ProtoDeveloperData.ProjectID" {
						if strings.Contains(ir.Desc(st.Val), "Project.GetIndex)(param#2)") || strings.HasSuffix(ir.Desc(st.Val), "param#2.Index") {
							okPid = true
						}
					}
				}
			})
			if okPid {
				c.OK("C17b/registerKey/record=registering-project", c.P.InstrPos(apps[0].Instr), "ProjectID = project.Index")
			} else {
				c.Fail("C17b/registerKey/record=registering-project", c.P.InstrPos(apps[0].Instr), "the key index record does not carry the registering project's id")
			}
			// the developer key is added to the project only when free or already this project's
			var devAppends []Site
			for _, s := range c.CallsByName(reg, false, "x/projects/types.Project.AppendKey") {
				if strings.Contains(strings.Join(argDescs(ir.CallOf(s.Instr)), ","), "ProjectDeveloperKey") {
					devAppends = append(devAppends, s)
				}
			}
			if len(devAppends) != 1 {
				c.Fail("C17b/registerKey/one-developer-key-append", c.P.Pos(reg.Pos()), "expected one project.AppendKey(ProjectDeveloperKey)")
			}
			for _, ie := range c.IfsMatching(reg, Cmp("other-project", ".ProjectID", "!=", "Project.GetIndex)")) {
				if ok, where := c.EdgeCannotReach(ie, append(devAppends, apps...)); ok {
					c.OK("C17b/registerKey/key-of-other-project-rejected", c.P.InstrPos(ie.If), "the owned-by-another-project outcome reaches neither the index nor the project key list")
				} else {
					c.Fail("C17b/registerKey/key-of-other-project-rejected", c.P.InstrPos(ie.If), "a key indexed for another project is still added at "+where)
				}
			}
			if len(c.IfsMatching(reg, Cmp("other-project", ".ProjectID", "!=", "Project.GetIndex)"))) == 0 {
				c.Fail("C17b/registerKey/key-of-other-project-rejected", c.P.Pos(reg.Pos()), "no comparison of the indexed project with the registering project")
			}
		}

		c.Rule("C17c removal: in unregisterKey the index deletion is dominated by found==true and the false outcome of ProjectID != project.Index, with the same key and epoch as the lookup; DeleteProject unregisters every key of the project before deleting the project entry and fails if an un-registration fails")
		dels := fsOp(unreg, "DelEntry")
		ufinds := fsOp(unreg, "FindEntry")
		if len(dels) != 1 || len(ufinds) != 1 {
			c.Fail("C17c/unregisterKey/shape", c.P.Pos(unreg.Pos()), "expected one lookup and one delete on developerKeysFS")
		} else {
			c.RequireGuards("C17c", dels, "developerKeysFS.DelEntry",
				CallIs(true, "x/fixationstore/types.FixationStore.FindEntry"),
				Cmp("same-project", ".ProjectID", "==", "Project.GetIndex)"),
				CallIs(true, "x/projects/types.Project.DeleteKey"))
			fa, da := argDescs(ir.CallOf(ufinds[0].Instr)), argDescs(ir.CallOf(dels[0].Instr))
			if fa[2] == da[2] && fa[3] == da[3] {
				c.OK("C17c/unregisterKey/lookup-and-delete-same-key-and-epoch", c.P.InstrPos(dels[0].Instr), fa[2]+","+fa[3])
			} else {
				c.Fail("C17c/unregisterKey/lookup-and-delete-same-key-and-epoch", c.P.InstrPos(dels[0].Instr), "lookup("+fa[2]+","+fa[3]+") vs delete("+da[2]+","+da[3]+")")
			}
		}
		un := c.CallsByName(del, true, prk+"Keeper.unregisterKey")
		var pdel []Site
		for _, s := range c.CallsByName(del, true, "x/fixationstore/types.FixationStore.DelEntry") {
			if strings.HasSuffix(ir.Desc(ir.CallOf(s.Instr).Args[0]), ".projectsFS") {
				pdel = append(pdel, s)
			}
		}
		if len(un) == 1 && len(pdel) == 1 {
			// keys come from the project's own key list
			a := argDescs(ir.CallOf(un[0].Instr))
			if strings.Contains(a[2], "GetProjectKeys)") || strings.Contains(a[2], ".ProjectKeys[i]") {
				c.OK("C17c/DeleteProject/unregisters-own-keys", c.P.InstrPos(un[0].Instr), trunc(a[2], 100))
			} else {
				c.Fail("C17c/DeleteProject/unregisters-own-keys", c.P.InstrPos(un[0].Instr), "unregisters "+trunc(a[2], 140))
			}
			for _, ie := range c.IfsMatching(del, ErrNonNil(prk+"Keeper.unregisterKey")) {
				if ok, where := c.EdgeCannotReach(ie, pdel); ok {
					c.OK("C17c/DeleteProject/failed-unregister-aborts", c.P.InstrPos(ie.If), "the project entry is not deleted when a key could not be unregistered")
				} else {
					c.Fail("C17c/DeleteProject/failed-unregister-aborts", c.P.InstrPos(ie.If), "project deleted at "+where+" although one of its keys stays indexed: the key resolves to a deleted project")
				}
			}
			if !reaches(un[0].Instr.Block(), pdel[0].Instr.Block()) {
				c.Fail("C17c/DeleteProject/unregister-before-delete", c.P.InstrPos(pdel[0].Instr), "project entry deleted before its keys are unregistered")
			} else {
				c.OK("C17c/DeleteProject/unregister-before-delete", c.P.InstrPos(pdel[0].Instr), "keys first")
			}
			ua, pa := argDescs(ir.CallOf(un[0].Instr)), argDescs(ir.CallOf(pdel[0].Instr))
			if ua[len(ua)-1] == pa[len(pa)-1] {
				c.OK("C17c/DeleteProject/same-epoch-for-keys-and-project", c.P.InstrPos(pdel[0].Instr), ua[len(ua)-1])
			} else {
				c.Fail("C17c/DeleteProject/same-epoch-for-keys-and-project", c.P.InstrPos(pdel[0].Instr), "keys unregistered at "+ua[len(ua)-1]+" but project deleted at "+pa[len(pa)-1])
			}
		} else {
			c.Fail("C17c/DeleteProject/shape", c.P.Pos(del.Pos()), "expected one unregisterKey loop and one projectsFS.DelEntry")
		}

		c.Rule("C17d charge once, every version: ChargeComputeUnitsToProject adds its cu parameter once to each version of the project in the current snapshot and writes each back; the resolver GetProjectForDeveloper reads the key index and the project at the same block")
		adds, mods := 0, 0
		ir.EachInstr(chg, func(in ssa.Instruction) {
			if st, ok := in.(*ssa.Store); ok {
				if f, ok := st.Addr.(*ssa.FieldAddr); ok && ir.FieldKey(f) == "x/projects/types.Project.UsedCu" {
					adds++
					d := ir.Desc(st.Val)
					if !(strings.Contains(d, ".UsedCu + param#3)") || strings.HasPrefix(d, "(param#3 + ")) {
						c.Fail("C17d/ChargeComputeUnitsToProject/UsedCu+=cu", c.P.InstrPos(in), "UsedCu assigned "+d)
					}
				}
			}
		})
		for _, s := range c.CallsByName(chg, false, "x/fixationstore/types.FixationStore.ModifyEntry") {
			mods++
			c.RequireGuards("C17d", []Site{s}, "ModifyEntry", Cmp("same-snapshot", ".Snapshot", "==", "param#1.Snapshot"))
		}
		if adds == 1 && mods == 1 {
			c.OK("C17d/ChargeComputeUnitsToProject/one-add-one-write-per-version", c.P.Pos(chg.Pos()), "UsedCu += cu; ModifyEntry, inside the versions loop")
		} else {
			c.Fail("C17d/ChargeComputeUnitsToProject/one-add-one-write-per-version", c.P.Pos(chg.Pos()), "expected one UsedCu increment and one write-back per version")
		}
		if gp := c.Fn(prk + "Keeper.GetProjectForDeveloper"); gp != nil {
			dd := c.CallsByName(gp, false, prk+"Keeper.GetProjectDeveloperData")
			var pf []Site
			for _, s := range c.CallsByName(gp, false, "x/fixationstore/types.FixationStore.FindEntry") {
				pf = append(pf, s)
			}
			if len(dd) == 1 && len(pf) == 1 {
				da, fa := argDescs(ir.CallOf(dd[0].Instr)), argDescs(ir.CallOf(pf[0].Instr))
				if da[len(da)-1] == "param#2" && fa[3] == "param#2" && strings.HasSuffix(fa[2], ".ProjectID") {
					c.OK("C17d/GetProjectForDeveloper/index-and-project-at-same-block", c.P.Pos(gp.Pos()), "both at blockHeight; project id from the index record")
				} else {
					c.Fail("C17d/GetProjectForDeveloper/index-and-project-at-same-block", c.P.Pos(gp.Pos()), "index read at "+da[len(da)-1]+", project "+fa[2]+" read at "+fa[3])
				}
				c.RequireGuards("C17d", c.SuccessReturns(gp), "return-project", ErrNil(prk+"Keeper.GetProjectDeveloperData"), CallIs(true, "x/fixationstore/types.FixationStore.FindEntry"))
			} else {
				c.Fail("C17d/GetProjectForDeveloper/shape", c.P.Pos(gp.Pos()), "expected one index lookup and one project lookup")
			}
		}
		// the charge covers every version kept in chain memory from the charged block on
		for _, s := range c.CallsByName(chg, false, "x/fixationstore/types.FixationStore.GetEntryVersionsRange") {
			a := argDescs(ir.CallOf(s.Instr))
			if len(a) == 5 && a[2] == "param#1.Index" && a[3] == "param#2" && strings.HasPrefix(a[4], "invoke(x/projects/types.EpochStorageKeeper.BlocksToSaveRaw)") {
				c.OK("C17d/ChargeComputeUnitsToProject/versions-range=[block, block+memory]", c.P.InstrPos(s.Instr), "all versions within chain memory, including ones taking effect in the future")
			} else {
				c.Fail("C17d/ChargeComputeUnitsToProject/versions-range=[block, block+memory]", c.P.InstrPos(s.Instr), "the charged version range is not (project, charged block, whole chain memory): a version that takes effect later in the same snapshot misses the charge — "+strings.Join(a[2:], ","))
			}
		}

		c.Rule("C17e both versions exist: AddKeysToProject / DelKeysFromProject change keys only when both the current and the next-epoch version of the project were found (a project deleted at the next epoch gets no new keys), and the admin check is made on the next-epoch version")
		for _, fnn := range []string{prk + "Keeper.AddKeysToProject", prk + "Keeper.DelKeysFromProject"} {
			f := c.Fn(fnn)
			if f == nil {
				continue
			}
			gets := c.CallsByName(f, false, prk+"Keeper.getProjectForBlock")
			want := 2 // AddKeys edits the current and the next-epoch version
			if fnn == prk+"Keeper.DelKeysFromProject" {
				want = 1 // DelKeys takes effect at the next epoch only
			}
			if len(gets) != want {
				c.Fail("C17e/"+fnn+"/version-lookups", c.P.Pos(f.Pos()), "expected "+itoa(want)+" project version lookup(s), found "+itoa(len(gets)))
				continue
			}
			sinks := append(c.CallsByName(f, true, prk+"Keeper.registerKey"), c.CallsByName(f, true, prk+"Keeper.unregisterKey")...)
			if len(sinks) == 0 {
				c.Undecided("%s registers/unregisters no key", fnn)
			}
			for gi, g := range gets {
				call := g.Instr.(*ssa.Call)
				spec := GuardSpec{Name: "err==nil:getProjectForBlock#" + itoa(gi+1), Match: func(gd ir.Guard) bool {
					v, edge := stripNot(gd.If.Cond, gd.Edge)
					b, ok := v.(*ssa.BinOp)
					if !ok || !isNilConst(b.Y) && !isNilConst(b.X) {
						return false
					}
					other := b.X
					if isNilConst(b.X) {
						other = b.Y
					}
					cv, _ := callOfValue(other)
					if cv != call {
						return false
					}
					return (b.Op.String() == "==") == edge
				}}
				c.RequireGuards("C17e", sinks, "key-change", spec)
			}
			var adminChecks []Site
			for _, s := range c.CallsByName(f, false, "x/projects/types.Project.IsAdminKey") {
				adminChecks = append(adminChecks, s)
			}
			for _, s := range sinks {
				okAdmin := false
				for _, g := range ir.Guards(s.Instr) {
					if CallIs(true, "x/projects/types.Project.IsAdminKey").Match(g) {
						okAdmin = true
					}
				}
				_ = adminChecks
				if okAdmin {
					c.OK("C17e/"+fnn+"/key-change-by-admin", c.P.InstrPos(s.Instr), "dominated by IsAdminKey==true")
				} else {
					c.Fail("C17e/"+fnn+"/key-change-by-admin", c.P.InstrPos(s.Instr), "keys changed without the admin-key check")
				}
			}
		}
		c.Rule("C17f key kinds are independent bits: in unregisterKey (and registerKey) the developer-kind handling is not under the false outcome of the admin-kind test — a key carrying both kinds loses both; C17g snapshot at the target block: snapshotProject reads the project version at the block it then appends the reset version at (its own block parameter), so a version already pending at that block is carried over, not overwritten by the current one")
		for _, fnn := range []string{"unregisterKey", "registerKey"} {
			f := c.Fn("x/projects/keeper.Keeper." + fnn)
			if f == nil {
				continue
			}
			var devTests []ssa.Instruction
			ir.EachInstr(f, func(in ssa.Instruction) {
				call := ir.CallOf(in)
				if call != nil && ir.CalleeName(call) == "x/projects/types.ProjectKey.IsType" && len(call.Args) == 2 && ir.Desc(call.Args[1]) == c.Const("x/projects/types", "ProjectKey_DEVELOPER") {
					devTests = append(devTests, in)
				}
			})
			if len(devTests) == 0 {
				c.Undecided("C17f: no IsType(DEVELOPER) test in %s", fnn)
				continue
			}
			bad := false
			for _, in := range devTests {
				for _, fct := range ir.GuardFacts(in) {
					if strings.HasPrefix(fct, "!call(x/projects/types.ProjectKey.IsType)(") && strings.HasSuffix(fct, ","+c.Const("x/projects/types", "ProjectKey_ADMIN")+")") {
						bad = true
					}
				}
			}
			if bad {
				c.Fail("C17f/"+fnn+"/developer-kind-handled-independently-of-admin-kind", c.P.InstrPos(devTests[0]), "the developer kind is only examined when the key is not an admin key: a key registered as ADMIN|DEVELOPER keeps (or never gets) its developer-key → project mapping")
			} else {
				c.OK("C17f/"+fnn+"/developer-kind-handled-independently-of-admin-kind", c.P.InstrPos(devTests[0]), "")
			}
		}
		if sp := c.Fn("x/projects/keeper.Keeper.snapshotProject"); sp != nil {
			apps := c.CallsByName(sp, false, "x/fixationstore/types.FixationStore.AppendEntry")
			if len(apps) != 1 {
				c.Undecided("C17g: expected one AppendEntry in snapshotProject, found %d", len(apps))
			} else {
				at := ir.Desc(ir.CallOf(apps[0].Instr).Args[3])
				okRead := false
				ir.EachInstr(sp, func(in ssa.Instruction) {
					call := ir.CallOf(in)
					if call == nil {
						return
					}
					n := ir.CalleeName(call)
					if n == "x/fixationstore/types.FixationStore.FindEntryDetailed" && ir.Desc(call.Args[3]) == at && at == "param#2" {
						okRead = true
					}
					if n == "x/projects/keeper.Keeper.getProjectForBlock" && ir.Desc(call.Args[3]) == at && at == "param#2" {
						okRead = true
					}
				})
				if okRead {
					c.OK("C17g/snapshotProject/reads-the-version-at-the-block-it-writes", c.P.InstrPos(apps[0].Instr), "FindEntryDetailed(projectID, block) … AppendEntry(index, block)")
				} else {
					c.Fail("C17g/snapshotProject/reads-the-version-at-the-block-it-writes", c.P.InstrPos(apps[0].Instr), "the reset version appended at "+at+" is built from a project version read at another block: a key or policy change pending at that block is overwritten")
				}
			}
		}
		c.NotCovered("multi-version snapshot arithmetic; fixation-store version visibility (C14)")
	})
}
