package rules

import (
	"fmt"
	"go/constant"
	"go/token"
	"go/types"
	"sort"

	"golang.org/x/tools/go/ssa"

	"lavaverif/checker/ir"
)

// ---------------------------------------------------------------------------
// E9 — order-only functions. A function over integers is order-only when its
// parameters are touched by nothing but comparisons (with each other and with
// constants), branches on those comparisons, and returns of a parameter, a constant
// or the result of another order-only function. Its result for any input is then
// determined by the order type of (arguments ∪ constants): the finite set of order
// types is an exact abstract domain. ordEval is the abstract transfer function over
// that domain, written as an evaluator on one canonical representative per order type;
// it refuses (error) every instruction that is not of the kinds above, so the
// exactness argument is re-established on every run from the current source.
// Algebraic laws (commutativity, associativity, identity, selection) are decided by
// enumerating the representatives.
// ---------------------------------------------------------------------------

type oval struct {
	kind int // 0 int, 1 bool, 2 tuple, 3 func
	i    int64
	b    bool
	t    []oval
	f    *ssa.Function
}

type ordErr struct{ msg string }

func (e *ordErr) Error() string { return e.msg }

func ordFail(format string, a ...any) error { return &ordErr{fmt.Sprintf(format, a...)} }

func isIntType(t types.Type) bool {
	b, ok := t.Underlying().(*types.Basic)
	return ok && b.Info()&types.IsInteger != 0 && b.Info()&types.IsUnsigned == 0
}

func ordEval(fn *ssa.Function, args []oval, depth int) ([]oval, error) {
	if depth > 5 {
		return nil, ordFail("call depth exceeded at %s", ir.FuncName(fn))
	}
	if len(fn.Blocks) == 0 {
		return nil, ordFail("%s has no body", ir.FuncName(fn))
	}
	if len(fn.FreeVars) > 0 {
		return nil, ordFail("%s captures variables", ir.FuncName(fn))
	}
	env := map[ssa.Value]oval{}
	for i, p := range fn.Params {
		env[p] = args[i]
	}
	get := func(v ssa.Value) (oval, error) {
		switch x := v.(type) {
		case *ssa.Const:
			if x.Value == nil {
				return oval{}, ordFail("nil/zero constant of type %s", x.Type())
			}
			switch x.Value.Kind() {
			case constant.Int:
				if n, ok := constant.Int64Val(x.Value); ok && isIntType(x.Type()) {
					return oval{kind: 0, i: n}, nil
				}
			case constant.Bool:
				return oval{kind: 1, b: constant.BoolVal(x.Value)}, nil
			}
			return oval{}, ordFail("constant %s is not a signed integer or boolean", x)
		case *ssa.Function:
			return oval{kind: 3, f: x}, nil
		}
		if o, ok := env[v]; ok {
			return o, nil
		}
		return oval{}, ordFail("value %s (%T) is not a parameter, constant or order-only result", v.Name(), v)
	}
	blk := fn.Blocks[0]
	var prev *ssa.BasicBlock
	for steps := 0; steps < 5000; steps++ {
		var next *ssa.BasicBlock
		for _, in := range blk.Instrs {
			switch x := in.(type) {
			case *ssa.DebugRef:
			case *ssa.Phi:
				idx := -1
				for i, p := range blk.Preds {
					if p == prev {
						idx = i
					}
				}
				if idx < 0 {
					return nil, ordFail("phi without predecessor")
				}
				o, err := get(x.Edges[idx])
				if err != nil {
					return nil, err
				}
				env[x] = o
			case *ssa.BinOp:
				a, err := get(x.X)
				if err != nil {
					return nil, err
				}
				b, err := get(x.Y)
				if err != nil {
					return nil, err
				}
				if a.kind == 0 && b.kind == 0 {
					var r bool
					switch x.Op {
					case token.EQL:
						r = a.i == b.i
					case token.NEQ:
						r = a.i != b.i
					case token.LSS:
						r = a.i < b.i
					case token.LEQ:
						r = a.i <= b.i
					case token.GTR:
						r = a.i > b.i
					case token.GEQ:
						r = a.i >= b.i
					default:
						return nil, ordFail("%s: arithmetic %s on a block value (not a comparison)", ir.FuncName(fn), x.Op)
					}
					env[x] = oval{kind: 1, b: r}
				} else if a.kind == 1 && b.kind == 1 && (x.Op == token.EQL || x.Op == token.NEQ) {
					env[x] = oval{kind: 1, b: (a.b == b.b) == (x.Op == token.EQL)}
				} else {
					return nil, ordFail("%s: unsupported operands for %s", ir.FuncName(fn), x.Op)
				}
			case *ssa.UnOp:
				a, err := get(x.X)
				if err != nil {
					return nil, err
				}
				if x.Op != token.NOT || a.kind != 1 {
					return nil, ordFail("%s: unsupported unary %s", ir.FuncName(fn), x.Op)
				}
				env[x] = oval{kind: 1, b: !a.b}
			case *ssa.Call:
				var callee *ssa.Function
				if c := x.Call.StaticCallee(); c != nil {
					callee = c
				} else if !x.Call.IsInvoke() {
					if o, err := get(x.Call.Value); err == nil && o.kind == 3 {
						callee = o.f
					}
				}
				if callee == nil {
					return nil, ordFail("%s: call with unresolved callee", ir.FuncName(fn))
				}
				var cargs []oval
				for _, a := range x.Call.Args {
					o, err := get(a)
					if err != nil {
						return nil, err
					}
					cargs = append(cargs, o)
				}
				if len(cargs) != len(callee.Params) {
					return nil, ordFail("%s: arity mismatch calling %s", ir.FuncName(fn), ir.FuncName(callee))
				}
				res, err := ordEval(callee, cargs, depth+1)
				if err != nil {
					return nil, err
				}
				if len(res) == 1 {
					env[x] = res[0]
				} else {
					env[x] = oval{kind: 2, t: res}
				}
			case *ssa.Extract:
				t, err := get(x.Tuple)
				if err != nil {
					return nil, err
				}
				if t.kind != 2 || x.Index >= len(t.t) {
					return nil, ordFail("extract from non-tuple")
				}
				env[x] = t.t[x.Index]
			case *ssa.If:
				c, err := get(x.Cond)
				if err != nil {
					return nil, err
				}
				if c.kind != 1 {
					return nil, ordFail("branch on non-boolean")
				}
				if c.b {
					next = blk.Succs[0]
				} else {
					next = blk.Succs[1]
				}
			case *ssa.Jump:
				next = blk.Succs[0]
			case *ssa.Return:
				var out []oval
				for _, r := range x.Results {
					o, err := get(r)
					if err != nil {
						return nil, err
					}
					out = append(out, o)
				}
				return out, nil
			default:
				return nil, ordFail("%s: instruction %T (%s) is outside the order-only fragment", ir.FuncName(fn), in, in)
			}
		}
		if next == nil {
			return nil, ordFail("%s: block without terminator", ir.FuncName(fn))
		}
		prev, blk = blk, next
	}
	return nil, ordFail("%s: step bound exceeded (loop?)", ir.FuncName(fn))
}

// ordConsts collects the integer constants fn (and everything it calls statically or
// through function values defined inside it) mentions.
func ordConsts(fn *ssa.Function, seen map[*ssa.Function]bool, out map[int64]bool) {
	if fn == nil || seen[fn] || len(seen) > 40 {
		return
	}
	seen[fn] = true
	ir.EachInstr(fn, func(in ssa.Instruction) {
		for _, op := range in.Operands(nil) {
			if op == nil || *op == nil {
				continue
			}
			switch x := (*op).(type) {
			case *ssa.Const:
				if x.Value != nil && x.Value.Kind() == constant.Int {
					if n, ok := constant.Int64Val(x.Value); ok {
						out[n] = true
					}
				}
			case *ssa.Function:
				ordConsts(x, seen, out)
			}
		}
		if call := ir.CallOf(in); call != nil {
			if c := call.StaticCallee(); c != nil {
				ordConsts(c, seen, out)
			}
		}
	})
}

// ordDomain: one representative per position relative to the constants, restricted to
// values >= lo: every constant itself, and up to n distinct values in every gap
// between consecutive constants and above the largest one (n = number of variables
// quantified together, so that every relative order of n variables inside a gap is
// represented).
func ordDomain(consts map[int64]bool, lo int64, n int) []int64 {
	var ks []int64
	for k := range consts {
		if k >= lo {
			ks = append(ks, k)
		}
	}
	if !consts[lo] {
		ks = append(ks, lo)
	}
	sort.Slice(ks, func(i, j int) bool { return ks[i] < ks[j] })
	set := map[int64]bool{}
	for i, k := range ks {
		set[k] = true
		hi := int64(0)
		bounded := i+1 < len(ks)
		if bounded {
			hi = ks[i+1]
		}
		for j := int64(1); j <= int64(n); j++ {
			v := k + j
			if bounded && v >= hi {
				break
			}
			set[v] = true
		}
	}
	var out []int64
	for v := range set {
		out = append(out, v)
	}
	sort.Slice(out, func(i, j int) bool { return out[i] < out[j] })
	return out
}

// isIntConst: v is an integer constant (Const.Int64 panics on other kinds).
func isIntConst(v ssa.Value) bool {
	k, ok := v.(*ssa.Const)
	return ok && k.Value != nil && k.Value.Kind() == constant.Int
}
