package rules

import (
	"go/token"
	"go/types"
	"os"
	"strings"

	"golang.org/x/tools/go/ssa"

	"lavaverif/checker/ir"
)

// divisorOf returns the divisor operand of a division-like instruction (machine integer
// division / remainder, or a big-number quotient / modulus method that panics on a zero
// divisor), and a short name of the operation; nil if in is not one.
func divisorOf(in ssa.Instruction) (ssa.Value, string) {
	switch x := in.(type) {
	case *ssa.BinOp:
		if x.Op != token.QUO && x.Op != token.REM {
			return nil, ""
		}
		if b, ok := x.X.Type().Underlying().(*types.Basic); !ok || b.Info()&types.IsInteger == 0 {
			return nil, "" // float division does not panic
		}
		return x.Y, x.Op.String()
	}
	call := ir.CallOf(in)
	if call == nil || call.IsInvoke() {
		return nil, ""
	}
	n := ir.CalleeName(call)
	dot := strings.LastIndex(n, ".")
	if dot < 0 {
		return nil, ""
	}
	recv, m := n[:dot], n[dot+1:]
	switch recv {
	case "cosmossdk.io/math.Int", "cosmossdk.io/math.Uint", "cosmossdk.io/math.LegacyDec", "math/big.Int":
	default:
		return nil, ""
	}
	if !(strings.HasPrefix(m, "Quo") || strings.HasPrefix(m, "Mod") || m == "Div" || m == "Rem" || m == "DivMod" || m == "QuoRem") {
		return nil, ""
	}
	if len(call.Args) < 2 {
		return nil, ""
	}
	if recv == "math/big.Int" {
		// z.Quo(x, y): the divisor is the last operand
		return call.Args[len(call.Args)-1], "big.Int." + m
	}
	return call.Args[1], recv[strings.LastIndex(recv, ".")+1:] + "." + m
}

// nonZeroByConstruction: the divisor is a non-zero constant, or a big number built from
// one by a constructor that cannot yield zero from it.
func nonZeroByConstruction(v ssa.Value, depth int) bool {
	if depth > 6 {
		return false
	}
	switch x := unconv(v).(type) {
	case *ssa.Const:
		return isIntConst(x) && x.Int64() != 0
	case *ssa.Call:
		n := calleeOrAlias(&x.Call)
		switch n {
		case "cosmossdk.io/math.OneInt", "cosmossdk.io/math.LegacyOneDec", "cosmossdk.io/math.OneUint":
			return true
		case "cosmossdk.io/math.NewInt", "cosmossdk.io/math.NewIntFromUint64", "cosmossdk.io/math.LegacyNewDec", "cosmossdk.io/math.NewUint", "math/big.NewInt", "cosmossdk.io/math.LegacyNewDecFromInt":
			return len(x.Call.Args) == 1 && nonZeroByConstruction(x.Call.Args[0], depth+1)
		case "cosmossdk.io/math.LegacyNewDecWithPrec":
			return len(x.Call.Args) == 2 && nonZeroByConstruction(x.Call.Args[0], depth+1)
		}
	case *ssa.UnOp:
		if x.Op == token.MUL {
			if g, ok := x.X.(*ssa.Global); ok {
				return c37NonZeroGlobals[g.Pkg.Pkg.Path()+"."+g.Name()]
			}
		}
	case *ssa.BinOp:
		// c + x with unsigned x and c > 0 is not provable here (wrap); only products/sums of constants fold earlier
	}
	return false
}

// sdkAlias resolves a call through one of the SDK's `var NewInt = math.NewInt` aliases.
func calleeOrAlias(call *ssa.CallCommon) string {
	if n := ir.CalleeName(call); n != "dynamic" {
		return n
	}
	if ld, ok := call.Value.(*ssa.UnOp); ok && ld.Op == token.MUL {
		if g, ok := ld.X.(*ssa.Global); ok && g.Pkg != nil && g.Pkg.Pkg.Path() == "github.com/cosmos/cosmos-sdk/types" {
			switch g.Name() {
			case "NewInt", "NewIntFromUint64", "OneInt", "NewUint", "OneUint":
				return "cosmossdk.io/math." + g.Name()
			case "NewDec", "NewDecFromInt", "NewDecWithPrec", "OneDec":
				return "cosmossdk.io/math.Legacy" + g.Name()
			}
		}
	}
	return ir.CalleeName(call)
}

// divCore strips value-preserving wrappers (conversions, big-number constructors that
// map zero to zero and non-zero to non-zero) from a divisor.
func divCore(v ssa.Value) ssa.Value {
	for i := 0; i < 8; i++ {
		v = unconv(v)
		call, ok := v.(*ssa.Call)
		if !ok || len(call.Call.Args) != 1 {
			return v
		}
		switch calleeOrAlias(&call.Call) {
		case "cosmossdk.io/math.NewInt", "cosmossdk.io/math.NewIntFromUint64", "cosmossdk.io/math.LegacyNewDec", "cosmossdk.io/math.NewUint", "cosmossdk.io/math.LegacyNewDecFromInt", "math/big.NewInt":
			v = call.Call.Args[0]
		default:
			return v
		}
	}
	return v
}

// sameDivValue: a and b denote the same run-time value at the division.
func sameDivValue(a, b ssa.Value) bool {
	a, b = divCore(a), divCore(b)
	if a == b {
		return true
	}
	la, ok1 := a.(*ssa.UnOp)
	lb, ok2 := b.(*ssa.UnOp)
	if ok1 && ok2 && la.Op == token.MUL && lb.Op == token.MUL {
		if al, ok := la.X.(*ssa.Alloc); ok && la.X == lb.X {
			// two loads of one local that is assigned once
			return ir.SingleStore(al) != nil
		}
	}
	da, db := ir.Desc(a), ir.Desc(b)
	if da != db || strings.Contains(da, "…") || strings.Contains(da, "phi") || strings.Contains(da, "local(") {
		return false
	}
	// equal closed descriptors of pure expressions over parameters, receiver fields, len()
	return !strings.Contains(da, "call(") && !strings.Contains(da, "invoke(") || strings.HasPrefix(da, "call(builtin:len)(") || strings.HasPrefix(da, "conv<") && strings.Contains(da, "call(builtin:len)(")
}

// excludesZero: taking edge `edge` of a branch on cond implies d != 0.
func excludesZero(cond ssa.Value, edge bool, d ssa.Value) bool {
	switch x := cond.(type) {
	case *ssa.UnOp:
		if x.Op == token.NOT {
			return excludesZero(x.X, !edge, d)
		}
	case *ssa.Call:
		if x.Call.IsInvoke() || len(x.Call.Args) != 1 || !sameDivValue(x.Call.Args[0], d) {
			return false
		}
		n := ir.CalleeName(&x.Call)
		switch n[strings.LastIndex(n, ".")+1:] {
		case "IsZero":
			return !edge
		case "IsPositive":
			return edge
		}
	case *ssa.BinOp:
		zero := func(v ssa.Value) bool {
			k, ok := unconv(v).(*ssa.Const)
			return ok && isIntConst(k) && k.Int64() == 0
		}
		nonneg := func(v ssa.Value) bool {
			k, ok := unconv(v).(*ssa.Const)
			return ok && isIntConst(k) && k.Int64() >= 0
		}
		pos := func(v ssa.Value) bool {
			k, ok := unconv(v).(*ssa.Const)
			return ok && isIntConst(k) && k.Int64() > 0
		}
		switch {
		case sameDivValue(x.X, d):
			switch x.Op {
			case token.NEQ:
				return edge && zero(x.Y)
			case token.EQL:
				return !edge && zero(x.Y)
			case token.GTR:
				return edge && nonneg(x.Y)
			case token.GEQ:
				return edge && pos(x.Y)
			case token.LEQ:
				return !edge && nonneg(x.Y)
			case token.LSS:
				return !edge && pos(x.Y)
			}
		case sameDivValue(x.Y, d):
			switch x.Op {
			case token.NEQ:
				return edge && zero(x.X)
			case token.EQL:
				return !edge && zero(x.X)
			case token.LSS:
				return edge && nonneg(x.X)
			case token.LEQ:
				return edge && pos(x.X)
			case token.GEQ:
				return !edge && nonneg(x.X)
			case token.GTR:
				return !edge && pos(x.X)
			}
		}
	}
	return false
}

func divisorGuarded(in ssa.Instruction, d ssa.Value) (bool, string) {
	for _, g := range ir.Guards(in) {
		if excludesZero(g.If.Cond, g.Edge, d) {
			return true, g.Fact
		}
	}
	return false, ""
}

// package-level values that are initialised once to a non-zero number and never written
// again (checked: single store, in init, of a value non-zero by construction)
var c37NonZeroGlobals = map[string]bool{}

// c37DivAudited: divisions under block processing whose divisor is neither non-zero by
// construction nor tested for zero in a form the recogniser understands. Each entry was
// confirmed by reading; the key is function/operation (with #k for the k-th such
// operation of the function in source order), the value is the reason the divisor cannot
// be zero. A new unguarded division is never auto-audited.
var c37DivAuditedDivisor = map[string]string{
	"utils.NaturalBaseExponentFraction/LegacyDec.Quo":                          "call(cosmossdk.io/math.LegacyDec.Power)(call(cosmossdk.io/math.LegacyDec.ApproxRoot)(",
	"x/dualstaking/keeper.Keeper.AfterDelegationModified/Int.QuoRaw":           "phi{(phi↺ - const(1))|conv<int64>(call(builtin:len)(",
	"x/dualstaking/keeper.Keeper.AfterDelegationModified/Int.Quo":              "phi{phi{call(cosmossdk.io/math.Int.Add)(phi↺,",
	"x/dualstaking/keeper.Keeper.UnbondUniformProviders/Int.QuoRaw":            "(call(builtin:len)(",
	"x/epochstorage/keeper.Keeper.BlockInEpoch/%":                              "=local(uint64)",
	"x/pairing/keeper.Keeper.punishUnresponsiveProvider//":                     "=invoke(x/pairing/types.DowntimeKeeper.GetParams)(recv.downtimeKeeper,param#0).EpochDuration",
	"x/rewards/keeper.Keeper.BondedTargetFactor/LegacyDec.Quo":                 "call(cosmossdk.io/math.LegacyDec.Sub)(call(x/rewards/keeper.Keeper.GetParams)(recv,param#0).MaxBondedTarget,",
	"x/rewards/keeper.Keeper.BondedTargetFactor/LegacyDec.Quo#2":               "call(cosmossdk.io/math.LegacyDec.Sub)(call(x/rewards/keeper.Keeper.GetParams)(recv,param#0).MaxBondedTarget,",
	"x/rewards/keeper.Keeper.CalculateContributionPercentages/LegacyDec.Quo":   "call(cosmossdk.io/math.LegacyDec.Sub)(call(dyn:global(github.com/cosmos/cosmos-sdk/types.OneDec))(),",
	"x/rewards/keeper.Keeper.DistributeMonthlyBonusRewards/LegacyDec.QuoInt":   "call(x/rewards/keeper.Keeper.specProvidersBasePay)(",
	"x/subscription/keeper.Keeper.addCuTrackerTimerForSubscription/Int.QuoRaw": "=param#2.DurationLeft",
}

// divisorMatches: the audited belief is about one divisor expression; a different divisor
// at the same site is a different obligation. "=" pins the whole descriptor, otherwise
// the descriptor's beginning.
func divisorMatches(want string, d ssa.Value) bool {
	got := ir.Desc(unconv(d))
	if strings.HasPrefix(want, "=") {
		return got == want[1:]
	}
	return strings.HasPrefix(got, want)
}

var c37DivAudited = map[string]string{
	"utils.NaturalBaseExponentFraction/LegacyDec.Quo":                         "the divisor is a power of a root of the positive constant e; ApproxRoot and Power of a positive decimal are positive",
	"x/dualstaking/keeper.Keeper.AfterDelegationModified/Int.QuoRaw":          "count starts at len(entries) and is decremented once per iteration of the loop over entries, so it is >= 1 inside the loop",
	"x/dualstaking/keeper.Keeper.AfterDelegationModified/Int.Quo":             "belief: inside the loop over the provider's stake entries TotalSelfDelegation is the sum of their self stakes, each of which is at least MinSelfDelegation (staking rejects less; the decrease path above returns an error below it)",
	"x/dualstaking/keeper.Keeper.UnbondUniformProviders/Int.QuoRaw":           "len(delegations)-i with i ranging over the indices of delegations is >= 1",
	"x/epochstorage/keeper.Keeper.BlockInEpoch/%":                             "epochBlocks is compared with 0 (early error return) between its deserialisation and the remainder; it is address-taken only by that deserialisation, which precedes the test",
	"x/pairing/keeper.Keeper.punishUnresponsiveProvider//":                    "the divisor is the downtime EpochDuration parameter itself (not its truncated seconds: fix 852f521d8), which validateDowntimeDuration admits only when > 0 (rule C37d)",
	"x/rewards/keeper.Keeper.BondedTargetFactor/LegacyDec.Quo":                "reached only past bonded <= maxBonded and bonded > minBonded, hence maxBonded - minBonded > 0",
	"x/rewards/keeper.Keeper.BondedTargetFactor/LegacyDec.Quo#2":              "same divisor as the first quotient",
	"x/rewards/keeper.Keeper.CalculateContributionPercentages/LegacyDec.Quo":  "1 - communityTax, past the early return on communityTax == 1",
	"x/rewards/keeper.Keeper.DistributeMonthlyBonusRewards/LegacyDec.QuoInt":  "under !specTotalPayout.IsZero(), and specTotalPayout is assigned a non-zero value only under !totalbasepay.IsZero()",
	"x/subscription/keeper.Keeper.addCuTrackerTimerForSubscription/Int.QuoRaw": "belief: a subscription with a pending month timer has DurationLeft >= 1 (MsgBuy rejects duration 0; advanceMonth renews to 1 or removes the subscription when it reaches 0; the upgrade path's 0 is overwritten in the same transaction). Noted contradiction: both callers test DurationLeft == 0 only after this division, so their 'recover instead of panic' branch cannot protect it",
}

func c37Divisions(c *Ctx, fns []*ssa.Function, reach map[*ssa.Function]string) {
	c.Rule("C37c divisions: every machine-integer division/remainder and every Int/Uint/Dec/big.Int quotient or modulus reachable from block processing has a divisor that is non-zero by construction, or is dominated by a test that excludes zero for that very divisor, or is listed in the audited table with the reason")
	n, nConst, nGuard, nAud := 0, 0, 0, 0
	used := map[string]bool{}
	for _, f := range fns {
		perOp := map[string]int{}
		for _, b := range f.Blocks {
			if b == f.Recover {
				continue
			}
			for _, in := range b.Instrs {
				d, op := divisorOf(in)
				if d == nil {
					continue
				}
				n++
				if nonZeroByConstruction(d, 0) {
					nConst++
					continue
				}
				perOp[op]++
				key := ir.FuncName(f) + "/" + op
				if perOp[op] > 1 {
					key += "#" + itoa(perOp[op])
				}
				if ok, fact := divisorGuarded(in, d); ok {
					nGuard++
					c.OK("C37c/"+key, c.P.InstrPos(in), "divisor excluded from zero by "+trunc(fact, 120))
					continue
				}
				if why, ok := c37DivAudited[key]; ok && os.Getenv("C37DIV_DEBUG") == "" && divisorMatches(c37DivAuditedDivisor[key], d) {
					nAud++
					used[key] = true
					c.Audit("C37c/"+key, c.P.InstrPos(in), why)
					continue
				}
				if os.Getenv("C37DIV_DEBUG") == "" {
					c.Fail("C37c/"+key, c.P.InstrPos(in), "division reachable from block processing ("+reach[f]+") by "+trunc(ir.Desc(unconv(d)), 120)+", which no dominating test excludes from zero: a zero divisor panics and halts the chain")
					continue
				}
				if os.Getenv("C37DIV_DEBUG") != "" {
					dd := ir.Desc(unconv(d))
					var rel []string
					for _, g := range ir.GuardFacts(in) {
						if strings.Contains(g, trunc(dd, 40)) {
							rel = append(rel, trunc(g, 160))
						}
					}
					c.Note("C37c/debug/"+ir.FuncName(f)+"/"+op, c.P.InstrPos(in), "divisor "+trunc(dd, 100)+" facts: "+strings.Join(rel, " ; "))
				}
			}
		}
	}
	c.Note("C37c/summary", "-", itoa(n)+" division sites under block processing: "+itoa(nConst)+" by a non-zero constant, "+itoa(nGuard)+" behind a zero test of the divisor, "+itoa(nAud)+" audited")
	if n < 30 {
		c.Undecided("C37c: only %d division sites found under block processing, expected >= 30 (frozen count)", n)
	}

	c37TypeAsserts(c, fns, reach)
	c37MustCalls(c, fns, reach)
	c37CoinSubs(c, fns, reach)
	if os.Getenv("C37SUB_DEBUG") != "" {
		// exploration aid, not a rule: unsigned subtractions in consensus code without a dominating bound
		for _, f := range c.P.AllFuncs {
			if !inProd(f) || !consensusScope(f) || f.Blocks == nil {
				continue
			}
			for _, s := range UnsignedSubs(f) {
				if ok, _ := leProved(s.X, s.Y, s.Block(), 3); ok || onlyLogged(s) {
					continue
				}
				c.Note("C37x/sub/"+ir.FuncName(f)+"/"+trunc(ir.DescN(s.X, 3)+" - "+ir.DescN(s.Y, 3), 120), c.P.InstrPos(s), "unproved unsigned subtraction")
			}
		}
	}

	c.Rule("C37d the audited belief about the downtime EpochDuration parameter is enforced where parameters are set: validateDowntimeDuration returns nil only past the false outcome of `value <= 0`, and both parameters of the downtime module are registered with it")
	if v := c.Fn("x/downtime/v1.validateDowntimeDuration"); v != nil {
		ok := true
		var at ssa.Instruction
		for _, s := range c.AllReturns(v) {
			ret := s.Instr.(*ssa.Return)
			if IsFailureReturn(ret) {
				continue
			}
			at = ret
			found := false
			for _, g := range ir.Guards(ret) {
				if b, isB := g.If.Cond.(*ssa.BinOp); isB {
					k, isK := unconv(b.Y).(*ssa.Const)
					zero := isK && isIntConst(k) && k.Int64() == 0
					if zero && (b.Op == token.LEQ && !g.Edge || b.Op == token.GTR && g.Edge) {
						if _, isDur := b.X.Type().(*types.Named); isDur && strings.HasSuffix(b.X.Type().String(), "time.Duration") {
							found = true
						}
					}
				}
			}
			if !found {
				ok = false
			}
		}
		if at == nil {
			c.Undecided("C37d: validateDowntimeDuration has no success return")
		} else if ok {
			c.OK("C37d/validateDowntimeDuration/nil-only-for-positive", c.P.InstrPos(at), "return nil is dominated by !(duration <= 0)")
		} else {
			c.Fail("C37d/validateDowntimeDuration/nil-only-for-positive", c.P.InstrPos(at), "the downtime duration validator accepts a non-positive duration: the soft-jail epoch count in punishUnresponsiveProvider divides by EpochDuration under BeginBlock")
		}
		refs := 0
		if psp := c.Fn("x/downtime/v1.Params.ParamSetPairs"); psp != nil {
			ir.EachInstr(psp, func(in ssa.Instruction) {
				if call := ir.CallOf(in); call != nil && strings.HasSuffix(ir.CalleeName(call), "params/types.NewParamSetPair") && len(call.Args) == 3 {
					if strings.Contains(ir.Desc(call.Args[2]), "validateDowntimeDuration") {
						refs++
					}
				}
			})
		}
		if refs == 2 {
			c.OK("C37d/ParamSetPairs/both-durations-validated", c.P.Pos(v.Pos()), "DowntimeDuration and EpochDuration registered with validateDowntimeDuration")
		} else {
			c.Fail("C37d/ParamSetPairs/both-durations-validated", c.P.Pos(v.Pos()), "expected both downtime parameters to be registered with validateDowntimeDuration, found "+itoa(refs))
		}
	}
}

// c37TypeAsserts: single-result type assertions x.(T) panic when the dynamic type differs.
func c37TypeAsserts(c *Ctx, fns []*ssa.Function, reach map[*ssa.Function]string) {
	c.Rule("C37e type assertions: every single-result type assertion x.(T) reachable from block processing (the form that panics on a mismatch) is listed in the audited table with the reason the dynamic type is always T; comma-ok assertions and type switches do not panic")
	n := 0
	for _, f := range fns {
		k := 0
		for _, b := range f.Blocks {
			if b == f.Recover {
				continue
			}
			for _, in := range b.Instrs {
				ta, ok := in.(*ssa.TypeAssert)
				if !ok || ta.CommaOk || !ta.Pos().IsValid() {
					continue
				}
				n++
				k++
				key := ir.FuncName(f) + "/" + ir.TypeName(ta.AssertedType)
				if k > 1 {
					key += "#" + itoa(k)
				}
				if why, ok := c37AssertAudited[key]; ok {
					c.Audit("C37e/"+key, c.P.InstrPos(in), why)
				} else {
					c.Fail("C37e/"+key, c.P.InstrPos(in), "single-result type assertion of "+trunc(ir.Desc(ta.X), 100)+" reachable from block processing ("+reach[f]+"): a value of another dynamic type panics and halts the chain")
				}
			}
		}
	}
	// expected count under block processing is zero today; make sure the recogniser itself
	// is alive by counting the same construct over the whole program
	all := 0
	for _, f := range c.P.AllFuncs {
		if !inProd(f) {
			continue
		}
		ir.EachInstr(f, func(in ssa.Instruction) {
			if ta, ok := in.(*ssa.TypeAssert); ok && !ta.CommaOk && ta.Pos().IsValid() {
				all++
			}
		})
	}
	if all < 10 {
		c.Undecided("C37e: only %d single-result type assertions recognised in the whole program (expected >= 10): the recogniser is broken", all)
	}
	c.Note("C37e/summary", "-", itoa(n)+" single-result type assertions under block processing ("+itoa(all)+" in the whole program)")
}

var c37AssertAudited = map[string]string{}

// c37MustCalls: calls to Must* helpers (panic on error by convention) of other modules.
func c37MustCalls(c *Ctx, fns []*ssa.Function, reach map[*ssa.Function]string) {
	c.Rule("C37f Must* helpers: every call, reachable from block processing, of a function outside lava whose name starts with Must (panics on error by convention) has constant arguments only, or is listed in the audited table with the reason the error cannot occur")
	n, nConst, nCodec := 0, 0, 0
	for _, f := range fns {
		per := map[string]int{}
		for _, b := range f.Blocks {
			if b == f.Recover {
				continue
			}
			for _, in := range b.Instrs {
				call := ir.CallOf(in)
				if call == nil {
					continue
				}
				name := calleeOrAlias(call)
				if call.IsInvoke() {
					name = call.Method.Name()
				}
				short := name[strings.LastIndex(name, ".")+1:]
				if !strings.HasPrefix(short, "Must") || len(short) < 5 || short[4] < 'A' || short[4] > 'Z' {
					continue
				}
				n++
				allConst := true
				for _, a := range call.Args {
					if _, ok := unconv(a).(*ssa.Const); !ok {
						allConst = false
					}
				}
				if allConst && !call.IsInvoke() {
					nConst++
					continue
				}
				per[short]++
				key := ir.FuncName(f) + "/" + short
				if per[short] > 1 {
					key += "#" + itoa(per[short])
				}
				if call.IsInvoke() && (short == "MustMarshal" || short == "MustUnmarshal") && strings.Contains(ir.TypeName(call.Value.Type()), "cosmos-sdk/codec.") {
					nCodec++
					c.OK("C37f/"+key, c.P.InstrPos(in), "codec "+short+" of a typed store value: fires only on an encoding error of the module's own stored bytes, not on chain state")
					continue
				}
				if why, ok := c37MustAudited[key]; ok {
					c.Audit("C37f/"+key, c.P.InstrPos(in), why)
				} else {
					c.Fail("C37f/"+key, c.P.InstrPos(in), "call of "+name+" with non-constant arguments reachable from block processing ("+reach[f]+"): it panics on error")
				}
			}
		}
	}
	c.Note("C37f/summary", "-", itoa(n)+" Must* calls under block processing: "+itoa(nConst)+" on constants, "+itoa(nCodec)+" codec (un)marshal of store values")
	if nCodec < 30 {
		c.Undecided("C37f: only %d codec Must(Un)Marshal calls recognised under block processing (frozen count 30): the recogniser or the reach is broken", nCodec)
	}
}

var c37MustAudited = map[string]string{}

// c37CoinSubs: sdk.Coin / sdk.Coins subtraction panics when the result would be negative
// (Coin.Sub, Coin.SubAmount, Coins.Sub, DecCoins.Sub); the Safe* variants return an error.
func c37CoinSubs(c *Ctx, fns []*ssa.Function, reach map[*ssa.Function]string) {
	c.Rule("C37g coin subtraction: every panicking coin subtraction (Coin.Sub, Coin.SubAmount, Coins.Sub, DecCoins.Sub — 'negative coin amount') reachable from block processing is dominated by a test that the minuend covers the subtrahend (IsGTE / !IsLT / IsAllGTE / !IsAnyGT … on the same operands), or is listed in the audited table with the reason; the SafeSub variants return an error instead and are not sites")
	n := 0
	for _, f := range fns {
		per := map[string]int{}
		for _, b := range f.Blocks {
			if b == f.Recover {
				continue
			}
			for _, in := range b.Instrs {
				call := ir.CallOf(in)
				if call == nil || call.IsInvoke() {
					continue
				}
				name := ir.CalleeName(call)
				op := ""
				switch name {
				case "github.com/cosmos/cosmos-sdk/types.Coin.Sub", "github.com/cosmos/cosmos-sdk/types.Coin.SubAmount",
					"github.com/cosmos/cosmos-sdk/types.Coins.Sub", "github.com/cosmos/cosmos-sdk/types.DecCoins.Sub", "github.com/cosmos/cosmos-sdk/types.DecCoin.Sub":
					op = name[strings.LastIndex(name, "types.")+6:]
				}
				if op == "" {
					continue
				}
				n++
				per[op]++
				key := ir.FuncName(f) + "/" + op
				if per[op] > 1 {
					key += "#" + itoa(per[op])
				}
				// a dominating comparison of the two operands
				x, y := ir.Desc(call.Args[0]), ""
				if len(call.Args) > 1 {
					y = ir.Desc(call.Args[1])
				}
				guarded := ""
				for _, g := range ir.Guards(in) {
					fct := g.Fact
					cmp := strings.Contains(fct, "IsGTE)(") || strings.Contains(fct, "IsLT)(") || strings.Contains(fct, "IsAllGTE)(") || strings.Contains(fct, "IsAllLTE)(") || strings.Contains(fct, "IsAnyGT)(") || strings.Contains(fct, "IsAllGT)(") || strings.Contains(fct, "IsAnyGTE)(") ||
						strings.Contains(fct, ".GTE)(") || strings.Contains(fct, ".LT)(") || strings.Contains(fct, ".GT)(") || strings.Contains(fct, ".LTE)(")
					if cmp && !strings.Contains(x, "…") && strings.Contains(fct, trunc(x, 60)) && (y == "" || strings.Contains(fct, trunc(strings.TrimSuffix(y, ")"), 40))) {
						guarded = fct
					}
				}
				if why, ok := c37CoinSubAudited[key]; ok {
					c.Audit("C37g/"+key, c.P.InstrPos(in), why)
				} else if guarded != "" && os.Getenv("C37COIN_DEBUG") == "" {
					c.OK("C37g/"+key, c.P.InstrPos(in), "dominated by "+trunc(guarded, 140))
				} else if os.Getenv("C37COIN_DEBUG") != "" {
					c.Note("C37g/debug/"+key, c.P.InstrPos(in), trunc(x, 90)+" − "+trunc(y, 90)+" guarded="+trunc(guarded, 100))
				} else {
					c.Fail("C37g/"+key, c.P.InstrPos(in), "panicking coin subtraction "+trunc(x, 80)+" − "+trunc(y, 80)+" reachable from block processing ("+reach[f]+") without a dominating test that the minuend covers the subtrahend: a larger subtrahend panics ('negative coin amount') and halts the chain")
				}
			}
		}
	}
	c.Note("C37g/summary", "-", itoa(n)+" panicking coin subtractions under block processing")
	// the same hazard in constructor form: NewCoin(denom, a.Sub(b)) panics on a negative difference
	nNew := 0
	for _, f := range fns {
		k := 0
		for _, b := range f.Blocks {
			if b == f.Recover {
				continue
			}
			for _, in := range b.Instrs {
				call := ir.CallOf(in)
				if call == nil || calleeOrAliasCoin(call) != "NewCoin" || len(call.Args) != 2 {
					continue
				}
				amt, ok := unconv(call.Args[1]).(*ssa.Call)
				if !ok {
					continue
				}
				an := ir.CalleeName(&amt.Call)
				if an != "cosmossdk.io/math.Int.Sub" && an != "cosmossdk.io/math.Int.SubRaw" {
					continue
				}
				nNew++
				k++
				key := ir.FuncName(f) + "/NewCoin(difference)"
				if k > 1 {
					key += "#" + itoa(k)
				}
				x, y := ir.Desc(amt.Call.Args[0]), ir.Desc(amt.Call.Args[1])
				guarded := ""
				for _, g := range ir.Guards(in) {
					if (strings.Contains(g.Fact, ".GTE)(") || strings.Contains(g.Fact, ".LT)(") || strings.Contains(g.Fact, ".GT)(") || strings.Contains(g.Fact, ".LTE)(")) && !strings.Contains(x, "…") && strings.Contains(g.Fact, trunc(x, 60)) && strings.Contains(g.Fact, trunc(strings.TrimSuffix(y, ")"), 40)) {
						guarded = g.Fact
					}
				}
				if why, ok := c37CoinSubAudited[key]; ok {
					c.Audit("C37g/"+key, c.P.InstrPos(in), why)
				} else if guarded != "" {
					c.OK("C37g/"+key, c.P.InstrPos(in), "dominated by "+trunc(guarded, 140))
				} else {
					c.Fail("C37g/"+key, c.P.InstrPos(in), "NewCoin of the difference "+trunc(x, 70)+" − "+trunc(y, 70)+" reachable from block processing ("+reach[f]+") without a dominating comparison of the two: a negative difference panics ('negative coin amount') and halts the chain")
				}
			}
		}
	}
	c.Note("C37g/summary-NewCoin", "-", itoa(nNew)+" NewCoin(difference) sites under block processing")
}

// calleeOrAliasCoin: "NewCoin" for sdk.NewCoin called directly or through an alias variable.
func calleeOrAliasCoin(call *ssa.CallCommon) string {
	if n := ir.CalleeName(call); n == "github.com/cosmos/cosmos-sdk/types.NewCoin" {
		return "NewCoin"
	}
	if ld, ok := call.Value.(*ssa.UnOp); ok && ld.Op == token.MUL {
		if g, ok := ld.X.(*ssa.Global); ok && g.Name() == "NewCoin" {
			return "NewCoin"
		}
	}
	return ""
}

// c37CoinSubAudited: panicking coin subtractions under block processing, each confirmed
// by reading. Most are "whole minus a sum of rounded-down parts of that whole": beliefs
// about values, recorded as such. Keyed by function/operation(#k in source order).
var c37CoinSubAudited = map[string]string{
	"x/dualstaking/keeper.Keeper.CalcRewards/Coins.Sub":                               "belief: providerReward = total·self/(self+delegations) + commission% of total·delegations/(self+delegations), each rounded down, commission <= 100 (validated when staking): not above totalReward in any denom",
	"x/dualstaking/keeper.Keeper.PayContributors/Coins.Sub":                           "directly behind the error return on !leftRewards.IsAnyGTE(rewardCoins); rewardCoins is ⌊contributorReward/n⌋ and is subtracted n times",
	"x/dualstaking/keeper.Keeper.RewardProvidersAndDelegators/Coins.Sub":              "belief: contributorReward is totalReward times the spec's contributor percentage (validated within (0, max <= 1] in Spec.ValidateSpec) rounded down",
	"x/dualstaking/keeper.Keeper.UnbondUniformProviders/Coin.Sub":                     "in the else branch of delegation.Amount.Amount.GTE(amount.Amount): the empty-provider delegation is smaller than the amount",
	"x/dualstaking/keeper.Keeper.UnbondUniformProviders/Coin.Sub#2":                   "under delegations[i].Amount < amount/(n−i) <= amount",
	"x/dualstaking/keeper.Keeper.UnbondUniformProviders/Coin.Sub#3":                   "coinToDeduct = ⌊amount/(n−i)⌋ <= amount",
	"x/dualstaking/keeper.Keeper.UnbondUniformProviders/Coin.Sub#4":                   "in the else branch of delegations[i].Amount < amountToDeduct",
	"x/dualstaking/keeper.Keeper.UnbondUniformProviders/Coin.Sub#5":                   "under delegations[i].Amount.Amount.LT(amount.Amount)",
	"x/dualstaking/keeper.Keeper.UnbondUniformProviders/Coin.Sub#6":                   "amount − amount",
	"x/dualstaking/keeper.Keeper.updateDelegatorsReward/Coins.Sub":                    "belief: the used total is the sum over delegations of ⌊delegatorsReward·credit_i/Σcredit⌋ with the same Σcredit (C08b checks this shape)",
	"x/dualstaking/types.Delegation.SubAmount/Coin.Sub":                               "only caller decreaseDelegation, past the error return on delegation.Amount.IsLT(amount) (rule C06d)",
	"x/rewards/keeper.Keeper.ContributeToValidatorsAndCommunityPool/Coin.SubAmount":   "belief: the community part is ⌊reward·communityParticipation⌋ with validators + community participation <= 1 (CalculateContributionPercentages returns an error above 100%)",
	"x/rewards/keeper.Keeper.ContributeToValidatorsAndCommunityPool/Coin.SubAmount#2": "same as the first subtraction, for the validators part",
	"x/rewards/keeper.Keeper.DistributeMonthlyBonusRewards/Coins.Sub":                 "belief: RewardProvidersAndDelegators returns zero coins with an error and otherwise the provider's part of the reward it was given (log detail only)",
	"x/rewards/keeper.Keeper.distributeIprpcRewards/Coins.Sub":                        "belief: UsedReward sums ⌊fund·cu_i/Σcu⌋ over the spec's providers (C42d checks this shape)",
	"x/rewards/keeper.Keeper.distributeIprpcRewards/Coins.Sub#2":                      "belief: as in DistributeMonthlyBonusRewards (log detail only)",
	"x/subscription/keeper.Keeper.RewardAndResetCuTracker/Coins.Sub":                  "belief: as in DistributeMonthlyBonusRewards, and only on the err == nil branch (log detail only)",
	"x/subscription/keeper.Keeper.addCuTrackerTimerForSubscription/Coin.SubAmount":    "creditReward = ⌊credit/DurationLeft⌋ <= credit for DurationLeft >= 1 (see the audited division there)",
}
