package rules

import (
	"strings"

	"golang.org/x/tools/go/ssa"

	"lavaverif/checker/ir"
)

const (
	rp  = "protocol/rpcprovider."
	ls  = "protocol/lavasession."
	psm = "protocol/lavasession.ProviderSessionManager."
)

// sessionReleased: through-predicate for "the provider session was released with
// roll-back semantics" in the relay handlers.
var sessionReleaseCalls = []string{psm + "OnSessionFailure", psm + "OnSessionDone"}

func init() {
	register("C39", "other", func(c *Ctx) {
		c.Explain = "Providers serve only authentic, valid relay requests: decided as guard dominance of the nil return of the metadata check, of session lookup/registration by epoch validity, metadata, signature and on-chain pairing verification, agreement of the epoch/consumer arguments across the pairing query, CU query and registration, release-on-all-paths of the provider session after initRelay, and who-may-call on proof submission."
		meta := c.Fn(rp + "RPCProviderServer.verifyRelayRequestMetaData")
		vrs := c.Fn(rp + "RPCProviderServer.verifyRelaySession")
		gsps := c.Fn(rp + "RPCProviderServer.getSingleProviderSession")
		initRelay := c.Fn(rp + "RPCProviderServer.initRelay")
		relay := c.Fn(rp + "RPCProviderServer.Relay")
		fin := c.Fn(rp + "RPCProviderServer.finalizeSession")
		trs := c.Fn(rp + "RPCProviderServer.TryRelaySubscribe")
		rsub := c.Fn(rp + "RPCProviderServer.RelaySubscribe")
		if meta == nil || vrs == nil || gsps == nil || initRelay == nil || relay == nil || fin == nil || trs == nil || rsub == nil {
			return
		}

		c.Rule("C39a metadata: verifyRelayRequestMetaData returns nil only after session.Provider==own address, session.SpecId==endpoint chain, session.LavaChainId==own lava chain id, and bytes.Equal(session.ContentHash, HashMsg(relayData.GetContentHashData()))")
		c.RequireGuards("C39a", c.SuccessReturns(meta), "return-nil",
			Cmp("provider", "param#1.Provider", "==", "recv.providerAddress"),
			Cmp("spec", "param#1.SpecId", "==", "recv.rpcProviderEndpoint.ChainID"),
			Cmp("lava-chain", "param#1.LavaChainId", "==", "recv.lavaChainID"),
			FactPrefix("content-hash", "call(bytes.Equal)(", "param#1.ContentHash", "call(utils/sigs.HashMsg)(call(x/pairing/types.RelayPrivateData.GetContentHashData)(param#2))"),
		)
		if len(c.SuccessReturns(meta)) != 1 {
			c.Fail("C39a/verifyRelayRequestMetaData/single-nil-return", c.P.Pos(meta.Pos()), "expected exactly one success return")
		}

		c.Rule("C39b session: verifyRelaySession reaches getSingleProviderSession only after IsValidEpoch(request epoch)==true, verifyRelayRequestMetaData nil error on the request's own session and data, and signer recovery nil error; the consumer passed on is the recovered signer")
		gs := c.CallsIn(vrs, gsps, true)
		if len(gs) == 0 {
			c.Undecided("verifyRelaySession no longer calls getSingleProviderSession")
		}
		c.RequireGuards("C39b", gs, "getSingleProviderSession",
			CallIs(true, psm+"IsValidEpoch"),
			ErrNil(rp+"RPCProviderServer.verifyRelayRequestMetaData"),
			ErrNil(rp+"RPCProviderServer.ExtractConsumerAddress"),
		)
		for _, s := range gs {
			a := ir.CallOf(s.Instr).Args
			_, calls := BackwardDeps(a[len(a)-1])
			if calls[rp+"RPCProviderServer.ExtractConsumerAddress"] {
				c.OK("C39b/verifyRelaySession/consumer=recovered-signer", c.P.InstrPos(s.Instr), ir.Desc(a[len(a)-1]))
			} else {
				c.Fail("C39b/verifyRelaySession/consumer=recovered-signer", c.P.InstrPos(s.Instr), "consumer address does not come from signature recovery: "+ir.Desc(a[len(a)-1]))
			}
		}
		for _, s := range c.CallsByName(vrs, true, psm+"IsValidEpoch") {
			a := ir.CallOf(s.Instr).Args
			f, _ := BackwardDeps(a[len(a)-1])
			if f["x/pairing/types.RelaySession.Epoch"] {
				c.OK("C39b/verifyRelaySession/IsValidEpoch-arg=session.Epoch", c.P.InstrPos(s.Instr), ir.Desc(a[len(a)-1]))
			} else {
				c.Fail("C39b/verifyRelaySession/IsValidEpoch-arg=session.Epoch", c.P.InstrPos(s.Instr), "epoch validity is checked on something other than the signed epoch")
			}
		}
		for _, s := range c.CallsByName(vrs, true, rp+"RPCProviderServer.verifyRelayRequestMetaData") {
			a := argDescs(ir.CallOf(s.Instr))
			n := len(a)
			if a[n-2] == "param#1.RelaySession" && a[n-1] == "param#1.RelayData" {
				c.OK("C39b/verifyRelaySession/metadata-args", c.P.InstrPos(s.Instr), a[n-2]+","+a[n-1])
			} else {
				c.Fail("C39b/verifyRelaySession/metadata-args", c.P.InstrPos(s.Instr), "metadata check not applied to the request's own session and data: "+a[n-2]+","+a[n-1])
			}
		}
		if es := c.Fn(rp + "RPCProviderServer.ExtractConsumerAddress"); es != nil {
			c.RequireGuards("C39b", c.SuccessReturns(es), "return-address", ErrNil("utils/sigs.ExtractSignerAddress"))
		}
		c.RequireCallers("C39b", rp+"RPCProviderServer.getSingleProviderSession", rp+"RPCProviderServer.verifyRelaySession")
		c.RequireCallers("C39b", rp+"RPCProviderServer.verifyRelaySession", rp+"RPCProviderServer.initRelay")

		c.Rule("C39c registration: RegisterProviderSessionWithConsumer is called only from getSingleProviderSession, dominated by VerifyPairing nil error and valid==true and GetMaxCuForUser nil error; GetSession, VerifyPairing, GetMaxCuForUser and the registration all use the same consumer, the request's epoch and spec; the provider passed to VerifyPairing is this provider's address")
		reg := c.CallsByName(gsps, true, psm+"RegisterProviderSessionWithConsumer")
		if len(reg) == 0 {
			c.Undecided("getSingleProviderSession no longer registers consumers")
		}
		vpName := "invoke:protocol/rpcprovider.StateTrackerInf.VerifyPairing"
		mcName := "invoke:protocol/rpcprovider.StateTrackerInf.GetMaxCuForUser"
		c.RequireGuards("C39c", reg, "RegisterProviderSessionWithConsumer",
			ErrNil(vpName), CallIs(true, vpName), ErrNil(mcName), ErrNonNil(psm+"GetSession"))
		c.RequireCallers("C39c", psm+"RegisterProviderSessionWithConsumer", rp+"RPCProviderServer.getSingleProviderSession")
		argOf := func(name string, idx int) (string, string) {
			ss := c.CallsByName(gsps, true, name)
			if len(ss) != 1 {
				c.Undecided("getSingleProviderSession: expected one call to %s, found %d", name, len(ss))
				return "", ""
			}
			call := ir.CallOf(ss[0].Instr)
			args := call.Args
			if !call.IsInvoke() {
				args = args[1:]
			}
			return ir.Desc(args[idx]), c.P.InstrPos(ss[0].Instr)
		}
		epochWant := "conv<uint64>(param#1.Epoch)"
		for _, q := range []struct {
			callee, what string
			idx        int
			want       string
		}{
			{psm + "GetSession", "consumer", 1, "param#2"},
			{psm + "GetSession", "epoch", 2, epochWant},
			{psm + "GetSession", "session", 3, "param#1.SessionId"},
			{psm + "GetSession", "relaynum", 4, "param#1.RelayNum"},
			{vpName, "consumer", 1, "param#2"},
			{vpName, "provider", 2, "call(github.com/cosmos/cosmos-sdk/types.AccAddress.String)(recv.providerAddress)"},
			{vpName, "epoch", 3, epochWant},
			{vpName, "spec", 4, "param#1.SpecId"},
			{mcName, "consumer", 1, "param#2"},
			{mcName, "spec", 2, "param#1.SpecId"},
			{mcName, "epoch", 3, epochWant},
			{psm + "RegisterProviderSessionWithConsumer", "consumer", 1, "param#2"},
			{psm + "RegisterProviderSessionWithConsumer", "epoch", 2, epochWant},
			{psm + "RegisterProviderSessionWithConsumer", "session", 3, "param#1.SessionId"},
			{psm + "RegisterProviderSessionWithConsumer", "relaynum", 4, "param#1.RelayNum"},
			{psm + "RegisterProviderSessionWithConsumer", "maxcu", 5, "invoke(protocol/rpcprovider.StateTrackerInf.GetMaxCuForUser)"},
			{psm + "RegisterProviderSessionWithConsumer", "paired", 6, "invoke(protocol/rpcprovider.StateTrackerInf.VerifyPairing)"},
		} {
			got, pos := argOf(q.callee, q.idx)
			if got == "" {
				continue
			}
			key := "C39c/getSingleProviderSession/arg/" + shortNames([]string{q.callee}) + "." + q.what
			if got == q.want || (strings.HasPrefix(q.want, "invoke(") && strings.HasPrefix(got, q.want)) {
				c.OK(key, pos, got)
			} else {
				c.Fail(key, pos, "expected "+q.want+", found "+got)
			}
		}

		c.Rule("C39d init: in initRelay, parsing and PrepareSessionForUsage happen after verifyRelaySession's nil-error outcome and after registering the deferred DisbandSession-on-error; initRelay's success return is dominated by the nil-error outcomes of verifyRelaySession, ParseAndValidateMessage and PrepareSessionForUsage")
		c.RequireGuards("C39d", c.SuccessReturns(initRelay), "return-session",
			ErrNil(rp+"RPCProviderServer.verifyRelaySession"),
			ErrNil("protocol/chainlib.ParseAndValidateMessage"),
			ErrNil(ls+"SingleProviderSession.PrepareSessionForUsage"))
		// deferred disband closure registered before the first fallible step after verification
		var disbandDefer ssa.Instruction
		ir.EachInstr(initRelay, func(in ssa.Instruction) {
			d, ok := in.(*ssa.Defer)
			if !ok {
				return
			}
			if mc, ok := d.Call.Value.(*ssa.MakeClosure); ok {
				cl := mc.Fn.(*ssa.Function)
				if len(c.CallsByName(cl, true, ls+"SingleProviderSession.DisbandSession")) > 0 {
					// the disband must be conditional on the named error result only
					ds := c.CallsByName(cl, true, ls+"SingleProviderSession.DisbandSession")
					facts := ir.GuardFacts(ds[0].Instr)
					if len(facts) == 1 && strings.HasSuffix(facts[0], " != nil)") {
						disbandDefer = in
					}
				}
			}
		})
		if disbandDefer == nil {
			c.Fail("C39d/initRelay/deferred-disband-on-error", c.P.Pos(initRelay.Pos()), "initRelay does not register a deferred DisbandSession conditional on err != nil")
		} else {
			for _, n := range []string{"protocol/chainlib.ParseAndValidateMessage", ls + "SingleProviderSession.PrepareSessionForUsage"} {
				for _, s := range c.CallsByName(initRelay, false, n) {
					key := "C39d/initRelay/defer-disband-before=" + shortNames([]string{n})
					if disbandDefer.Block().Dominates(s.Instr.Block()) {
						c.OK(key, c.P.InstrPos(s.Instr), "deferred DisbandSession registered at "+c.P.InstrPos(disbandDefer))
					} else {
						c.Fail(key, c.P.InstrPos(s.Instr), "a failure here would leave the session locked: no deferred disband registered on this path")
					}
				}
			}
		}

		c.Rule("C39e release: in Relay, after initRelay's nil-error outcome every path to a return passes OnSessionFailure or hands the session to the resource limiter closure (Acquire), whose closure reaches finalizeSession on every path; finalizeSession releases with OnSessionFailure or OnSessionDone on every path; the limiter-rejected outcome (err!=nil && !executionStarted) passes OnSessionFailure. In TryRelaySubscribe every path to a return passes OnSessionFailure or OnSessionDone. Assumption: the session pointer is non-nil after a nil-error initRelay.")
		c.Assumes("after initRelay returns a nil error the *SingleProviderSession is non-nil (static providers aside); `session == nil` outcomes are treated as infeasible in the release-on-all-paths rules")
		nilSess := NilEdgeOfType(ls + "SingleProviderSession")
		acq := "invoke:protocol/rpcprovider.ResourceLimiterInf.Acquire"
		acqSites := c.CallsByName(relay, false, acq, rp+"ResourceLimiter.Acquire")
		acqNames := []string{acq, rp + "ResourceLimiter.Acquire"}
		if len(acqSites) != 1 {
			c.Undecided("Relay: expected one resourceLimiter.Acquire call, found %d", len(acqSites))
		}
		inits := c.CallsIn(relay, initRelay, false)
		if len(inits) != 1 {
			c.Undecided("Relay: expected one initRelay call, found %d", len(inits))
		} else {
			// start after the err != nil early return of initRelay: the block on the nil edge
			var start ssa.Instruction
			for _, ie := range c.IfsMatching(relay, ErrNil(rp+"RPCProviderServer.initRelay")) {
				b := ie.If.Block()
				s := b.Succs[0]
				if !ie.Edge {
					s = b.Succs[1]
				}
				start = s.Instrs[0]
			}
			if start == nil {
				c.Fail("C39e/Relay/initRelay-error-checked", c.P.InstrPos(inits[0].Instr), "initRelay's error is not branched on")
			} else {
				r := c.MustPassOpt(relay, start, IsCallTo(append(acqNames, psm+"OnSessionFailure")...), nil, nilSess)
				if r.OK {
					c.OK("C39e/Relay/release-on-all-paths", c.P.InstrPos(inits[0].Instr), "every return after initRelay passes OnSessionFailure or the limiter hand-off")
				} else {
					c.Fail("C39e/Relay/release-on-all-paths", c.P.InstrPos(inits[0].Instr), "a path returns after initRelay without releasing the session: "+r.Witness)
				}
			}
		}
		// limiter closure -> finalizeSession on every path
		for _, s := range acqSites {
			call := ir.CallOf(s.Instr)
			var cl *ssa.Function
			for _, a := range call.Args {
				if mc, ok := a.(*ssa.MakeClosure); ok {
					cl = mc.Fn.(*ssa.Function)
				}
			}
			if cl == nil {
				c.Undecided("Relay: Acquire is not given a closure literal")
				continue
			}
			r := c.MustPass(cl, nil, IsCallTo(rp+"RPCProviderServer.finalizeSession"), nil)
			if r.OK {
				c.OK("C39e/Relay$closure/must-pass=finalizeSession", c.P.Pos(cl.Pos()), "all paths")
			} else {
				c.Fail("C39e/Relay$closure/must-pass=finalizeSession", c.P.Pos(cl.Pos()), "the limiter closure can return without finalizing the session: "+r.Witness)
			}
			// limiter rejected: err != nil && !executionStarted -> OnSessionFailure
			r2 := c.MustPassOpt(relay, s.Instr, IsCallTo(psm+"OnSessionFailure"), func(ret *ssa.Return) bool {
				// returns reached with executionStarted==false
				for _, f := range ir.GuardFacts(ret) {
					if strings.HasPrefix(f, "!") && strings.Contains(f, "local(bool)") || strings.HasPrefix(f, "!free(") {
						return true
					}
				}
				return false
			}, nilSess)
			if r2.OK {
				c.OK("C39e/Relay/limiter-rejected-releases", c.P.InstrPos(s.Instr), "the not-started outcome passes OnSessionFailure")
			} else {
				c.Fail("C39e/Relay/limiter-rejected-releases", c.P.InstrPos(s.Instr), "limiter rejection returns without rolling the session back: "+r2.Witness)
			}
		}
		r := c.MustPass(fin, nil, IsCallTo(sessionReleaseCalls...), nil)
		if r.OK {
			c.OK("C39e/finalizeSession/must-pass=release", c.P.Pos(fin.Pos()), "OnSessionFailure or OnSessionDone on all paths")
		} else {
			c.Fail("C39e/finalizeSession/must-pass=release", c.P.Pos(fin.Pos()), "finalizeSession can return without releasing the session: "+r.Witness)
		}
		// finalizeSession: OnSessionDone only on the non-error branch, OnSessionFailure only on the error branch
		c.RequireGuards("C39e", c.CallsByName(fin, false, psm+"OnSessionDone"), "OnSessionDone", FactPrefix("not-relay-error", "!param#0"))
		c.RequireGuards("C39e", c.CallsByName(fin, false, psm+"OnSessionFailure"), "OnSessionFailure", FactPrefix("relay-error", "param#0"))
		r = c.MustPassOpt(trs, nil, IsCallTo(sessionReleaseCalls...), nil, nilSess)
		if r.OK {
			c.OK("C39e/TryRelaySubscribe/must-pass=release", c.P.Pos(trs.Pos()), "all paths")
		} else {
			c.Fail("C39e/TryRelaySubscribe/must-pass=release", c.P.Pos(trs.Pos()), "a subscribe request is rejected after initRelay charged and locked the session, without OnSessionFailure: "+r.Witness)
		}
		// RelaySubscribe hands over to TryRelaySubscribe on every path after initRelay
		if ss := c.CallsIn(rsub, initRelay, false); len(ss) == 1 {
			r := c.MustPassOpt(rsub, ss[0].Instr, IsCallTo(rp+"RPCProviderServer.TryRelaySubscribe"), nil, func(iff *ssa.If, edge bool) bool {
				return ErrNonNil(rp+"RPCProviderServer.initRelay").Match(ir.Guard{If: iff, Edge: edge})
			})
			if r.OK {
				c.OK("C39e/RelaySubscribe/must-pass=TryRelaySubscribe", c.P.InstrPos(ss[0].Instr), "all paths after a successful initRelay")
			} else {
				c.Fail("C39e/RelaySubscribe/must-pass=TryRelaySubscribe", c.P.InstrPos(ss[0].Instr), r.Witness)
			}
		} else {
			c.Undecided("RelaySubscribe: expected one initRelay call")
		}
		c.RequireCallers("C39e", rp+"RPCProviderServer.initRelay", rp+"RPCProviderServer.Relay", rp+"RPCProviderServer.RelaySubscribe")

		c.Rule("C39f claims: SendProof is started only from finalizeSession (non-error branch, OnSessionDone nil error, paying relay) and from TryRelaySubscribe after AddConsumer succeeded")
		c.RequireCallers("C39f", rp+"RPCProviderServer.SendProof", rp+"RPCProviderServer.finalizeSession", rp+"RPCProviderServer.TryRelaySubscribe")
		c.RequireGuards("C39f", c.CallsByName(fin, true, rp+"RPCProviderServer.SendProof"), "SendProof",
			FactPrefix("not-relay-error", "!param#0"), ErrNil(psm+"OnSessionDone"), CallIs(true, ls+"SingleProviderSession.IsPayingRelay"))
		c.RequireGuards("C39f", c.CallsByName(trs, false, rp+"RPCProviderServer.SendProof"), "SendProof",
			ErrNil("invoke:protocol/rpcprovider.ProviderNodeSubscriptionManagerInf.AddConsumer", "protocol/chainlib.ProviderNodeSubscriptionManager.AddConsumer"))
		c.Rule("C39g the chain's pairing answer is remembered per (consumer, chain, epoch, provider): every key ProviderStateQuery.entryKey can return is built from all four parameters, and VerifyPairing looks up and stores under entryKey of its own consumer, chain, epoch and provider — an answer cached without the epoch admits a consumer in an epoch the chain never paired it in")
		const sq = "protocol/statetracker/updaters."
		c.RequireAllParamsInEveryResult("C39g", sq+"ProviderStateQuery.entryKey")
		if vp := c.Fn(sq + "ProviderStateQuery.VerifyPairing"); vp != nil {
			sites := c.CallsByName(vp, false, sq+"ProviderStateQuery.entryKey")
			if len(sites) == 0 {
				c.Fail("C39g/VerifyPairing/key=entryKey(consumer,chain,epoch,provider)", c.P.Pos(vp.Pos()), "VerifyPairing no longer derives its cache key from entryKey")
			}
			for _, s := range sites {
				a := ir.CallOf(s.Instr).Args
				// VerifyPairing(ctx, consumer, provider, epoch, chain); entryKey(recv, consumer, chain, epoch, provider)
				if len(a) == 5 && len(vp.Params) == 6 && a[1] == ssa.Value(vp.Params[2]) && a[2] == ssa.Value(vp.Params[5]) && a[3] == ssa.Value(vp.Params[4]) && a[4] == ssa.Value(vp.Params[3]) {
					c.OK("C39g/VerifyPairing/key=entryKey(consumer,chain,epoch,provider)", c.P.InstrPos(s.Instr), "own parameters in the right slots")
				} else {
					c.Fail("C39g/VerifyPairing/key=entryKey(consumer,chain,epoch,provider)", c.P.InstrPos(s.Instr), "VerifyPairing's cache key is not entryKey of its own consumer, chain, epoch and provider: "+strings.Join(argDescs(ir.CallOf(s.Instr)), ","))
				}
			}
		}
		c.NotCovered("equality of session/CU state before and after a rejected request (value clause); correctness of VerifyPairing's on-chain query")
	})
}

