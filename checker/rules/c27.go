package rules

import (
	"fmt"
	"go/token"
	"go/types"
	"strings"

	"golang.org/x/tools/go/ssa"

	"lavaverif/checker/ir"
)

const (
	sps  = "protocol/lavasession.SingleProviderSession."
	pswc = "protocol/lavasession.ProviderSessionsWithConsumerProject."
)

// fieldAccesses classifies every use of a struct field's address: atomic (argument of a
// sync/atomic function), plain read, plain write; fresh==true when the base object is a
// just-allocated literal in the same function (constructor).
type fieldAccess struct {
	Fn    *ssa.Function
	Instr ssa.Instruction
	Kind  string // "atomic" | "read" | "write" | "escape"
	Fresh bool
}

func (c *Ctx) fieldAccesses(fieldKey string) []fieldAccess {
	var out []fieldAccess
	for _, fa := range c.FieldAddrUses(fieldKey) {
		fresh := false
		if a, ok := fa.X.(*ssa.Alloc); ok && a.Heap {
			fresh = true
		}
		refs := fa.Referrers()
		if refs == nil {
			continue
		}
		for _, r := range *refs {
			switch x := r.(type) {
			case *ssa.DebugRef:
			case *ssa.UnOp:
				if x.Op == token.MUL {
					out = append(out, fieldAccess{fa.Parent(), r, "read", fresh})
				}
			case *ssa.Store:
				if x.Addr == fa {
					out = append(out, fieldAccess{fa.Parent(), r, "write", fresh})
				} else {
					out = append(out, fieldAccess{fa.Parent(), r, "escape", fresh})
				}
			case ssa.CallInstruction:
				if strings.HasPrefix(ir.CalleeName(x.Common()), "sync/atomic.") {
					out = append(out, fieldAccess{fa.Parent(), r, "atomic", fresh})
				} else {
					out = append(out, fieldAccess{fa.Parent(), r, "escape", fresh})
				}
			default:
				out = append(out, fieldAccess{fa.Parent(), r, "escape", fresh})
			}
		}
	}
	return out
}

// RequireAtomicOnly: a field that is accessed through sync/atomic somewhere is accessed
// through sync/atomic everywhere (constructors excepted).
func (c *Ctx) RequireAtomicOnly(rule, fieldKey string, minAtomic int) {
	acc := c.fieldAccesses(fieldKey)
	na := 0
	for _, a := range acc {
		if a.Kind == "atomic" {
			na++
		}
	}
	if na < minAtomic {
		c.Undecided("%s: field %s has %d atomic accesses, expected at least %d", rule, fieldKey, na, minAtomic)
	}
	plain := 0
	perFn := map[string][]string{}
	var order []string
	for _, a := range acc {
		if a.Kind == "atomic" || a.Fresh {
			continue
		}
		plain++
		n := topName(a.Fn)
		if _, ok := perFn[n]; !ok {
			order = append(order, n)
		}
		perFn[n] = append(perFn[n], a.Kind+"@"+c.P.InstrPos(a.Instr))
	}
	for _, n := range order {
		c.Fail(fmt.Sprintf("%s/%s/plain-access-in=%s", rule, fieldKey, n), strings.SplitN(perFn[n][0], "@", 2)[1],
			fmt.Sprintf("%s is accessed with sync/atomic elsewhere (%d sites) but plainly here (%s): the two families of accesses do not synchronise with each other", fieldKey, na, strings.Join(perFn[n], ", ")))
	}
	if plain == 0 {
		c.OK(fmt.Sprintf("%s/%s/atomic-only", rule, fieldKey), "-", fmt.Sprintf("%d atomic accesses, no plain access outside constructors", na))
	}
}

func init() {
	register("C27", "other", func(c *Ctx) {
		c.Explain = "Provider sessions enforce CU limits and replay protection: decided as lock discipline on the session fields (every write dominated by the VerifyLock assertion), atomic-only discipline on the CU counters, compare-and-swap shape of the limit check, same-value agreement of the three CU updates of a relay and of its roll-back, ordering of the relay-number check after lock acquisition, check-then-insert of new sessions, release-on-all-paths, and unsigned-wrap guards."
		prep := c.Fn(sps + "PrepareSessionForUsage")
		vadd := c.Fn(sps + "validateAndAddUsedCU")
		fail := c.Fn(sps + "onSessionFailure")
		done := c.Fn(sps + "onSessionDone")
		getSingle := c.Fn(psm + "getSingleSessionFromProviderSessionWithConsumer")
		create := c.Fn(pswc + "createNewSingleProviderSession")
		osf := c.Fn(psm + "OnSessionFailure")
		upd := c.Fn(psm + "UpdateSessionCU")
		if prep == nil || vadd == nil || fail == nil || done == nil || getSingle == nil || create == nil || osf == nil || upd == nil {
			return
		}

		c.Rule("C27a guarded-by: every plain store to SingleProviderSession.{CuSum,LatestRelayCu,RelayNum} is dominated by the nil outcome of the VerifyLock assertion (the session mutex is held by the caller), constructors excepted")
		for _, f := range []string{"CuSum", "LatestRelayCu", "RelayNum"} {
			key := "protocol/lavasession.SingleProviderSession." + f
			n := 0
			for _, a := range c.fieldAccesses(key) {
				if a.Kind != "write" || a.Fresh {
					continue
				}
				n++
				c.RequireGuards("C27a", []Site{{Fn: a.Fn, Instr: a.Instr, Kind: "store"}}, f+":=", ErrNil(sps+"VerifyLock"))
			}
			if n == 0 {
				c.Undecided("no store to %s found (frozen minimum 1)", key)
			}
		}

		c.Rule("C27b atomic-only: a CU counter accessed through sync/atomic anywhere is accessed through sync/atomic everywhere")
		c.RequireAtomicOnly("C27b", "protocol/lavasession.ProviderSessionsEpochData.UsedComputeUnits", 3)
		c.RequireAtomicOnly("C27b", "protocol/lavasession.ProviderSessionsEpochData.MissingComputeUnits", 2)
		c.RequireAtomicOnly("C27b", "protocol/lavasession.ProviderSessionsEpochData.MaxComputeUnits", 1)
		c.Rule("C27b' lock discipline: every access to SingleProviderSession.CuSum (plain or atomic) happens with the session mutex held — dominated by the VerifyLock assertion or by sps.lock.Lock() in the same function — or flows only into logging")
		nacc := 0
		for _, a := range c.fieldAccesses("protocol/lavasession.SingleProviderSession.CuSum") {
			if a.Fresh {
				continue
			}
			nacc++
			where := a.Instr
			fn := a.Fn
			// accessor wrappers: judge their call sites instead
			if n := ir.FuncName(fn); n == sps+"atomicReadCuSum" || n == sps+"writeCuSumAtomically" {
				for _, ref := range c.References(fn) {
					c.lockHeldOrLogged("C27b'", ref.Fn, ref.Instr, "CuSum via "+shortNames([]string{n}))
				}
				continue
			}
			c.lockHeldOrLogged("C27b'", fn, where, "CuSum "+a.Kind)
		}
		if nacc < 5 {
			c.Undecided("expected at least 5 accesses to SingleProviderSession.CuSum, found %d", nacc)
		}

		c.Rule("C27c limit: validateAndAddUsedCU returns nil only after usedCu+currentCU <= maxCu*(virtualEpoch+1) on the value it then compare-and-swaps from; the unconditional atomic store of used CU has no caller (every update is a CAS)")
		c.RequireGuards("C27c", c.SuccessReturns(vadd), "return-nil",
			CallIs(true, pswc+"atomicCompareAndWriteUsedComputeUnits"),
			FactHas("within-limit", "atomicReadUsedComputeUnits)", "+ param#0) <= ((const(1) + param#2) * param#1))"),
		)
		for _, s := range c.CallsByName(vadd, false, pswc+"atomicCompareAndWriteUsedComputeUnits") {
			a := argDescs(ir.CallOf(s.Instr))
			n := len(a)
			read := "call(" + pswc + "atomicReadUsedComputeUnits)(recv.userSessionsParent)"
			if a[n-1] == read && a[n-2] == "("+read+" + param#0)" {
				c.OK("C27c/validateAndAddUsedCU/cas-args", c.P.InstrPos(s.Instr), a[n-2]+" ← "+a[n-1])
			} else {
				c.Fail("C27c/validateAndAddUsedCU/cas-args", c.P.InstrPos(s.Instr), "compare-and-swap does not go from the value the limit was checked on to that value plus the relay CU: "+a[n-2]+" ← "+a[n-1])
			}
		}
		// the value read for the check and the CAS must be one and the same read
		reads := c.CallsByName(vadd, false, pswc+"atomicReadUsedComputeUnits")
		if len(reads) == 1 {
			c.OK("C27c/validateAndAddUsedCU/single-read", c.P.InstrPos(reads[0].Instr), "one read per loop iteration feeds check and CAS")
		} else {
			c.Fail("C27c/validateAndAddUsedCU/single-read", c.P.Pos(vadd.Pos()), fmt.Sprintf("expected one atomic read per iteration, found %d: check and swap may use different values", len(reads)))
		}
		c.RequireCallers("C27c", pswc+"atomicWriteUsedComputeUnits")
		c.RequireCallers("C27c", sps+"writeCuSumAtomically", psm+"UpdateSessionCU")
		// max CU passed is the parent's, virtual epoch is the caller's
		for _, s := range c.CallsByName(prep, false, sps+"validateAndAddUsedCU") {
			a := argDescs(ir.CallOf(s.Instr))
			n := len(a)
			if a[n-2] == "call("+pswc+"atomicReadMaxComputeUnits)(recv.userSessionsParent)" && a[n-1] == "param#4" {
				c.OK("C27c/PrepareSessionForUsage/limit-args", c.P.InstrPos(s.Instr), a[n-2]+","+a[n-1])
			} else {
				c.Fail("C27c/PrepareSessionForUsage/limit-args", c.P.InstrPos(s.Instr), "limit not computed from the consumer's max CU and the caller's virtual epoch: "+a[n-2]+","+a[n-1])
			}
		}

		c.Rule("C27d same-value: in PrepareSessionForUsage the CU added to the consumer's used CU (validateAndAddUsedCU), stored in LatestRelayCu and added to CuSum are one SSA value, and both stores are dominated by validateAndAddUsedCU's nil outcome; in onSessionFailure CuSum and used CU are both reduced by LatestRelayCu before it is zeroed")
		var cuArg ssa.Value
		for _, s := range c.CallsByName(prep, false, sps+"validateAndAddUsedCU") {
			args := ir.CallOf(s.Instr).Args
			cuArg = args[len(args)-3]
		}
		if cuArg == nil {
			c.Undecided("PrepareSessionForUsage does not call validateAndAddUsedCU")
		} else {
			ir.EachInstr(prep, func(in ssa.Instruction) {
				st, ok := in.(*ssa.Store)
				if !ok {
					return
				}
				fa, ok := st.Addr.(*ssa.FieldAddr)
				if !ok {
					return
				}
				switch ir.FieldKey(fa) {
				case "protocol/lavasession.SingleProviderSession.LatestRelayCu":
					if st.Val == cuArg {
						c.OK("C27d/PrepareSessionForUsage/LatestRelayCu=charged", c.P.InstrPos(in), ir.DescN(st.Val, 3))
					} else {
						c.Fail("C27d/PrepareSessionForUsage/LatestRelayCu=charged", c.P.InstrPos(in), "LatestRelayCu (the amount rolled back on failure) is "+ir.DescN(st.Val, 4)+" but the consumer was charged "+ir.DescN(cuArg, 4))
					}
					c.RequireGuards("C27d", []Site{{Fn: prep, Instr: in}}, "LatestRelayCu:=", ErrNil(sps+"validateAndAddUsedCU"))
				case "protocol/lavasession.SingleProviderSession.CuSum":
					b, ok := st.Val.(*ssa.BinOp)
					if ok && b.Op == token.ADD && (b.Y == cuArg || b.X == cuArg) && (strings.HasSuffix(ir.Desc(b.X), "recv.CuSum") || strings.HasSuffix(ir.Desc(b.Y), "recv.CuSum")) {
						c.OK("C27d/PrepareSessionForUsage/CuSum+=charged", c.P.InstrPos(in), ir.DescN(st.Val, 3))
					} else {
						c.Fail("C27d/PrepareSessionForUsage/CuSum+=charged", c.P.InstrPos(in), "CuSum is not increased by exactly the charged amount: "+ir.DescN(st.Val, 4))
					}
					c.RequireGuards("C27d", []Site{{Fn: prep, Instr: in}}, "CuSum:=", ErrNil(sps+"validateAndAddUsedCU"))
				}
			})
		}
		// roll-back
		var zeroIdx, subIdx, cuIdx = -1, -1, -1
		n := 0
		ir.EachInstr(fail, func(in ssa.Instruction) {
			n++
			switch x := in.(type) {
			case *ssa.Store:
				if fa, ok := x.Addr.(*ssa.FieldAddr); ok {
					switch ir.FieldKey(fa) {
					case "protocol/lavasession.SingleProviderSession.LatestRelayCu":
						if isZeroConst(x.Val) {
							zeroIdx = n
						} else {
							c.Fail("C27d/onSessionFailure/LatestRelayCu:=0", c.P.InstrPos(in), "stores "+ir.Desc(x.Val))
						}
					case "protocol/lavasession.SingleProviderSession.CuSum":
						if ir.Desc(x.Val) == "(recv.CuSum - recv.LatestRelayCu)" {
							cuIdx = n
						} else {
							c.Fail("C27d/onSessionFailure/CuSum-=LatestRelayCu", c.P.InstrPos(in), "stores "+ir.Desc(x.Val))
						}
					}
				}
			case *ssa.Call:
				if ir.CalleeName(&x.Call) == sps+"validateAndSubUsedCU" {
					if ir.Desc(x.Call.Args[len(x.Call.Args)-1]) == "recv.LatestRelayCu" {
						subIdx = n
					} else {
						c.Fail("C27d/onSessionFailure/usedCU-=LatestRelayCu", c.P.InstrPos(in), "rolls back "+ir.Desc(x.Call.Args[len(x.Call.Args)-1]))
					}
				}
			}
		})
		if cuIdx > 0 && subIdx > 0 && zeroIdx > cuIdx && zeroIdx > subIdx {
			c.OK("C27d/onSessionFailure/rollback-both-then-zero", c.P.Pos(fail.Pos()), "CuSum and used CU reduced by LatestRelayCu, then LatestRelayCu=0")
		} else {
			c.Fail("C27d/onSessionFailure/rollback-both-then-zero", c.P.Pos(fail.Pos()), fmt.Sprintf("roll-back incomplete or out of order (CuSum@%d usedCU@%d zero@%d)", cuIdx, subIdx, zeroIdx))
		}
		c.RequireGuards("C27d", c.CallsByName(osf, false, sps+"onSessionFailure"), "onSessionFailure", CallIs(true, psm+"IsValidEpoch"))

		c.Rule("C27e relay number: getSingleSessionFromProviderSessionWithConsumer returns the session only on the false outcome of RelayNum+1 > relayNumber, evaluated after the session lock was taken (after getSessionFromAnActiveConsumer's nil outcome), and unlocks on the failing outcome; onSessionDone stores the completed relay number")
		c.RequireGuards("C27e", c.SuccessReturns(getSingle), "return-session",
			ErrNil(psm+"getSessionFromAnActiveConsumer"),
			FactHas("relaynum-increases", ".RelayNum + const(1)) <= param#4)"),
			Cmp("consumer-not-blocked", "atomicReadConsumerBlocked)", "==", "const(0)"),
		)
		for _, ie := range c.IfsMatching(getSingle, FactHas("relaynum-stale", "(param#4 < (", ".RelayNum + const(1)))")) {
			b := ie.If.Block()
			s := b.Succs[0]
			if !ie.Edge {
				s = b.Succs[1]
			}
			rr := c.MustPass(getSingle, s.Instrs[0], func(in ssa.Instruction) bool {
				call := ir.CallOf(in)
				return call != nil && ir.CalleeName(call) == "sync.RWMutex.Unlock"
			}, nil)
			if rr.OK {
				c.OK("C27e/getSingleSession/stale-relaynum-unlocks", c.P.InstrPos(ie.If), "failing outcome unlocks the session")
			} else {
				c.Fail("C27e/getSingleSession/stale-relaynum-unlocks", c.P.InstrPos(ie.If), "a stale relay number returns with the session still locked: "+rr.Witness)
			}
		}
		for _, a := range c.fieldAccesses("protocol/lavasession.SingleProviderSession.RelayNum") {
			if a.Kind == "write" && !a.Fresh {
				st := a.Instr.(*ssa.Store)
				key := "C27e/" + topName(a.Fn) + "/RelayNum:=param"
				if topName(a.Fn) == sps+"onSessionDone" && ir.Desc(st.Val) == "param#0" {
					c.OK(key, c.P.InstrPos(st), "completed relay number recorded")
				} else {
					c.Fail(key, c.P.InstrPos(st), "RelayNum written outside onSessionDone or with a value other than the completed relay number: "+ir.Desc(st.Val))
				}
			}
		}
		// lock acquisition precedes: the functions that hand out sessions lock them
		for _, fnn := range []string{pswc + "getExistingSession", pswc + "createNewSingleProviderSession"} {
			if f := c.Fn(fnn); f != nil {
				var rets []Site
				for _, r := range c.SuccessReturns(f) {
					if !isNilConst(RetVal(r.Instr.(*ssa.Return), 0)) {
						rets = append(rets, r)
					}
				}
				for _, r := range rets {
					res := c.mustPassBefore(f, r.Instr, IsCallTo(sps+"lockForUse", sps+"tryLockForUse", pswc+"getExistingSession"))
					if res {
						c.OK("C27e/"+fnn+"/returns-locked-session", c.P.InstrPos(r.Instr), "lock attempt on every path to this return")
					} else {
						c.Fail("C27e/"+fnn+"/returns-locked-session", c.P.InstrPos(r.Instr), "a session can be returned without a lock attempt")
					}
				}
			}
		}

		c.Rule("C27f check-then-insert: an insertion into the per-consumer session map under its write lock is dominated, inside the same critical section, by a lookup of the same key (two first uses of one session id must not create two sessions)")
		ir.EachInstr(create, func(in ssa.Instruction) {
			mu, ok := in.(*ssa.MapUpdate)
			if !ok || !strings.HasSuffix(ir.Desc(mu.Map), ".Sessions") {
				return
			}
			found := false
			for _, g := range ir.Guards(in) {
				if strings.Contains(g.Fact, ".Sessions["+ir.Desc(mu.Key)+"]") {
					found = true
				}
			}
			key := "C27f/createNewSingleProviderSession/insert-rechecks-under-write-lock"
			if found {
				c.OK(key, c.P.InstrPos(in), "insertion dominated by a lookup of the same key")
			} else {
				c.Fail(key, c.P.InstrPos(in), "Sessions[sessionId] is overwritten without re-checking under the write lock: two concurrent first relays of one session id (both saw SessionDoesNotExist under the read lock) create two sessions, both locked and in progress")
			}
		})
		// the same for the per-project record that carries the epoch's CU counter
		if rnc := c.Fn("protocol/lavasession.ProviderSessionManager.registerNewConsumer"); rnc != nil {
			nins := 0
			ir.EachInstr(rnc, func(in ssa.Instruction) {
				mu, ok := in.(*ssa.MapUpdate)
				if !ok || !strings.HasSuffix(ir.Desc(mu.Map), ".sessionMap") {
					return
				}
				nins++
				found := false
				for _, g := range ir.Guards(in) {
					if strings.HasPrefix(g.Fact, "!") && strings.Contains(g.Fact, ".sessionMap["+ir.Desc(mu.Key)+"]#1") {
						found = true
					}
				}
				key := "C27f/registerNewConsumer/project-record-inserted-only-if-absent"
				if found {
					c.OK(key, c.P.InstrPos(in), "dominated by the not-found outcome of a lookup of the same project id")
				} else {
					c.Fail(key, c.P.InstrPos(in), "sessionMap[projectId] is (re)assigned without the record being absent: a second consumer address of the same project, registering concurrently, replaces the project's record and resets its used-CU counter for the epoch")
				}
			})
			if nins == 0 {
				c.Undecided("C27f: no insertion into sessionMap found in registerNewConsumer")
			}
		}

		c.Rule("C27g release: onSessionDone and onSessionFailure unlock the session on every path after the VerifyLock assertion; DisbandSession unlocks only when LatestRelayCu==0")
		for _, f := range []*ssa.Function{done, fail} {
			var start ssa.Instruction
			for _, ie := range c.IfsMatching(f, ErrNil(sps+"VerifyLock")) {
				b := ie.If.Block()
				s := b.Succs[0]
				if !ie.Edge {
					s = b.Succs[1]
				}
				start = s.Instrs[0]
			}
			if start == nil {
				c.Fail("C27g/"+ir.FuncName(f)+"/asserts-lock", c.P.Pos(f.Pos()), "no VerifyLock assertion")
				continue
			}
			unlock := func(in ssa.Instruction) bool {
				call := ir.CallOf(in)
				return call != nil && ir.CalleeName(call) == "sync.RWMutex.Unlock"
			}
			rr := c.MustPass(f, nil, func(in ssa.Instruction) bool { return in == start && unlock(in) || unlock(in) }, func(r *ssa.Return) bool {
				return start.Block().Dominates(r.Block())
			})
			if rr.OK {
				c.OK("C27g/"+ir.FuncName(f)+"/unlock-on-all-paths", c.P.Pos(f.Pos()), "Unlock (direct or deferred) on every path past the assertion")
			} else {
				c.Fail("C27g/"+ir.FuncName(f)+"/unlock-on-all-paths", c.P.Pos(f.Pos()), "session stays locked: "+rr.Witness)
			}
		}

		c.Rule("C27h unsigned-wrap: the CU subtractions of the session code cannot wrap")
		c.RequireNoUnsignedWrap("C27h", sps+"PrepareSessionForUsage", 2)
		c.RequireNoUnsignedWrap("C27h", sps+"validateAndSubUsedCU", 1, SubAudit{"atomicReadUsedComputeUnits", "belief: the amount subtracted was previously added to the same counter by validateAndAddUsedCU of this session (C27d same-value rule) and is subtracted at most once (LatestRelayCu zeroed under the session lock)"})
		c.RequireNoUnsignedWrap("C27h", sps+"onSessionFailure", 1, SubAudit{"recv.CuSum - recv.LatestRelayCu", "belief: LatestRelayCu was added to CuSum by PrepareSessionForUsage under the same lock (C27d same-value rule)"})
		c.RequireNoUnsignedWrap("C27h", psm+"UpdateSessionCU", 1)
		c.NotCovered("the accounting equality (used CU == sum of session CuSums) over all schedules; liveness of the try-lock")
	})
}

// lockHeldOrLogged records one obligation for an access to a session field: the session
// mutex is held (VerifyLock assertion passed, or sps.lock.Lock() called earlier on every
// path in this function), or the value only feeds logging.
func (c *Ctx) lockHeldOrLogged(rule string, fn *ssa.Function, at ssa.Instruction, what string) {
	key := fmt.Sprintf("%s/%s/%s", rule, topName(fn), what)
	for _, g := range ir.Guards(at) {
		if ErrNil(sps + "VerifyLock").Match(g) {
			c.OK(key, c.P.InstrPos(at), "VerifyLock assertion passed")
			return
		}
	}
	locked := c.mustPassBefore(fn, at, func(in ssa.Instruction) bool {
		call := ir.CallOf(in)
		if call == nil {
			return false
		}
		if _, isDefer := in.(*ssa.Defer); isDefer {
			return false
		}
		n := ir.CalleeName(call)
		if n == sps+"lockForUse" {
			return true
		}
		return n == "sync.RWMutex.Lock" && len(call.Args) > 0 && strings.HasSuffix(ir.Desc(call.Args[0]), ".lock") && strings.Contains(ir.TypeName(fieldBaseType(call.Args[0])), "SingleProviderSession")
	})
	if locked {
		c.OK(key, c.P.InstrPos(at), "session mutex locked earlier on every path")
		return
	}
	if v, ok := at.(ssa.Value); ok && onlyLogged(v) {
		c.Note(key, c.P.InstrPos(at), "unsynchronised read feeds logging only")
		return
	}
	c.Fail(key, c.P.InstrPos(at), "session field accessed without the session mutex: it races with relays that change it under the mutex")
}

// fieldBaseType: for &x.f the type of x (pointer stripped by TypeName).
func fieldBaseType(v ssa.Value) types.Type {
	if fa, ok := v.(*ssa.FieldAddr); ok {
		return fa.X.Type()
	}
	return v.Type()
}

// mustPassBefore: every path from the entry of fn to instruction target passes an
// instruction satisfying through.
func (c *Ctx) mustPassBefore(fn *ssa.Function, target ssa.Instruction, through func(ssa.Instruction) bool) bool {
	// forward search from entry avoiding `through`; target reachable => false
	seen := map[*ssa.BasicBlock]bool{}
	var work []*ssa.BasicBlock
	work = append(work, fn.Blocks[0])
	for len(work) > 0 {
		b := work[len(work)-1]
		work = work[:len(work)-1]
		if seen[b] {
			continue
		}
		seen[b] = true
		blocked := false
		for _, in := range b.Instrs {
			if through(in) {
				blocked = true
				break
			}
			if in == target {
				return false
			}
		}
		if blocked {
			continue
		}
		work = append(work, b.Succs...)
	}
	return true
}
