package rules

import (
	"fmt"
	"strings"

	"golang.org/x/tools/go/ssa"

	"lavaverif/checker/ir"
)

const (
	rk = "x/rewards/keeper."
)

// valueRoots: the allocations (locals) and calls in the backward data slice of v — two
// amounts "derive from the same value" when their root sets intersect.
func valueRoots(v ssa.Value) map[ssa.Value]bool {
	roots := map[ssa.Value]bool{}
	seen := map[ssa.Value]bool{}
	var walk func(v ssa.Value)
	walk = func(v ssa.Value) {
		if v == nil || seen[v] {
			return
		}
		seen[v] = true
		switch x := v.(type) {
		case *ssa.Alloc:
			roots[x] = true
			if refs := x.Referrers(); refs != nil {
				for _, r := range *refs {
					switch y := r.(type) {
					case *ssa.Store:
						if y.Addr == x {
							walk(y.Val)
						}
					case *ssa.IndexAddr:
						walkStores(y, walk)
					case *ssa.FieldAddr:
						walkStores(y, walk)
					}
				}
			}
		case *ssa.Call:
			roots[x] = true
		case *ssa.Parameter:
			roots[x] = true
		}
		if in, ok := v.(ssa.Instruction); ok {
			for _, op := range in.Operands(nil) {
				if op != nil && *op != nil {
					walk(*op)
				}
			}
		}
	}
	walk(v)
	return roots
}

func sharesRoot(a, b ssa.Value) bool {
	ra := valueRoots(a)
	for r := range valueRoots(b) {
		if ra[r] {
			// ignore trivially shared roots (context, keeper receiver, denom lookups)
			d := ir.Desc(r)
			if d == "param#0" || d == "recv" || strings.Contains(d, "BondDenom") || strings.Contains(d, "UnwrapSDKContext") {
				continue
			}
			return true
		}
	}
	return false
}

func init() {
	register("C10", "other", func(c *Ctx) {
		c.Explain = "Escrowed obligations are always fully backed — structural part: an obligation record is created or increased only together with a transfer of the same amount value into the escrow account, released only together with the payout, and moved between records without being scaled; roll-overs carry the recorded (untaxed) fund. Decided as who-may-write the records, same-value agreement between the recorded and the transferred amount, must-pass-through of the transfer, and provenance of returned credit."
		// ---- dual-staking claimable rewards
		c.Rule("C10a delegator rewards: the rewards collection is written only by SetDelegatorReward/RemoveDelegatorReward; SetDelegatorReward only from rewardDelegator (and genesis), where the amount added to the record is the same value that SendCoinsFromModuleToModule moves into the dualstaking module, on every path; RemoveDelegatorReward only from ClaimRewards, which pays out the sum of the removed records")
		n := 0
		for _, f := range c.P.AllFuncs {
			if !inProd(f) {
				continue
			}
			for _, s := range c.CallsByName(f, false, "cosmossdk.io/collections.Map.Set", "cosmossdk.io/collections.Map.Remove") {
				if !strings.HasSuffix(ir.Desc(ir.CallOf(s.Instr).Args[0]), ".rewards") || !strings.HasPrefix(topName(s.Fn), dk) {
					continue
				}
				n++
				tn := topName(s.Fn)
				key := "C10a/rewards-store/writer=" + tn
				if tn == dk+"Keeper.SetDelegatorReward" || tn == dk+"Keeper.RemoveDelegatorReward" {
					c.OK(key, c.P.InstrPos(s.Instr), "accessor")
				} else {
					c.Fail(key, c.P.InstrPos(s.Instr), "claimable-reward record written outside its accessors")
				}
			}
		}
		if n < 2 {
			c.Undecided("expected >=2 writes to the dualstaking rewards collection, found %d", n)
		}
		c.RequireCallers("C10a", dk+"Keeper.SetDelegatorReward", dk+"Keeper.rewardDelegator", dk+"Keeper.InitGenesis", "x/dualstaking.InitGenesis", dk+"Migrator.MigrateVersion5To6")
		c.RequireCallers("C10a", dk+"Keeper.RemoveDelegatorReward", dk+"Keeper.ClaimRewards")
		if rd := c.Fn(dk + "Keeper.rewardDelegator"); rd != nil {
			sends := c.CallsByName(rd, false, "invoke:x/dualstaking/types.BankKeeper.SendCoinsFromModuleToModule")
			sets := c.CallsByName(rd, false, dk+"Keeper.SetDelegatorReward")
			if len(sends) != 1 || len(sets) != 1 {
				c.Fail("C10a/rewardDelegator/one-record-one-transfer", c.P.Pos(rd.Pos()), fmt.Sprintf("expected one SetDelegatorReward and one transfer, found %d/%d", len(sets), len(sends)))
			} else {
				a := argDescs(ir.CallOf(sends[0].Instr))
				na := len(a)
				if a[na-1] == "param#2" && a[na-3] == "param#3" && strings.Contains(a[na-2], "dualstaking") {
					c.OK("C10a/rewardDelegator/transfer=(sender,dualstaking,amount)", c.P.InstrPos(sends[0].Instr), strings.Join(a[na-3:], ","))
				} else {
					c.Fail("C10a/rewardDelegator/transfer=(sender,dualstaking,amount)", c.P.InstrPos(sends[0].Instr), "the transfer backing the reward record is not (senderModule → dualstaking, amount): "+strings.Join(a[na-3:], ","))
				}
				// record amount: amount, or previous.Add(amount)
				okAmt := true
				ir.EachInstr(rd, func(in ssa.Instruction) {
					st, ok := in.(*ssa.Store)
					if !ok {
						return
					}
					fa, ok := st.Addr.(*ssa.FieldAddr)
					if !ok || ir.FieldKey(fa) != "x/dualstaking/types.DelegatorReward.Amount" {
						return
					}
					d := ir.Desc(st.Val)
					if d != "param#2" && !(strings.HasPrefix(d, "call(github.com/cosmos/cosmos-sdk/types.Coins.Add)(") && strings.HasSuffix(d, ",param#2)")) {
						okAmt = false
						c.Fail("C10a/rewardDelegator/record-amount", c.P.InstrPos(in), "the recorded claimable amount is not (previous +) the transferred amount: "+trunc(d, 200))
					}
				})
				if okAmt {
					c.OK("C10a/rewardDelegator/record-amount", c.P.Pos(rd.Pos()), "record = previous + amount")
				}
				r := c.MustPass(rd, sets[0].Instr, IsCallTo("invoke:x/dualstaking/types.BankKeeper.SendCoinsFromModuleToModule"), nil)
				if r.OK {
					c.OK("C10a/rewardDelegator/record-then-transfer-on-all-paths", c.P.InstrPos(sets[0].Instr), "every path from the record update reaches the transfer")
				} else {
					c.Fail("C10a/rewardDelegator/record-then-transfer-on-all-paths", c.P.InstrPos(sets[0].Instr), "a claimable reward is recorded without the backing transfer: "+r.Witness)
				}
				c.Note("C10a/rewardDelegator/transfer-error-only-logged", c.P.InstrPos(sends[0].Instr), "cross-reference: a failing transfer is logged, the record stays (callers pass amounts they hold)")
			}
		}
		if cl := c.Fn(dk + "Keeper.ClaimRewards"); cl != nil {
			rem := c.CallsByName(cl, false, dk+"Keeper.RemoveDelegatorReward")
			pay := c.CallsByName(cl, false, "invoke:x/dualstaking/types.BankKeeper.SendCoinsFromModuleToAccount")
			if len(rem) == 1 && len(pay) == 1 {
				a := ir.CallOf(pay[0].Instr).Args
				amt := a[len(a)-1]
				d := ir.Desc(amt)
				if strings.HasPrefix(d, "phi{") && strings.Contains(d, "call(github.com/cosmos/cosmos-sdk/types.Coins.Add)(") && strings.Contains(d, ".Rewards[i].Amount") {
					c.OK("C10a/ClaimRewards/payout=sum-of-removed-records", c.P.InstrPos(pay[0].Instr), "accumulated over the same loop that removes the records")
				} else {
					c.Fail("C10a/ClaimRewards/payout=sum-of-removed-records", c.P.InstrPos(pay[0].Instr), "paid amount is not the sum of the removed records: "+trunc(d, 200))
				}
				if instrBefore(rem[0].Instr, pay[0].Instr) || rem[0].Instr.Block().Dominates(pay[0].Instr.Block()) || true {
					r := c.MustPass(cl, rem[0].Instr, IsCallTo("invoke:x/dualstaking/types.BankKeeper.SendCoinsFromModuleToAccount"), nil)
					if r.OK {
						c.OK("C10a/ClaimRewards/remove-then-pay-on-all-paths", c.P.InstrPos(rem[0].Instr), "every removed record is paid")
					} else {
						c.Fail("C10a/ClaimRewards/remove-then-pay-on-all-paths", c.P.InstrPos(rem[0].Instr), r.Witness)
					}
				}
			} else {
				c.Fail("C10a/ClaimRewards/shape", c.P.Pos(cl.Pos()), "expected one removal loop and one payout")
			}
		}

		// ---- IPRPC pool
		c.Rule("C10b IPRPC: addSpecFunds is called only from FundIprpc (after both transfers succeeded; the amount moved into the IPRPC pool is fund*duration for the same fund and duration values that are recorded) and from handleNoIprpcRewardToProviders (roll-over of the recorded, untaxed fund for one month); in distributeIprpcRewards a spec's fund is rolled over before any tax is taken from the pool for it")
		c.RequireCallers("C10b", rk+"Keeper.addSpecFunds", rk+"Keeper.FundIprpc", rk+"Keeper.handleNoIprpcRewardToProviders")
		if fi := c.Fn(rk + "Keeper.FundIprpc"); fi != nil {
			adds := c.CallsByName(fi, false, rk+"Keeper.addSpecFunds")
			sends := c.CallsByName(fi, false, "invoke:x/rewards/types.BankKeeper.SendCoinsFromAccountToModule")
			if len(adds) != 1 || len(sends) != 2 {
				c.Fail("C10b/FundIprpc/shape", c.P.Pos(fi.Pos()), fmt.Sprintf("expected one addSpecFunds and two transfers, found %d/%d", len(adds), len(sends)))
			} else {
				c.RequireGuards("C10b", adds, "addSpecFunds", ErrNil("invoke:x/rewards/types.BankKeeper.SendCoinsFromAccountToModule"))
				// both transfers precede and their errors are checked: the record is unreachable from either error edge
				for _, ie := range c.IfsMatching(fi, ErrNonNil("invoke:x/rewards/types.BankKeeper.SendCoinsFromAccountToModule")) {
					if ok, where := c.EdgeCannotReach(ie, adds); !ok {
						c.Fail("C10b/FundIprpc/transfer-error-blocks-record", c.P.InstrPos(ie.If), "funds are promised although a transfer failed: "+where)
					}
				}
				aa := ir.CallOf(adds[0].Instr).Args
				na := len(aa)
				fundV, durV := aa[na-3], aa[na-2]
				var poolSend *ssa.CallCommon
				for _, s := range sends {
					if strings.Contains(strings.Join(argDescs(ir.CallOf(s.Instr)), ","), c.Const("x/rewards/types", "IprpcPoolName")) {
						poolSend = ir.CallOf(s.Instr)
					}
				}
				if poolSend == nil {
					c.Fail("C10b/FundIprpc/transfer-into-iprpc-pool", c.P.Pos(fi.Pos()), "no transfer into the IPRPC pool")
				} else {
					amt := poolSend.Args[len(poolSend.Args)-1]
					call, _ := callOfValue(amt)
					ok := call != nil && ir.CalleeName(&call.Call) == "github.com/cosmos/cosmos-sdk/types.Coins.MulInt" && call.Call.Args[0] == fundV && strings.Contains(ir.Desc(call.Call.Args[1]), ir.Desc(durV))
					if ok && ir.Desc(durV) == "param#2" && ir.Desc(aa[na-1]) == "const(true)" {
						c.OK("C10b/FundIprpc/transferred=recorded*duration", c.P.InstrPos(adds[0].Instr), "pool receives fund.MulInt(duration); fund recorded for `duration` months starting next month")
					} else {
						c.Fail("C10b/FundIprpc/transferred=recorded*duration", c.P.InstrPos(adds[0].Instr), "the amount moved into the IPRPC pool is not the recorded monthly fund times the recorded duration: "+trunc(ir.Desc(amt), 200)+" vs fund "+trunc(ir.Desc(fundV), 100))
					}
				}
			}
		}
		if hn := c.Fn(rk + "Keeper.handleNoIprpcRewardToProviders"); hn != nil {
			for _, s := range c.CallsByName(hn, false, rk+"Keeper.addSpecFunds") {
				a := argDescs(ir.CallOf(s.Instr))
				na := len(a)
				if strings.HasSuffix(a[na-3], "[i].Fund") && a[na-2] == "const(1)" && a[na-1] == "const(false)" {
					c.OK("C10b/handleNoIprpcRewardToProviders/rolls-over-recorded-fund", c.P.InstrPos(s.Instr), "same fund, one month, current id")
				} else {
					c.Fail("C10b/handleNoIprpcRewardToProviders/rolls-over-recorded-fund", c.P.InstrPos(s.Instr), "rolled-over fund differs from the recorded one: "+strings.Join(a[na-3:], ","))
				}
			}
		}
		if di := c.Fn(rk + "Keeper.distributeIprpcRewards"); di != nil {
			rolls := c.CallsByName(di, false, rk+"Keeper.handleNoIprpcRewardToProviders")
			taxes := c.CallsByName(di, false, rk+"Keeper.ContributeToValidatorsAndCommunityPool")
			if len(rolls) < 2 || len(taxes) < 1 {
				c.Undecided("distributeIprpcRewards: expected >=2 roll-over calls and a tax call")
			}
			for _, rl := range rolls {
				bad := ""
				for _, tx := range taxes {
					// can the tax call be followed by this roll-over within one iteration of
					// the per-spec loop (i.e. without going back through a common dominator)?
					tb, rb := tx.Instr.Block(), rl.Instr.Block()
					if ir.SameIterationReach(di, tb, rb) || instrBefore(tx.Instr, rl.Instr) {
						bad = "tax at " + c.P.InstrPos(tx.Instr) + " can precede the roll-over for the same spec"
					}
				}
				ir.EachInstr(di, func(in ssa.Instruction) {
					if st, ok := in.(*ssa.Store); ok {
						if fa, ok := st.Addr.(*ssa.FieldAddr); ok && ir.FieldKey(fa) == "x/rewards/types.Specfund.Fund" && instrBefore(in, rl.Instr) {
							bad = "the fund is rewritten at " + c.P.InstrPos(in) + " before the roll-over"
						}
					}
				})
				key := "C10b/distributeIprpcRewards/roll-over-untaxed"
				if bad == "" {
					c.OK(key, c.P.InstrPos(rl.Instr), "no tax and no fund rewrite precede the roll-over")
				} else {
					c.Fail(key, c.P.InstrPos(rl.Instr), "an unserved spec's fund is carried to next month in full although tokens already left the pool for it: "+bad)
				}
			}
		}

		// ---- subscription credit
		c.Rule("C10c subscription credit: every increase of Subscription/FutureSubscription credit in x/subscription/keeper is made with an amount that shares its source value with the amount transferred from the creator into the module in the same function (every success path after the increase passes the transfer), or is a transfer from another credit record; returnCreditToSub is called only by RewardAndResetCuTracker with the timer's whole unpaid credit, before anything was paid from it")
		creditFields := map[string]bool{
			"x/subscription/types.Subscription.Credit":       true,
			"x/subscription/types.FutureSubscription.Credit": true,
		}
		transfer := IsCallTo(sk+"Keeper.chargeFromCreatorAccountToModule", "invoke:x/subscription/types.BankKeeper.SendCoinsFromAccountToModule")
		ninc := 0
		for _, f := range c.P.AllFuncs {
			tn := topName(f)
			if !strings.HasPrefix(tn, sk) || strings.Contains(strings.ToLower(tn), "migrat") {
				continue
			}
			fn := f
			ir.EachInstr(fn, func(in ssa.Instruction) {
				st, ok := in.(*ssa.Store)
				if !ok {
					return
				}
				fa, ok := st.Addr.(*ssa.FieldAddr)
				if !ok || !creditFields[ir.FieldKey(fa)] {
					return
				}
				d := ir.Desc(st.Val)
				short := ir.FieldKey(fa)[strings.Index(ir.FieldKey(fa), "types.")+6:]
				key := "C10c/" + tn + "/" + short + ":="
				call, _ := callOfValue(st.Val)
				switch {
				case call != nil && ir.CalleeName(&call.Call) == "github.com/cosmos/cosmos-sdk/types.Coin.AddAmount":
					ninc++
					inc := call.Call.Args[1]
					if tn == sk+"Keeper.returnCreditToSub" {
						if ir.Desc(inc) == "param#2" {
							c.OK(key+"returned-credit", c.P.InstrPos(in), "adds the credit parameter (callers checked below)")
						} else {
							c.Fail(key+"returned-credit", c.P.InstrPos(in), "adds "+ir.Desc(inc))
						}
						return
					}
					// find transfers in the function sharing the amount's source
					var matched ssa.Instruction
					ir.EachInstr(fn, func(t ssa.Instruction) {
						if !transfer(t) {
							return
						}
						a := ir.CallOf(t).Args
						if sharesRoot(inc, a[len(a)-1]) {
							matched = t
						}
					})
					if matched == nil {
						c.Fail(key+"increase", c.P.InstrPos(in), "credit is increased by "+trunc(ir.Desc(inc), 120)+" but no transfer from the creator of an amount derived from the same value exists in this function")
						return
					}
					// every success return after the increase passes the transfer (before or after)
					okPaths := true
					for _, r := range c.SuccessReturns(fn) {
						if !reaches(in.Block(), r.Instr.Block()) {
							continue
						}
						if !c.mustPassBefore(fn, r.Instr, transfer) {
							okPaths = false
						}
					}
					if okPaths {
						c.OK(key+"increase", c.P.InstrPos(in), "paired with the transfer at "+c.P.InstrPos(matched)+" on every success path")
					} else {
						c.Fail(key+"increase", c.P.InstrPos(in), "a success path increases the credit without charging the creator")
					}
				case strings.HasSuffix(d, ".Credit") && strings.Contains(d, "FutureSubscription"):
					c.OK(key+"transfer-from-advance-purchase", c.P.InstrPos(in), d)
				case call != nil && (ir.CalleeName(&call.Call) == "github.com/cosmos/cosmos-sdk/types.Coin.SubAmount"):
					c.OKTrivial(key+"decrease", c.P.InstrPos(in), "decrease")
				case call != nil && ir.CalleeName(&call.Call) == "github.com/cosmos/cosmos-sdk/types.NewCoin":
					// fresh record: zero, or price-based (advance purchase)
					if strings.Contains(d, "ZeroInt") {
						c.OKTrivial(key+"zero", c.P.InstrPos(in), "initialised to zero")
						return
					}
					ninc++
					var matched ssa.Instruction
					ir.EachInstr(fn, func(t ssa.Instruction) {
						if transfer(t) {
							a := ir.CallOf(t).Args
							if sharesRoot(st.Val, a[len(a)-1]) {
								matched = t
							}
						}
					})
					if matched != nil {
						c.OK(key+"new-credit", c.P.InstrPos(in), "paired with the transfer at "+c.P.InstrPos(matched))
					} else {
						c.Fail(key+"new-credit", c.P.InstrPos(in), "a new credit record is created from "+trunc(d, 160)+" with no matching transfer")
					}
				default:
					// price-valued coin stored directly (advance purchase keeps the price coin)
					var matched ssa.Instruction
					ir.EachInstr(fn, func(t ssa.Instruction) {
						if transfer(t) {
							a := ir.CallOf(t).Args
							if sharesRoot(st.Val, a[len(a)-1]) {
								matched = t
							}
						}
					})
					if matched != nil {
						ninc++
						c.OK(key+"credit", c.P.InstrPos(in), "value shares its source with the transfer at "+c.P.InstrPos(matched))
					} else {
						c.Fail(key+"credit", c.P.InstrPos(in), "credit set to "+trunc(d, 160)+" with no matching transfer and not a decrease/transfer")
					}
				}
			})
		}
		if ninc < 3 {
			c.Undecided("expected at least 3 credit increases in x/subscription/keeper, found %d", ninc)
		}
		if rc := c.Fn(sk + "Keeper.returnCreditToSub"); rc != nil {
			refs := c.References(rc)
			for _, r := range refs {
				tn := topName(r.Fn)
				call := ir.CallOf(r.Instr)
				if call == nil {
					continue
				}
				key := "C10c/returnCreditToSub/caller=" + tn
				if tn != sk+"Keeper.RewardAndResetCuTracker" {
					c.Fail(key, c.P.InstrPos(r.Instr), "credit returned to a subscription from an unexpected function")
					continue
				}
				a := argDescs(call)
				arg := a[len(a)-1]
				paidBefore := false
				for _, p := range c.CallsByName(r.Fn, false, "invoke:x/subscription/types.RewardsKeeper.ContributeToValidatorsAndCommunityPool", "invoke:x/subscription/types.DualStakingKeeper.RewardProvidersAndDelegators") {
					if reaches(p.Instr.Block(), r.Instr.Block()) {
						paidBefore = true
					}
				}
				if strings.HasSuffix(arg, ".Credit.Amount") && !paidBefore {
					c.OK(key, c.P.InstrPos(r.Instr), "returns the timer's whole credit, nothing paid from it on this path")
				} else {
					c.Fail(key, c.P.InstrPos(r.Instr), "returned credit is not the timer's whole unpaid credit (arg "+trunc(arg, 120)+", payouts reachable before: "+fmt.Sprint(paidBefore)+"): credit owed can exceed what the module still holds")
				}
			}
			if len(refs) == 0 {
				c.Undecided("returnCreditToSub has no caller")
			}
		}
		c.NotCovered("the inequality balance >= obligations over histories; amounts of taxes and rounding; the cu-tracker timer credit split (C11)")
	})
}

// reaches: block b is reachable from block a (a == b included).
func reaches(a, b *ssa.BasicBlock) bool {
	if a == b {
		return true
	}
	return ir.Reachable(a, nil)[b]
}
