package rules

import (
	"strings"

	"golang.org/x/tools/go/ssa"

	"lavaverif/checker/ir"
)

const st = "x/spec/types."

func init() {
	register("C22", "other", func(c *Ctx) {
		c.Explain = "Spec inheritance expands deterministically and completely — structural part: the recursive expansion is guarded by the unknown-import and import-loop checks, keeps the visited set consistent (insert before recursing, delete after), propagates errors; only enabled parent collections are inherited; collections the spec defines itself are merged with (and removed from) the parents' map before the rest is combined in sorted key order; a spec is accepted by governance only past ValidateSpec, which expands it and rejects APIs whose compute units fall outside [minCU, maxCU]."
		exp := c.Fn(st + "DoExpandSpec")
		comb := c.Fn(st + "Spec.CombineCollections")
		hs := c.Fn("x/spec.handleSpecProposal")
		kv := c.Fn("x/spec/keeper.Keeper.ValidateSpec")
		sv := c.Fn(st + "Spec.ValidateSpec")
		if exp == nil || comb == nil || hs == nil || kv == nil || sv == nil {
			return
		}
		c.Rule("C22a termination and loops: the recursive DoExpandSpec call is dominated by import found and by the not-in-depends outcome; depends[index]=true precedes it and delete(depends,index) follows it on the success path; its error is returned")
		var rec []Site
		for _, s := range c.CallsIn(exp, exp, false) {
			rec = append(rec, s)
		}
		if len(rec) != 1 {
			c.Fail("C22a/DoExpandSpec/one-recursive-call", c.P.Pos(exp.Pos()), "expected exactly one recursive call, found "+itoa(len(rec)))
		} else {
			c.RequireGuards("C22a", rec, "recurse",
				GuardSpec{Name: "import-found", Match: func(g ir.Guard) bool {
					return g.Edge && strings.HasPrefix(g.Fact, "call(dyn:param#5)(") && strings.HasSuffix(g.Fact, "#1")
				}},
				FactPrefix("not-already-visiting", "!param#2[", "#1"),
			)
			// insert before, delete after
			var ins, del ssa.Instruction
			ir.EachInstr(exp, func(in ssa.Instruction) {
				switch x := in.(type) {
				case *ssa.MapUpdate:
					if ir.Desc(x.Map) == "param#2" && ir.Desc(x.Value) == "const(true)" {
						ins = in
					}
				case *ssa.Call:
					if ir.CalleeName(&x.Call) == "builtin:delete" && ir.Desc(x.Call.Args[0]) == "param#2" {
						del = in
					}
				}
			})
			if ins != nil && instrBefore(ins, rec[0].Instr) {
				c.OK("C22a/DoExpandSpec/mark-before-recursing", c.P.InstrPos(ins), "depends[index] = true precedes the recursive call")
			} else {
				c.Fail("C22a/DoExpandSpec/mark-before-recursing", c.P.InstrPos(rec[0].Instr), "the import is not marked as being visited before recursing: an import cycle recurses forever")
			}
			if del != nil && instrBefore(rec[0].Instr, del) {
				c.OK("C22a/DoExpandSpec/unmark-after-recursing", c.P.InstrPos(del), "delete(depends, index) follows the recursive call")
				c.RequireGuards("C22a", []Site{{Fn: exp, Instr: del}}, "unmark", ErrNil(st+"DoExpandSpec"))
			} else {
				c.Fail("C22a/DoExpandSpec/unmark-after-recursing", c.P.InstrPos(rec[0].Instr), "the visited mark is never removed: two imports sharing a (non-cyclic) ancestor are rejected as a loop")
			}
			for _, ie := range c.IfsMatching(exp, ErrNonNil(st+"DoExpandSpec")) {
				b := ie.If.Block()
				s := b.Succs[0]
				if !ie.Edge {
					s = b.Succs[1]
				}
				okRet := false
				for _, in := range s.Instrs {
					if r, ok := in.(*ssa.Return); ok && IsFailureReturn(r) {
						okRet = true
					}
				}
				if okRet {
					c.OK("C22a/DoExpandSpec/propagates-import-error", c.P.InstrPos(ie.If), "error of the imported expansion is returned")
				} else {
					c.Fail("C22a/DoExpandSpec/propagates-import-error", c.P.InstrPos(ie.If), "a failing import expansion is ignored")
				}
			}
		}
		// unknown import and loop both return errors
		for name, spec := range map[string]GuardSpec{
			"unknown-import": {Name: "import-not-found", Match: func(g ir.Guard) bool {
				return !g.Edge && false
			}},
		} {
			_, _ = name, spec
		}
		var failRets []Site
		for _, r := range c.AllReturns(exp) {
			if IsFailureReturn(r.Instr.(*ssa.Return)) {
				failRets = append(failRets, r)
			}
		}
		unknown, loop := false, false
		for _, r := range failRets {
			for _, f := range ir.GuardFacts(r.Instr) {
				if strings.HasPrefix(f, "!call(dyn:param#5)(") && strings.HasSuffix(f, "#1") {
					unknown = true
				}
				if strings.HasPrefix(f, "param#2[") && strings.HasSuffix(f, "#1") {
					loop = true
				}
			}
		}
		if unknown {
			c.OK("C22a/DoExpandSpec/unknown-import-rejected", c.P.Pos(exp.Pos()), "error return on getSpecFn not found")
		} else {
			c.Fail("C22a/DoExpandSpec/unknown-import-rejected", c.P.Pos(exp.Pos()), "an unknown import does not fail the expansion")
		}
		if loop {
			c.OK("C22a/DoExpandSpec/import-loop-rejected", c.P.Pos(exp.Pos()), "error return when the import is already being visited")
		} else {
			c.Fail("C22a/DoExpandSpec/import-loop-rejected", c.P.Pos(exp.Pos()), "an import loop does not fail the expansion")
		}

		c.Rule("C22b completeness shape: parent collections are gathered only when Enabled; every collection the spec defines itself inherits from the same-key parents (InheritAllFields) and is then deleted from the parents' map; the remaining parents are combined by CombineCollections, whose error is returned")
		// gather under Enabled
		var gathers []Site
		ir.EachInstr(exp, func(in ssa.Instruction) {
			if mu, ok := in.(*ssa.MapUpdate); ok && strings.Contains(ir.TypeName(mu.Map.Type()), "CollectionData") && strings.Contains(ir.Desc(mu.Value), "builtin:append") {
				gathers = append(gathers, Site{Fn: exp, Instr: in})
			}
		})
		if len(gathers) == 0 {
			c.Undecided("DoExpandSpec: parent collection gathering not found")
		}
		c.RequireGuards("C22b", gathers, "gather-parent-collection", FactHas("parent-enabled", ".Enabled"))
		inh := c.CallsByName(exp, false, st+"ApiCollection.InheritAllFields")
		var delParents ssa.Instruction
		ir.EachInstr(exp, func(in ssa.Instruction) {
			if call, ok := in.(*ssa.Call); ok && ir.CalleeName(&call.Call) == "builtin:delete" && ir.Desc(call.Call.Args[0]) == "makemap" {
				delParents = in
			}
		})
		if len(inh) == 1 && delParents != nil && instrBefore(inh[0].Instr, delParents) {
			c.OK("C22b/DoExpandSpec/own-collections-inherit-then-leave-parents-map", c.P.InstrPos(inh[0].Instr), "InheritAllFields then delete(parentsCollections, key)")
			c.RequireGuards("C22b", []Site{{Fn: exp, Instr: delParents}}, "delete-from-parents", ErrNil(st+"ApiCollection.InheritAllFields"))
		} else {
			c.Fail("C22b/DoExpandSpec/own-collections-inherit-then-leave-parents-map", c.P.Pos(exp.Pos()), "a collection the spec overrides is not merged with / removed from the inherited collections: it would be added again by CombineCollections (duplicate) or miss inherited APIs")
		}
		cc := c.CallsByName(exp, false, st+"Spec.CombineCollections")
		if len(cc) == 1 {
			c.RequireGuards("C22b", c.SuccessReturns(exp), "return-ok", ErrNil(st+"Spec.CombineCollections"))
		} else {
			c.Fail("C22b/DoExpandSpec/combines-remaining-parents", c.P.Pos(exp.Pos()), "expected one CombineCollections call")
		}

		c.Rule("C22c determinism: CombineCollections iterates the parents' map through a sorted key slice; no other map iteration in DoExpandSpec / CombineCollections / InheritAllFields / CombineWithOthers has an order-dependent body (C01a idioms)")
		for _, fn := range []*ssa.Function{exp, comb, c.Fn(st + "ApiCollection.InheritAllFields"), c.Fn(st + "ApiCollection.CombineWithOthers")} {
			if fn == nil {
				continue
			}
			for _, f := range ir.WithClosures(fn) {
				for _, mr := range mapRanges(f) {
					cls := classifyRange(mr)
					key := "C22c/" + ir.FuncName(f) + "/range(" + lastSeg(ir.DescN(mr.Range.X, 3)) + ")"
					if cls.Class != "unknown" {
						c.OK(key, c.P.InstrPos(mr.Range), cls.Class)
					} else {
						c.Fail(key, c.P.InstrPos(mr.Range), "order-dependent map iteration in spec expansion")
					}
				}
			}
		}
		// the combined collections are appended in the sorted loop, only when enabled
		var apps []Site
		ir.EachInstr(comb, func(in ssa.Instruction) {
			if st2, ok := in.(*ssa.Store); ok {
				if fa, ok := st2.Addr.(*ssa.FieldAddr); ok && ir.FieldKey(fa) == st+"Spec.ApiCollections" {
					apps = append(apps, Site{Fn: comb, Instr: in})
				}
			}
		})
		if len(apps) != 1 {
			c.Fail("C22c/CombineCollections/one-append-site", c.P.Pos(comb.Pos()), "expected one append to spec.ApiCollections")
		}
		c.RequireGuards("C22c", apps, "append-combined", ErrNil(st+"ApiCollection.CombineWithOthers"), FactHas("combined-enabled", ".Enabled"))

		c.Rule("C22d acceptance: handleSpecProposal returns nil only past Keeper.ValidateSpec's nil error for every proposed spec and RefreshSpec's nil error for every stored spec; Keeper.ValidateSpec returns nil only past ExpandSpec and Spec.ValidateSpec nil errors, the latter given MaxCU; Spec.ValidateSpec rejects ComputeUnits < minCU || > maxCU")
		rsIfs := c.IfsMatching(hs, ErrNonNil("x/spec/keeper.Keeper.RefreshSpec"))
		if len(rsIfs) == 0 {
			c.Fail("C22d/handleSpecProposal/refresh-error-rejects-proposal", c.P.Pos(hs.Pos()), "RefreshSpec's error is not checked")
		}
		for _, ie := range rsIfs {
			if ok, where := c.EdgeCannotReach(ie, c.SuccessReturns(hs)); ok {
				c.OK("C22d/handleSpecProposal/refresh-error-rejects-proposal", c.P.InstrPos(ie.If), "a spec invalidated by the change rejects the proposal")
			} else {
				c.Fail("C22d/handleSpecProposal/refresh-error-rejects-proposal", c.P.InstrPos(ie.If), "accepted although a dependent spec became invalid: "+where)
			}
		}
		for _, ie := range c.IfsMatching(hs, ErrNonNil("x/spec/keeper.Keeper.ValidateSpec")) {
			if ok, where := c.EdgeCannotReach(ie, c.SuccessReturns(hs)); ok {
				c.OK("C22d/handleSpecProposal/invalid-spec-rejects-proposal", c.P.InstrPos(ie.If), "the error outcome of ValidateSpec cannot reach the accepting return")
			} else {
				c.Fail("C22d/handleSpecProposal/invalid-spec-rejects-proposal", c.P.InstrPos(ie.If), "a spec that fails validation is still accepted: "+where)
			}
		}
		if len(c.IfsMatching(hs, ErrNonNil("x/spec/keeper.Keeper.ValidateSpec"))) == 0 {
			c.Fail("C22d/handleSpecProposal/invalid-spec-rejects-proposal", c.P.Pos(hs.Pos()), "ValidateSpec's error is not checked")
		}
		// every SetSpec in the loop is followed by ValidateSpec on the same spec
		for _, s := range c.CallsByName(hs, false, "x/spec/keeper.Keeper.SetSpec") {
			r := c.MustPass(hs, s.Instr, IsCallTo("x/spec/keeper.Keeper.ValidateSpec"), nil)
			if r.OK {
				c.OK("C22d/handleSpecProposal/set-then-validate", c.P.InstrPos(s.Instr), "every stored spec is validated before the handler can return")
			} else {
				c.Fail("C22d/handleSpecProposal/set-then-validate", c.P.InstrPos(s.Instr), "a proposed spec is stored without being validated: "+r.Witness)
			}
		}
		c.RequireGuards("C22d", c.SuccessReturns(kv), "valid", ErrNil("x/spec/keeper.Keeper.ExpandSpec"), ErrNil(st+"Spec.ValidateSpec"))
		for _, s := range c.CallsByName(kv, false, st+"Spec.ValidateSpec") {
			a := argDescs(ir.CallOf(s.Instr))
			_, recvCalls := BackwardDeps(ir.CallOf(s.Instr).Args[0])
			if strings.Contains(a[len(a)-1], "Keeper.MaxCU)") && recvCalls["x/spec/keeper.Keeper.ExpandSpec"] {
				c.OK("C22d/Keeper.ValidateSpec/validates-expanded-spec-with-MaxCU", c.P.InstrPos(s.Instr), "expanded spec, k.MaxCU(ctx)")
			} else {
				c.Fail("C22d/Keeper.ValidateSpec/validates-expanded-spec-with-MaxCU", c.P.InstrPos(s.Instr), strings.Join(a, ","))
			}
		}
		cuIfs := c.IfsMatching(sv, FactHas("cu-below-min", ".ComputeUnits < "))
		cuIfs2 := c.IfsMatching(sv, FactHas("cu-above-max", "param#0 < ", ".ComputeUnits)"))
		okCU := len(cuIfs) > 0 && len(cuIfs2) > 0
		for _, ie := range append(cuIfs, cuIfs2...) {
			if ok, _ := c.EdgeCannotReach(ie, c.SuccessReturns(sv)); !ok {
				okCU = false
			}
		}
		if okCU {
			c.OK("C22d/Spec.ValidateSpec/cu-range-enforced", c.P.Pos(sv.Pos()), "ComputeUnits < minCU and ComputeUnits > maxCU both lead only to error returns")
		} else {
			c.Fail("C22d/Spec.ValidateSpec/cu-range-enforced", c.P.Pos(sv.Pos()), "an API whose compute units are outside [minCU, maxCU] can pass validation")
		}
		c.Rule("C22e stored specs stay raw: RefreshSpec expands its argument in place (DoExpandSpec merges into the argument's own collections), so what it writes back with SetSpec must be the spec re-read from the store with GetSpec after the expansion, never the expanded object or a shallow copy of it")
		if rs := c.Fn("x/spec/keeper.Keeper.RefreshSpec"); rs != nil {
			sets := c.CallsByName(rs, false, "x/spec/keeper.Keeper.SetSpec")
			exps := c.CallsByName(rs, false, "x/spec/types.DoExpandSpec")
			if len(sets) != 1 || len(exps) != 1 {
				c.Undecided("C22e: expected one SetSpec and one DoExpandSpec call in RefreshSpec, found %d and %d", len(sets), len(exps))
			} else {
				reread := func(in ssa.Instruction) bool {
					st, ok := in.(*ssa.Store)
					if !ok {
						return false
					}
					if _, isAlloc := st.Addr.(*ssa.Alloc); !isAlloc {
						return false
					}
					d := ir.Desc(st.Val)
					return strings.HasPrefix(d, "call(x/spec/keeper.Keeper.GetSpec)(") && strings.HasSuffix(d, "#0") && (exps[0].Instr.Block().Dominates(st.Block()) && exps[0].Instr.Block() != st.Block() || instrBefore(exps[0].Instr, st))
				}
				okStore := c.mustPassBefore(rs, sets[0].Instr, reread)
				// and the stored value is that re-read variable (the parameter's slot), not another local
				arg := ir.CallOf(sets[0].Instr).Args[2]
				okArg := false
				if ld, ok := arg.(*ssa.UnOp); ok {
					if a, ok := ld.X.(*ssa.Alloc); ok && a.Referrers() != nil {
						for _, r := range *a.Referrers() {
							if st, ok := r.(*ssa.Store); ok && st.Addr == ssa.Value(a) && reread(st) {
								okArg = true
							}
						}
					}
				}
				if okStore && okArg {
					c.OK("C22e/RefreshSpec/stores-the-spec-re-read-after-expansion", c.P.InstrPos(sets[0].Instr), "spec, _ = GetSpec(...) between DoExpandSpec and SetSpec")
				} else {
					c.Fail("C22e/RefreshSpec/stores-the-spec-re-read-after-expansion", c.P.InstrPos(sets[0].Instr), "RefreshSpec writes back a spec that was not re-read from the store after DoExpandSpec: the expansion's in-place merges (shared *ApiCollection objects) are frozen into the stored raw spec")
				}
			}
		}
		c.NotCovered("completeness/no-duplicates of the expansion as a value property; field-level inheritance inside InheritAllFields/CombineWithOthers")
	})
}
