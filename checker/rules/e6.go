package rules

import (
	"go/token"
	"strings"

	"golang.org/x/tools/go/ssa"

	"lavaverif/checker/ir"
)

// E6 — time-unit consistency. Abstract domain over int64/uint64 values:
//
//	TS   a unix timestamp (seconds since the epoch)
//	DUR  a number of seconds (duration)
//	POLY an untyped/unknown scalar that adapts to its context (constants, parameters)
//	TOP  unknown
//
// Seeds: time.Time.Unix() → TS; Duration.Seconds(), Duration/time.Second → DUR; the
// expiry values returned by TimerStore.GetFrontTimers(…, BlockTime) → TS; struct fields
// named in tsFields → TS. Transfer: TS−TS=DUR, TS±DUR=TS, TS±POLY=TS, DUR±DUR=DUR,
// DUR±POLY=DUR. Errors: TS+TS, and any comparison between a TS and a DUR.

type unit int

const (
	uPoly unit = iota
	uTS
	uDur
	uTop
)

func (u unit) String() string { return [...]string{"scalar", "timestamp", "duration", "unknown"}[u] }

var tsFields = map[string]bool{
	"x/epochstorage/types.StakeEntry.JailEndTime":          true,
	"x/subscription/types.Subscription.MonthExpiryTime":    true,
	"x/epochstorage/types.ProviderMetadata.LastChange":     true,
	"x/dualstaking/types.Delegation.Timestamp":             true,
	"x/dualstaking/types.Delegation.CreditTimestamp":       true,
	"x/epochstorage/types.StakeEntry.LastChange":           true,
	"x/pairing/types.ReportedProvider.TimestampS":          true,
	"x/epochstorage/types.ProviderMetadata.LastStakeMove":  true,
	"x/pairing/types.Reputation.TimeLastUpdated":           true,
	"x/pairing/types.Reputation.CreationTime":              true,
}

type unitErr struct {
	At   ssa.Instruction
	What string
}

func unitOf(v ssa.Value, errs *[]unitErr, seen map[ssa.Value]unit) unit {
	if u, ok := seen[v]; ok {
		return u
	}
	seen[v] = uPoly // cycle guard
	u := unitOf1(v, errs, seen)
	seen[v] = u
	return u
}

func unitOf1(v ssa.Value, errs *[]unitErr, seen map[ssa.Value]unit) unit {
	switch x := v.(type) {
	case *ssa.Const, *ssa.Parameter, *ssa.FreeVar:
		return uPoly
	case *ssa.Convert:
		return unitOf(x.X, errs, seen)
	case *ssa.ChangeType:
		return unitOf(x.X, errs, seen)
	case *ssa.Call:
		n := ir.CalleeName(&x.Call)
		switch {
		case n == "time.Time.Unix":
			return uTS
		case n == "time.Duration.Seconds":
			return uDur
		case strings.HasSuffix(n, "NextMonth") || strings.HasSuffix(n, "time.Time.UTC"):
			return uTop
		}
		return uTop
	case *ssa.Extract:
		return uTop
	case *ssa.UnOp:
		if x.Op == token.MUL {
			switch a := x.X.(type) {
			case *ssa.FieldAddr:
				if tsFields[ir.FieldKey(a)] {
					return uTS
				}
			case *ssa.IndexAddr:
				if strings.Contains(ir.Desc(a.X), "TimerStore.GetFrontTimers)") && strings.HasSuffix(ir.Desc(a.X), "#1") {
					if frontTimersByTime(a.X) {
						return uTS
					}
				}
			}
			return uTop
		}
		return unitOf(x.X, errs, seen)
	case *ssa.Field:
		if tsFields[ir.FieldKey(x)] {
			return uTS
		}
		return uTop
	case *ssa.Phi:
		u := uPoly
		for _, e := range x.Edges {
			eu := unitOf(e, errs, seen)
			switch {
			case u == uPoly:
				u = eu
			case eu == uPoly || eu == u:
			default:
				u = uTop
			}
		}
		return u
	case *ssa.BinOp:
		a, b := unitOf(x.X, errs, seen), unitOf(x.Y, errs, seen)
		switch x.Op {
		case token.ADD:
			switch {
			case a == uTS && b == uTS:
				*errs = append(*errs, unitErr{x, "adds two timestamps"})
				return uTop
			case a == uTS || b == uTS:
				if a == uTop || b == uTop {
					return uTS
				}
				return uTS
			case a == uDur || b == uDur:
				return uDur
			}
			return join(a, b)
		case token.SUB:
			switch {
			case a == uTS && b == uTS:
				return uDur
			case a == uTS:
				return uTS
			case a == uDur && b == uTS:
				*errs = append(*errs, unitErr{x, "subtracts a timestamp from a duration"})
				return uTop
			case a == uDur || b == uDur:
				return uDur
			}
			return join(a, b)
		case token.QUO, token.MUL, token.REM:
			// a duration divided/multiplied by a time.Duration constant (time.Second) stays a duration
			if a == uDur || b == uDur {
				return uDur
			}
			return uTop
		case token.LSS, token.LEQ, token.GTR, token.GEQ, token.EQL, token.NEQ:
			if (a == uTS && b == uDur) || (a == uDur && b == uTS) {
				*errs = append(*errs, unitErr{x, "compares a " + a.String() + " with a " + b.String()})
			}
			return uTop
		}
		return uTop
	}
	return uTop
}

func join(a, b unit) unit {
	if a == uPoly {
		return b
	}
	if b == uPoly || a == b {
		return a
	}
	return uTop
}

func frontTimersByTime(v ssa.Value) bool {
	call, _ := callOfValue(v)
	if call == nil {
		return false
	}
	for _, a := range call.Call.Args {
		// timerstore types.BlockTime == 1 (BlockHeight == 0)
		if c, ok := a.(*ssa.Const); ok && c.Value != nil && ir.TypeName(c.Type()) == "x/timerstore/types.TimerType" && c.Value.String() == "1" {
			return true
		}
	}
	return false
}

// RequireUnitConsistency runs E6 on the named functions: no timestamp/duration mix-ups in
// additions and comparisons; records how many seeded values were found (vacuity guard).
func (c *Ctx) RequireUnitConsistency(rule string, minSeeds int, names ...string) {
	for _, n := range names {
		fn := c.Fn(n)
		if fn == nil {
			continue
		}
		var errs []unitErr
		seen := map[ssa.Value]unit{}
		seeds := 0
		cmps := 0
		ir.EachInstr(fn, func(in ssa.Instruction) {
			if v, ok := in.(ssa.Value); ok {
				u := unitOf(v, &errs, seen)
				if b, isBin := in.(*ssa.BinOp); isBin {
					switch b.Op {
					case token.LSS, token.LEQ, token.GTR, token.GEQ, token.EQL, token.NEQ, token.ADD, token.SUB:
						ua, ub := unitOf(b.X, &errs, seen), unitOf(b.Y, &errs, seen)
						if ua == uTS || ub == uTS || ua == uDur || ub == uDur {
							cmps++
						}
					}
				}
				if call, isCall := in.(*ssa.Call); isCall && (u == uTS || u == uDur) {
					_ = call
					seeds++
				}
			}
		})
		// de-duplicate errors
		reported := map[ssa.Instruction]bool{}
		for _, e := range errs {
			if reported[e.At] {
				continue
			}
			reported[e.At] = true
			c.Fail(rule+"/"+n+"/unit-mismatch", c.P.InstrPos(e.At), "time-unit error: "+e.What+": "+trunc(ir.DescN(e.At.(ssa.Value), 4), 200))
		}
		if seeds < minSeeds {
			c.Undecided("%s: only %d time-valued calls recognised in %s (expected >= %d): unit analysis would be vacuous", rule, seeds, n, minSeeds)
			continue
		}
		if len(reported) == 0 {
			c.OK(rule+"/"+n+"/units-consistent", c.P.Pos(fn.Pos()), itoa(cmps)+" time-typed additions/subtractions/comparisons, all unit-consistent")
		}
	}
}
