package rules

import (
	"fmt"
	"strings"

	"golang.org/x/tools/go/ssa"

	"lavaverif/checker/ir"
)

const (
	pk = "x/pairing/keeper."
)

func argDescs(call *ssa.CallCommon) []string {
	var out []string
	for _, a := range call.Args {
		out = append(out, ir.Desc(a))
	}
	return out
}

// paramIndex returns the index (receiver excluded → -1 for receiver) of v if it is a
// parameter of its function, else -2.
func paramIndex(v ssa.Value) int {
	p, ok := v.(*ssa.Parameter)
	if !ok {
		return -2
	}
	fn := p.Parent()
	for i, q := range fn.Params {
		if q == p {
			if fn.Signature.Recv() != nil {
				return i - 1
			}
			return i
		}
	}
	return -2
}

func init() {
	register("C03", "other", func(c *Ctx) {
		c.Explain = "A relay session is paid at most once: decided as guard-dominance of the crediting calls by the double-spend lookup, must-pass-through of the registration, argument agreement between lookup and registration down to the store key, and who-may-call on the registration/removal/credit functions."
		relayPayment := c.Fn(pk + "msgServer.RelayPayment")
		addEpochPayment := c.Fn(pk + "EpochCuCache.AddEpochPayment")
		setUnique := c.Fn(pk + "Keeper.SetUniqueEpochSession")
		isUnique := c.Fn(pk + "Keeper.IsUniqueEpochSessionExists")
		charge := c.Fn(pk + "Keeper.chargeCuToSubscriptionAndCreditProvider")
		if relayPayment == nil || addEpochPayment == nil || setUnique == nil || isUnique == nil || charge == nil {
			return
		}

		// (a) guard dominance in RelayPayment
		c.Rule("C03a guard: in RelayPayment every call that registers or credits a session (AddEpochPayment, chargeCuToSubscriptionAndCreditProvider, handleBadgeCu) is dominated by the false outcome of IsUniqueEpochSessionExists, the nil-error outcome of GetEpochStartForBlock and the in-memory comparison earliestEpochStart <= epochStart")
		sinks := map[string][]Site{
			"AddEpochPayment": c.CallsIn(relayPayment, addEpochPayment, true),
			"chargeCuToSubscriptionAndCreditProvider": c.CallsIn(relayPayment, charge, true),
		}
		for name, ss := range sinks {
			if len(ss) == 0 {
				c.Undecided("RelayPayment no longer calls %s: rule C03a has no instance", name)
				continue
			}
			c.RequireGuards("C03a", ss, name,
				CallIs(false, pk+"Keeper.IsUniqueEpochSessionExists"),
				ErrNil("invoke:x/pairing/types.EpochstorageKeeper.GetEpochStartForBlock"),
				Cmp("epoch-in-memory", "EpochstorageKeeper.GetEarliestEpochStart)", "<=", "EpochstorageKeeper.GetEpochStartForBlock)"),
			)
		}

		// (b) registration on every path of AddEpochPayment
		c.Rule("C03b must-pass: every path through AddEpochPayment to a return passes SetUniqueEpochSession")
		r := c.MustPass(addEpochPayment, nil, IsCallTo(pk+"Keeper.SetUniqueEpochSession"), nil)
		if r.OK {
			c.OK("C03b/"+pk+"EpochCuCache.AddEpochPayment/must-pass=SetUniqueEpochSession", c.P.Pos(addEpochPayment.Pos()), "all paths")
		} else {
			c.Fail("C03b/"+pk+"EpochCuCache.AddEpochPayment/must-pass=SetUniqueEpochSession", c.P.Pos(addEpochPayment.Pos()), "a path returns without registering the session: "+r.Witness)
		}

		// (c) argument agreement: lookup key == registered key
		c.Rule("C03c agreement: IsUniqueEpochSessionExists and SetUniqueEpochSession build the store key from the same parameter positions, AddEpochPayment forwards its parameters to SetUniqueEpochSession unchanged, and RelayPayment passes the same five values (epoch start, provider, project, chain, session id) to the lookup and to AddEpochPayment")
		keyArgs := func(fn *ssa.Function) []string {
			ss := c.CallsByName(fn, false, "x/pairing/types.UniqueEpochSessionKey")
			if len(ss) != 1 {
				c.Undecided("%s: expected exactly one UniqueEpochSessionKey call, found %d", ir.FuncName(fn), len(ss))
				return nil
			}
			return argDescs(ir.CallOf(ss[0].Instr))
		}
		ka, kb := keyArgs(setUnique), keyArgs(isUnique)
		if ka != nil && kb != nil {
			if strings.Join(ka, ",") == strings.Join(kb, ",") {
				c.OK("C03c/key-args/Set=Is", c.P.Pos(setUnique.Pos()), "both: UniqueEpochSessionKey("+strings.Join(ka, ",")+")")
			} else {
				c.Fail("C03c/key-args/Set=Is", c.P.Pos(isUnique.Pos()), fmt.Sprintf("lookup builds key from (%s) but registration from (%s)", strings.Join(kb, ","), strings.Join(ka, ",")))
			}
			// every key-relevant parameter is used
			for i := 1; i <= 5; i++ {
				want := fmt.Sprintf("param#%d", i)
				if !nameIn(want, ka) {
					c.Fail(fmt.Sprintf("C03c/key-args/uses-param#%d", i), c.P.Pos(setUnique.Pos()), "SetUniqueEpochSession does not put "+want+" into the key")
				}
			}
		}
		// AddEpochPayment -> SetUniqueEpochSession forwarding map: set param index -> add param index
		fwd := map[int]int{}
		if ss := c.CallsIn(addEpochPayment, setUnique, false); len(ss) == 1 {
			call := ir.CallOf(ss[0].Instr)
			// static call on embedded Keeper: args[0] is the receiver
			args := call.Args
			off := len(args) - 6 // ctx + 5
			for i := 1; i <= 5; i++ {
				pi := paramIndex(args[off+i])
				if pi < 0 {
					c.Fail(fmt.Sprintf("C03c/forward/AddEpochPayment→Set/arg%d", i), c.P.InstrPos(ss[0].Instr), "argument is not a plain parameter of AddEpochPayment: "+ir.Desc(args[off+i]))
					continue
				}
				fwd[i] = pi
			}
		} else {
			c.Undecided("AddEpochPayment: expected one SetUniqueEpochSession call, found %d", len(ss))
		}
		lookups := c.CallsIn(relayPayment, isUnique, true)
		adds := sinks["AddEpochPayment"]
		if len(lookups) >= 1 && len(adds) >= 1 && len(fwd) == 5 {
			for _, add := range adds {
				// the lookup that guards this add
				var lk *ssa.CallCommon
				for _, g := range ir.Guards(add.Instr) {
					v, _ := stripNot(g.If.Cond, g.Edge)
					if call, _ := callOfValue(v); call != nil && ir.CalleeName(&call.Call) == pk+"Keeper.IsUniqueEpochSessionExists" {
						lk = &call.Call
					}
				}
				if lk == nil {
					continue // already reported by C03a
				}
				la := lk.Args[len(lk.Args)-5:]
				aa := ir.CallOf(add.Instr).Args
				aoff := len(aa) - 7 // ctx + 6
				names := []string{"", "epoch", "provider", "project", "chain", "session"}
				for i := 1; i <= 5; i++ {
					lv := la[i-1]
					av := aa[aoff+fwd[i]]
					key := "C03c/RelayPayment/lookup-arg=register-arg/" + names[i]
					if lv == av || ir.Desc(lv) == ir.Desc(av) {
						c.OK(key, c.P.InstrPos(add.Instr), ir.Desc(lv))
					} else {
						c.Fail(key, c.P.InstrPos(add.Instr), fmt.Sprintf("double-spend lookup uses %s but the session is registered under %s", ir.Desc(lv), ir.Desc(av)))
					}
				}
			}
		}

		// (d) both lookup and registration use the transaction store, not a write-back cache
		c.Rule("C03d store: lookup and registration address prefix.NewStore(ctx.KVStore(storeKey), UniqueEpochSessionKeyPrefix()) directly (no cachekv layer), so a duplicate inside one message is seen")
		storeOf := func(fn *ssa.Function, method string) string {
			var d string
			n := 0
			ir.EachInstr(fn, func(in ssa.Instruction) {
				call := ir.CallOf(in)
				if call == nil {
					return
				}
				name := ir.CalleeName(call)
				if strings.HasSuffix(name, "."+method) && (strings.Contains(name, "store") || strings.Contains(name, "Store")) {
					n++
					if call.IsInvoke() {
						d = ir.Desc(call.Value)
					} else if len(call.Args) > 0 {
						d = ir.Desc(call.Args[0])
					}
				}
			})
			if n != 1 {
				c.Undecided("%s: expected one store.%s call, found %d", ir.FuncName(fn), method, n)
				return ""
			}
			return d
		}
		sd, gd := storeOf(setUnique, "Set"), storeOf(isUnique, "Get")
		wantStore := "call(github.com/cosmos/cosmos-sdk/store/prefix.NewStore)(call(github.com/cosmos/cosmos-sdk/types.Context.KVStore)(param#0,recv.storeKey),call(x/pairing/types.UniqueEpochSessionKeyPrefix)())"
		for n, d := range map[string]string{"Set": sd, "Get": gd} {
			if d == "" {
				continue
			}
			if d == wantStore {
				c.OK("C03d/store/"+n, "-", d)
			} else {
				c.Fail("C03d/store/"+n, "-", "unique-session "+n+" does not address the transaction store directly: "+d)
			}
		}

		// (e) who may call
		c.Rule("C03e who-may-call: SetUniqueEpochSession only from AddEpochPayment and genesis import; AddEpochPayment and chargeCuToSubscriptionAndCreditProvider only from RelayPayment; RemoveAllUniqueEpochSession only from RemoveAllEpochPaymentsForBlockAppendAdjustments, itself only from RemoveOldEpochPayments (epochs returned by GetDeletedEpochs), itself only from the epoch-start begin-blocker")
		c.RequireCallers("C03e", pk+"Keeper.SetUniqueEpochSession", pk+"EpochCuCache.AddEpochPayment", pk+"Keeper.InitGenesis", "x/pairing.InitGenesis")
		c.RequireCallers("C03e", pk+"EpochCuCache.AddEpochPayment", pk+"msgServer.RelayPayment")
		c.RequireCallers("C03e", pk+"Keeper.chargeCuToSubscriptionAndCreditProvider", pk+"msgServer.RelayPayment")
		c.RequireCallers("C03e", pk+"Keeper.RemoveAllUniqueEpochSession", pk+"Keeper.RemoveAllEpochPaymentsForBlockAppendAdjustments")
		c.RequireCallers("C03e", pk+"Keeper.RemoveAllEpochPaymentsForBlockAppendAdjustments", pk+"Keeper.RemoveOldEpochPayments")
		c.RequireCallers("C03e", pk+"Keeper.RemoveOldEpochPayments", pk+"Keeper.BeginBlock")
		// the key prefix is only used by the accessor functions
		c.RequireCallers("C03e", "x/pairing/types.UniqueEpochSessionKeyPrefix",
			pk+"Keeper.SetUniqueEpochSession", pk+"Keeper.IsUniqueEpochSessionExists", pk+"Keeper.RemoveAllUniqueEpochSession",
			pk+"Keeper.GetAllUniqueEpochSessionForEpoch", pk+"Keeper.GetAllUniqueEpochSessionStore")
		if rm := c.Fn(pk + "Keeper.RemoveOldEpochPayments"); rm != nil {
			ss := c.CallsByName(rm, true, pk+"Keeper.RemoveAllEpochPaymentsForBlockAppendAdjustments")
			for _, s := range ss {
				call := ir.CallOf(s.Instr)
				d := ir.Desc(call.Args[len(call.Args)-1])
				key := "C03e/RemoveOldEpochPayments/epoch-from-GetDeletedEpochs"
				if strings.Contains(d, "EpochstorageKeeper.GetDeletedEpochs)") {
					c.OK(key, c.P.InstrPos(s.Instr), d)
				} else {
					c.Fail(key, c.P.InstrPos(s.Instr), "epoch payments removed for an epoch that does not come from GetDeletedEpochs: "+d)
				}
			}
		}
		// (f) provenance of the identifying values: signed relay fields, never the unsigned message envelope
		c.Rule("C03f provenance: the provider, chain and session id used for the double-spend key derive from the consumer-signed relay fields (RelaySession.Provider/SpecId/SessionId), the epoch from GetEpochStartForBlock(relay.Epoch), the project from GetProjectData; none depends on an unsigned field of the message envelope (MsgRelayPayment.Creator, DescriptionString)")
		for _, lk := range lookups {
			call := ir.CallOf(lk.Instr)
			la := call.Args[len(call.Args)-5:]
			want := []struct{ name, field, callee string }{
				{"epoch", "x/pairing/types.RelaySession.Epoch", "invoke:x/pairing/types.EpochstorageKeeper.GetEpochStartForBlock"},
				{"provider", "x/pairing/types.RelaySession.Provider", ""},
				{"project", "x/projects/types.Project.Index", pk + "Keeper.GetProjectData"},
				{"chain", "x/pairing/types.RelaySession.SpecId", ""},
				{"session", "x/pairing/types.RelaySession.SessionId", ""},
			}
			for i, w := range want {
				fields, calls := BackwardDeps(la[i])
				key := "C03f/RelayPayment/key-provenance/" + w.name
				switch {
				case !fields[w.field]:
					c.Fail(key, c.P.InstrPos(lk.Instr), "the "+w.name+" component of the double-spend key does not derive from "+w.field+": "+ir.Desc(la[i]))
				case w.callee != "" && !calls[w.callee]:
					c.Fail(key, c.P.InstrPos(lk.Instr), "the "+w.name+" component does not come from "+w.callee+": "+ir.Desc(la[i]))
				case fields["x/pairing/types.MsgRelayPayment.Creator"] || fields["x/pairing/types.MsgRelayPayment.DescriptionString"]:
					c.Fail(key, c.P.InstrPos(lk.Instr), "the "+w.name+" component depends on an unsigned field of the message envelope: "+ir.Desc(la[i]))
				default:
					c.OK(key, c.P.InstrPos(lk.Instr), ir.Desc(la[i]))
				}
			}
		}

		// (g) the registered sessions survive genesis export/import unchanged
		c.Rule("C03g round-trip: UniqueEpochSessionKey/DecodeUniqueEpochSessionKey agree on component order; the genesis export stores each decoded component into the field of the same name; the genesis import passes each field as the parameter of the same name; every parameter of the key constructors flows into the key")
		if exp := c.Fn(pk + "Keeper.GetAllUniqueEpochSessionStore"); exp != nil {
			c.RequireResultNamesAgree("C03g", exp, "x/pairing/types.DecodeUniqueEpochSessionKey", 5)
		}
		if ig := c.Fn("x/pairing.InitGenesis"); ig != nil {
			ss := c.CallsIn(ig, setUnique, true)
			if len(ss) != 1 {
				c.Undecided("InitGenesis: expected one SetUniqueEpochSession call, found %d", len(ss))
			}
			for _, s := range ss {
				c.RequireArgNamesAgree("C03g", s)
			}
		}
		c.RequireAllParamsUsed("C03g", "x/pairing/types.UniqueEpochSessionKey")
		// encode/decode order: k-th joined string of the key is the parameter whose name equals the decode result that returns split[k]
		if kf, df := c.Fn("x/pairing/types.UniqueEpochSessionKey"), c.Fn("x/pairing/types.DecodeUniqueEpochSessionKey"); kf != nil && df != nil {
			enc := map[int]string{} // slice index -> param name
			ir.EachInstr(kf, func(in ssa.Instruction) {
				st, ok := in.(*ssa.Store)
				if !ok {
					return
				}
				ia, ok := st.Addr.(*ssa.IndexAddr)
				if !ok {
					return
				}
				k, ok := ia.Index.(*ssa.Const)
				if !ok {
					return
				}
				if p, ok := st.Val.(*ssa.Parameter); ok {
					enc[int(k.Int64())] = p.Name()
				}
			})
			dec := map[int]string{} // slice index -> result name
			ir.EachInstr(df, func(in ssa.Instruction) {
				r, ok := in.(*ssa.Return)
				if !ok || IsFailureReturn(r) {
					return
				}
				for ri, v := range r.Results {
					if u, ok := v.(*ssa.UnOp); ok {
						if ia, ok := u.X.(*ssa.IndexAddr); ok {
							if k, ok := ia.Index.(*ssa.Const); ok {
								dec[int(k.Int64())] = df.Signature.Results().At(ri).Name()
							}
						}
					}
				}
			})
			if len(enc) < 3 || len(dec) < 3 {
				c.Undecided("could not recover the component order of UniqueEpochSessionKey (%d) / Decode (%d)", len(enc), len(dec))
			}
			for k, dn := range dec {
				key := "C03g/key-codec/component-order/" + dn
				if en, ok := enc[k]; ok && strings.EqualFold(en, dn) {
					c.OK(key, c.P.Pos(df.Pos()), fmt.Sprintf("position %d is %s in both", k, dn))
				} else {
					c.Fail(key, c.P.Pos(df.Pos()), fmt.Sprintf("decode returns position %d as %q but the key constructor writes %q there", k, dn, enc[k]))
				}
			}
		}
		c.NotCovered("histories in which a message fails after the registration (relies on the SDK reverting the message's writes)")
		c.NotCovered("injectivity of UniqueEpochSessionKey for identifiers containing spaces (value clause)")
	})
}
