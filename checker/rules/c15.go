package rules

import (
	"go/token"
	"strings"

	"golang.org/x/tools/go/ssa"

	"lavaverif/checker/ir"
)

const tsK = "x/timerstore/types.TimerStore."

func init() {
	register("C15", "other", func(c *Ctx) {
		c.Explain = "Timers fire exactly once, in order, when due — structural part: the tick loop re-reads the front (smallest key) timer on every iteration, leaves only through the front-not-yet-due branch (storing that expiry as the next timeout), and otherwise deletes that timer before invoking the callback of the same kind with that timer's key and data; timer keys are big-endian expiry ‖ key for add, has and delete alike, so store order is (expiry, key) order; the fast path skips a tick only below the cached next timeout, and every add lowers the cache when the new expiry is below it; both public add functions refuse expiries that are not in the future and use their own kind; Tick feeds block height to the height kind and block time to the time kind."
		tv := c.Fn(tsK + "tickValue")
		add := c.Fn(tsK + "addTimer")
		del := c.Fn(tsK + "delTimer")
		has := c.Fn(tsK + "hasTimer")
		gft := c.P.Fn(tsK + "getFrontTimer")
		tick := c.Fn(tsK + "Tick")
		enc := c.Fn("x/timerstore/types.EncodeBlockAndKey")
		if tv == nil || add == nil || del == nil || has == nil || tick == nil || enc == nil {
			return
		}
		if gft == nil {
			// the per-iteration re-read of the store's front timer is the obligation itself: without
			// it, whatever fires the callbacks works from something read before earlier callbacks ran
			fired := false
			for _, f := range c.P.AllFuncs {
				if !inProd(f) || !strings.HasPrefix(ir.FuncName(f), tsK) {
					continue
				}
				ir.EachInstr(f, func(in ssa.Instruction) {
					if call := ir.CallOf(in); call != nil && !call.IsInvoke() && call.StaticCallee() == nil && strings.Contains(ir.Desc(call.Value), ".callbacks[") {
						fired = true
					}
				})
			}
			if fired {
				c.Rule("C15a tick loop: the loop re-reads the store's front timer each iteration (getFrontTimer), deletes it through delTimer and then fires it")
				c.Fail("C15a/tickValue/front-timer-re-read-and-deleted-each-iteration", c.P.Pos(tv.Pos()), "TimerStore.getFrontTimer no longer exists and callbacks are still fired: the timers to fire are not re-read from the store after each callback (e.g. they come from a snapshot taken before the callbacks ran), so a timer deleted or added by an earlier callback in the same tick is not honoured")
			} else {
				c.Undecided("anchor function %sgetFrontTimer not found (renamed or removed?)", tsK)
			}
			return
		}

		c.Rule("C15a tick loop: tickValue returns early only under tickValue < getNextTimeout(which); the loop calls getFrontTimer each iteration; its only exit is front expiry > tickValue, which stores that expiry with setNextTimeout; otherwise it calls delTimer(which, front expiry, front key) and then callbacks[which](ctx, front key, front data)")
		fronts := c.CallsIn(tv, gft, false)
		dels := c.CallsIn(tv, del, false)
		if len(fronts) == 1 && len(dels) == 0 || len(fronts) == 0 {
			// the obligation itself is missing: callbacks are fired from something other than the re-read front timer
			fired := false
			ir.EachInstr(tv, func(in ssa.Instruction) {
				if call := ir.CallOf(in); call != nil && !call.IsInvoke() && call.StaticCallee() == nil && strings.Contains(ir.Desc(call.Value), ".callbacks[") {
					fired = true
				}
			})
			if fired {
				c.Fail("C15a/tickValue/front-timer-re-read-and-deleted-each-iteration", c.P.Pos(tv.Pos()), "callbacks are fired without re-reading the store's front timer and deleting it through delTimer in the same iteration (e.g. from a snapshot taken before the callbacks ran): a timer deleted or added by an earlier callback in the same tick is not honoured")
				return
			}
		}
		if len(fronts) != 1 || len(dels) != 1 {
			c.Undecided("C15a: expected one getFrontTimer and one delTimer call in tickValue, found %d and %d", len(fronts), len(dels))
			return
		}
		front := fronts[0].Instr.(*ssa.Call)
		loop := innermostLoop(tv, front.Block())
		if loop == nil {
			c.Fail("C15a/tickValue/front-timer-re-read-each-iteration", c.P.InstrPos(front), "getFrontTimer is not called inside the tick loop: timers added or deleted by callbacks are not honoured")
			return
		}
		c.OK("C15a/tickValue/front-timer-re-read-each-iteration", c.P.InstrPos(front), "no store iterator is held across callbacks")
		ext := func(i int) ssa.Value {
			if front.Referrers() != nil {
				for _, r := range *front.Referrers() {
					if e, ok := r.(*ssa.Extract); ok && e.Index == i {
						return e
					}
				}
			}
			return nil
		}
		fv, fk, fd := ext(0), ext(1), ext(2)
		dc := ir.CallOf(dels[0].Instr)
		if dc.Args[2] == tv.Params[2] && dc.Args[3] == fv && dc.Args[4] == fk && fv != nil {
			c.OK("C15a/tickValue/deletes-the-front-timer", c.P.InstrPos(dels[0].Instr), "delTimer(which, value, key) of getFrontTimer's result")
		} else {
			c.Fail("C15a/tickValue/deletes-the-front-timer", c.P.InstrPos(dels[0].Instr), "the timer deleted is not the front timer that is about to fire")
		}
		// callback: dynamic call through callbacks[which]
		var cb ssa.Instruction
		ir.EachInstr(tv, func(in ssa.Instruction) {
			call := ir.CallOf(in)
			if call == nil || call.IsInvoke() || call.StaticCallee() != nil {
				return
			}
			if strings.Contains(ir.Desc(call.Value), ".callbacks[") {
				cb = in
			}
		})
		if cb == nil {
			c.Fail("C15a/tickValue/fires-callback", c.P.Pos(tv.Pos()), "no callback invocation in the tick loop")
		} else {
			call := ir.CallOf(cb)
			idx := ""
			if ld, ok := call.Value.(*ssa.UnOp); ok {
				if ia, ok := ld.X.(*ssa.IndexAddr); ok {
					idx = ir.Desc(ia.Index)
				}
			}
			if call.Args[1] == fk && call.Args[2] == fd && (idx == "param#1" || idx == "conv<int>(param#1)") {
				c.OK("C15a/tickValue/fires-callback-of-same-kind-with-front-key-and-data", c.P.InstrPos(cb), "")
			} else {
				c.Fail("C15a/tickValue/fires-callback-of-same-kind-with-front-key-and-data", c.P.InstrPos(cb), "callback "+trunc(ir.Desc(call.Value), 60)+" is invoked with something other than the front timer's key and data")
			}
			if cb.Block() == dels[0].Instr.Block() && instrBefore(dels[0].Instr, cb) || dels[0].Instr.Block().Dominates(cb.Block()) && cb.Block() != dels[0].Instr.Block() {
				c.OK("C15a/tickValue/delete-before-callback", c.P.InstrPos(cb), "a timer re-added or examined by its own callback cannot fire twice")
			} else {
				c.Fail("C15a/tickValue/delete-before-callback", c.P.InstrPos(cb), "the callback runs before its timer is deleted: a callback that touches timers sees (or re-fires) the firing one")
			}
			if l := innermostLoop(tv, cb.Block()); l == nil || l.Header != loop.Header {
				c.Fail("C15a/tickValue/callback-inside-loop", c.P.InstrPos(cb), "callback is not fired per due timer")
			}
		}
		// loop exits
		nexit := 0
		for b := range loop.Blocks {
			for _, s := range b.Succs {
				if loop.Blocks[s] {
					continue
				}
				nexit++
				iff, ok := b.Instrs[len(b.Instrs)-1].(*ssa.If)
				if !ok {
					c.Fail("C15a/tickValue/loop-exit", c.P.Pos(b.Instrs[0].Pos()), "unconditional loop exit")
					continue
				}
				f := ir.Fact(iff.Cond, b.Succs[0] == s)
				// param#2 < front value
				bin, isBin := iff.Cond.(*ssa.BinOp)
				okCond := isBin && (bin.Op == token.GTR && bin.X == fv && bin.Y == ssa.Value(tv.Params[3]) && b.Succs[0] == s ||
					bin.Op == token.LSS && bin.Y == fv && bin.X == ssa.Value(tv.Params[3]) && b.Succs[0] == s ||
					bin.Op == token.LEQ && bin.X == fv && bin.Y == ssa.Value(tv.Params[3]) && b.Succs[1] == s)
				// the exit path stores the front value as next timeout
				okStore := false
				for _, st := range c.CallsByName(tv, false, tsK+"setNextTimeout") {
					sc := ir.CallOf(st.Instr)
					if (st.Instr.Block() == s || s.Dominates(st.Instr.Block())) && sc.Args[3] == fv && sc.Args[2] == tv.Params[2] {
						okStore = true
					}
				}
				if okCond && okStore {
					c.OK("C15a/tickValue/exit-only-when-front-not-due,-caching-it", c.P.InstrPos(iff), f)
				} else {
					c.Fail("C15a/tickValue/exit-only-when-front-not-due,-caching-it", c.P.InstrPos(iff), "the tick loop can stop under "+trunc(f, 100)+" (due timers left unfired) or without caching the next expiry")
				}
			}
		}
		if nexit != 1 {
			c.Fail("C15a/tickValue/single-loop-exit", c.P.Pos(tv.Pos()), "the tick loop has "+itoa(nexit)+" exits")
		}
		// fast path
		for _, r := range c.AllReturns(tv) {
			ret := r.Instr.(*ssa.Return)
			if loop.Blocks[ret.Block()] || ret.Block() == tv.Recover {
				continue
			}
			reachedFromLoop := false
			for b := range loop.Blocks {
				if reaches(b, ret.Block()) {
					reachedFromLoop = true
				}
			}
			if reachedFromLoop {
				continue
			}
			if ir.HasFact(ir.GuardFacts(ret), "(param#2 < call("+tsK+"getNextTimeout)(recv,param#0,param#1))") {
				c.OK("C15a/tickValue/fast-path-only-below-cached-next-timeout", c.P.InstrPos(ret), "")
			} else {
				c.Fail("C15a/tickValue/fast-path-only-below-cached-next-timeout", c.P.InstrPos(ret), "a tick is skipped without tick < cached next timeout of the same kind")
			}
		}

		c.Rule("C15b keys: addTimer, hasTimer and delTimer address the timer as EncodeBlockAndKey(expiry, key) in the store of their kind; EncodeBlockAndKey writes the expiry big-endian into the first 8 bytes and copies the key after it; getFrontTimer takes the first entry of an ascending prefix iterator")
		for name, fn := range map[string]*ssa.Function{"addTimer": add, "hasTimer": has, "delTimer": del} {
			okEnc, okStore := false, false
			for _, s := range c.CallsIn(fn, enc, false) {
				call := ir.CallOf(s.Instr)
				if ir.Desc(call.Args[0]) == "param#2" && ir.Desc(call.Args[1]) == "param#3" {
					okEnc = true
				}
			}
			for _, s := range c.CallsByName(fn, false, tsK+"getStoreTimer") {
				if ir.Desc(ir.CallOf(s.Instr).Args[2]) == "param#1" {
					okStore = true
				}
			}
			if okEnc && okStore {
				c.OK("C15b/"+name+"/key=EncodeBlockAndKey(expiry,key)-in-store-of-kind", c.P.Pos(fn.Pos()), "")
			} else {
				c.Fail("C15b/"+name+"/key=EncodeBlockAndKey(expiry,key)-in-store-of-kind", c.P.Pos(fn.Pos()), name+" does not address the timer by (kind, expiry, key) like its siblings")
			}
		}
		okBE, okCopy := false, false
		ir.EachInstr(enc, func(in ssa.Instruction) {
			call := ir.CallOf(in)
			if call == nil {
				return
			}
			switch ir.CalleeName(call) {
			case "encoding/binary.bigEndian.PutUint64":
				if strings.Contains(ir.Desc(call.Args[1]), "[const(0):const(8)]") || strings.Contains(ir.Desc(call.Args[1]), "slice(") {
					okBE = ir.Desc(call.Args[2]) == "param#0"
				}
			case "builtin:copy":
				okCopy = ir.Desc(call.Args[1]) == "param#1"
			}
		})
		if okBE && okCopy {
			c.OK("C15b/EncodeBlockAndKey/big-endian-expiry-then-key", c.P.Pos(enc.Pos()), "byte order of keys = (expiry, key) order")
		} else {
			c.Fail("C15b/EncodeBlockAndKey/big-endian-expiry-then-key", c.P.Pos(enc.Pos()), "timer keys are no longer big-endian expiry followed by the key: store order is not firing order")
		}
		if n := len(c.CallsByName(gft, false, "github.com/cosmos/cosmos-sdk/types.KVStorePrefixIterator")); n == 1 {
			c.OK("C15b/getFrontTimer/ascending-iterator-first-entry", c.P.Pos(gft.Pos()), "KVStorePrefixIterator (ascending)")
		} else {
			c.Fail("C15b/getFrontTimer/ascending-iterator-first-entry", c.P.Pos(gft.Pos()), "the front timer is not read from an ascending prefix iterator")
		}

		c.Rule("C15c cache: addTimer lowers the cached next timeout of its kind under expiry < cached; setNextTimeout is called only by addTimer, tickValue and version migration")
		okLower := false
		for _, s := range c.CallsByName(add, false, tsK+"setNextTimeout") {
			call := ir.CallOf(s.Instr)
			if ir.Desc(call.Args[2]) == "param#1" && ir.Desc(call.Args[3]) == "param#2" && ir.HasFact(ir.GuardFacts(s.Instr), "(param#2 < call("+tsK+"getNextTimeout)(recv,param#0,param#1))") {
				okLower = true
			}
		}
		if okLower {
			c.OK("C15c/addTimer/lowers-next-timeout", c.P.Pos(add.Pos()), "the cache never stays above an added expiry")
		} else {
			c.Fail("C15c/addTimer/lowers-next-timeout", c.P.Pos(add.Pos()), "adding a timer earlier than the cached next timeout does not lower the cache: the fast path skips its tick")
		}
		c.RequireCallers("C15c", tsK+"setNextTimeout", tsK+"addTimer", tsK+"tickValue", "x/timerstore/types.timerMigrate1to2", tsK+"Init")

		c.Rule("C15d public API: AddTimerByBlockHeight/Time reach addTimer only past expiry > current height/time with their own kind; Del/Has use their own kind; Tick ticks the height kind with the block height and the time kind with the block time")
		kinds := map[string]string{"BlockHeight": c.Const("x/timerstore/types", "BlockHeight"), "BlockTime": c.Const("x/timerstore/types", "BlockTime")}
		for _, kind := range []string{"BlockHeight", "BlockTime"} {
			for _, op := range []struct{ pub, priv string }{{"AddTimerBy", "addTimer"}, {"DelTimerBy", "delTimer"}, {"HasTimerBy", "hasTimer"}} {
				fn := c.Fn(tsK + op.pub + kind)
				if fn == nil {
					continue
				}
				ok := false
				for _, s := range c.CallsByName(fn, false, tsK+op.priv) {
					call := ir.CallOf(s.Instr)
					if ir.Desc(call.Args[2]) == kinds[kind] && ir.Desc(call.Args[3]) == "param#1" && ir.Desc(call.Args[4]) == "param#2" {
						ok = true
						if op.pub == "AddTimerBy" {
							want := "(conv<uint64>(call(github.com/cosmos/cosmos-sdk/types.Context.BlockHeight)(param#0)) < param#1)"
							if kind == "BlockTime" {
								want = "Unix)("
							}
							if !ir.HasFact(ir.GuardFacts(s.Instr), want, "< param#1)") {
								ok = false
							}
						}
					}
				}
				if ok {
					c.OK("C15d/"+op.pub+kind+"/own-kind"+map[bool]string{true: "-and-future-only", false: ""}[op.pub == "AddTimerBy"], c.P.Pos(fn.Pos()), "")
				} else {
					c.Fail("C15d/"+op.pub+kind+"/own-kind"+map[bool]string{true: "-and-future-only", false: ""}[op.pub == "AddTimerBy"], c.P.Pos(fn.Pos()), op.pub+kind+" does not forward (its kind, expiry, key)"+map[bool]string{true: " past expiry > now", false: ""}[op.pub == "AddTimerBy"])
				}
			}
		}
		nt := 0
		for _, s := range c.CallsIn(tick, tv, false) {
			call := ir.CallOf(s.Instr)
			k, v := ir.Desc(call.Args[2]), ir.Desc(call.Args[3])
			switch {
			case k == kinds["BlockHeight"] && v == "conv<uint64>(call(github.com/cosmos/cosmos-sdk/types.Context.BlockHeight)(param#0))":
				nt++
			case k == kinds["BlockTime"] && strings.HasPrefix(v, "conv<uint64>(call(time.Time.Unix)(call(time.Time.UTC)(call(github.com/cosmos/cosmos-sdk/types.Context.BlockTime)(param#0)"):
				nt++
			default:
				c.Fail("C15d/Tick/kind-matches-clock", c.P.InstrPos(s.Instr), "tickValue("+k+", "+trunc(v, 80)+")")
			}
		}
		if nt == 2 {
			c.OK("C15d/Tick/kind-matches-clock", c.P.Pos(tick.Pos()), "height kind ← block height, time kind ← block time")
		} else {
			c.Fail("C15d/Tick/both-kinds-ticked", c.P.Pos(tick.Pos()), "Tick does not tick both kinds with their own clock")
		}
		c.NotCovered("the KV store's iterator order itself; that callers call Tick once per block; behaviour of callbacks")
	})
}
