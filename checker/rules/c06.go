package rules

import (
	"strings"

	"golang.org/x/tools/go/ssa"

	"lavaverif/checker/ir"
)

const dk = "x/dualstaking/keeper."

// flowsOnlyTrue: along every path that starts in block start and reaches the header of
// the enclosing loop without crossing it, the loop-carried boolean `flag` (a phi in the
// loop header) is assigned the constant true. Returns false with a reason when some path
// leaves it unchanged or assigns something else.
func flowsOnlyTrue(flag *ssa.Phi, start *ssa.BasicBlock) (bool, string) {
	header := flag.Block()
	reach := ir.Reachable(start, func(b *ssa.BasicBlock) bool { return b == header })
	reach[start] = true
	var resolve func(v ssa.Value, from *ssa.BasicBlock, depth int) (bool, string)
	resolve = func(v ssa.Value, from *ssa.BasicBlock, depth int) (bool, string) {
		if depth > 8 {
			return false, "too deep"
		}
		if k, ok := v.(*ssa.Const); ok {
			if k.Value != nil && k.Value.String() == "true" {
				return true, ""
			}
			return false, "assigned " + ir.Desc(v)
		}
		if v == flag {
			return false, "left unchanged on a path"
		}
		if p, ok := v.(*ssa.Phi); ok {
			any := false
			for i, e := range p.Edges {
				pred := p.Block().Preds[i]
				if !reach[pred] {
					continue
				}
				any = true
				if ok, why := resolve(e, pred, depth+1); !ok {
					return false, why
				}
			}
			if !any {
				return false, "no incoming edge from the region"
			}
			return true, ""
		}
		return false, "assigned " + ir.Desc(v)
	}
	// value carried into the header along back edges coming from the region
	any := false
	for i, e := range flag.Edges {
		pred := header.Preds[i]
		if !reach[pred] {
			continue
		}
		any = true
		if ok, why := resolve(e, pred, 0); !ok {
			return false, why
		}
	}
	if !any {
		return false, "region does not reach the loop header"
	}
	return true, ""
}

func init() {
	register("C06", "other", func(c *Ctx) {
		c.Explain = "Provider delegations mirror validator delegations: every change of the per-delegator provider total is either net-zero (redelegate between providers / the empty provider) or one of the two unpaired operations (Delegate to / unbond from providers), and those are reachable only from the balancing code driven by the staking hooks. Decided as who-may-write the delegation store, who-may-call the unpaired operations, must-pass-through of the balancing call in the hooks, net-zero same-value agreement in Redelegate, the non-negativity guard, the slashing path, and the hook-disabling ante rule."
		c.Rule("C06a who-may-write: the delegations collection is written only by SetDelegation / RemoveDelegation; those are called only by increaseDelegation / decreaseDelegation (and genesis / migration); those only by Delegate, Redelegate, unbond")
		nset := 0
		for _, f := range c.P.AllFuncs {
			if !inProd(f) {
				continue
			}
			for _, s := range c.CallsByName(f, false, "cosmossdk.io/collections.IndexedMap.Set", "cosmossdk.io/collections.IndexedMap.Remove") {
				call := ir.CallOf(s.Instr)
				if !strings.HasSuffix(ir.Desc(call.Args[0]), ".delegations") {
					continue
				}
				nset++
				n := topName(s.Fn)
				key := "C06a/delegations-store/writer=" + n
				if n == dk+"Keeper.SetDelegation" || n == dk+"Keeper.RemoveDelegation" {
					c.OK(key, c.P.InstrPos(s.Instr), "store accessor")
				} else {
					c.Fail(key, c.P.InstrPos(s.Instr), "the provider-delegation store is written outside its accessors")
				}
			}
		}
		if nset < 3 {
			c.Undecided("expected >=3 writes to the delegations collection, found %d", nset)
		}
		c.auditUncalledTestHelper("C06a", dk+"Keeper.ChangeDelegationTimestampForTesting")
		c.RequireCallers("C06a", dk+"Keeper.SetDelegation", dk+"Keeper.ChangeDelegationTimestampForTesting", dk+"Keeper.increaseDelegation", dk+"Keeper.decreaseDelegation", dk+"Keeper.InitGenesis", "x/dualstaking.InitGenesis", dk+"Migrator.MigrateVersion5To6", dk+"Migrator.MigrateVersion6To7")
		c.RequireCallers("C06a", dk+"Keeper.RemoveDelegation", dk+"Keeper.decreaseDelegation")
		c.RequireCallers("C06a", dk+"Keeper.increaseDelegation", dk+"Keeper.Delegate", dk+"Keeper.Redelegate")
		c.RequireCallers("C06a", dk+"Keeper.decreaseDelegation", dk+"Keeper.unbond", dk+"Keeper.Redelegate")

		c.Rule("C06b unpaired operations: Keeper.Delegate is called only by BalanceDelegator; Keeper.unbond only by UnbondUniformProviders; UnbondUniformProviders only by BalanceDelegator and the BeforeDelegationRemoved hook; BalanceDelegator only by the AfterDelegationModified hook and BalanceValidatorsDelegators; that only by HandleSlashedValidators; that only by the module's BeginBlock")
		c.auditQueryOnly("C06b", "x/subscription/keeper.Keeper.createDummyDelegator", "x/subscription/keeper.Keeper.Estimated")
		c.RequireCallers("C06b", dk+"Keeper.Delegate", dk+"Keeper.BalanceDelegator", "x/subscription/keeper.Keeper.createDummyDelegator")
		c.RequireCallers("C06b", dk+"Keeper.unbond", dk+"Keeper.UnbondUniformProviders")
		c.RequireCallers("C06b", dk+"Keeper.UnbondUniformProviders", dk+"Keeper.BalanceDelegator", dk+"Hooks.BeforeDelegationRemoved")
		c.RequireCallers("C06b", dk+"Keeper.BalanceDelegator", dk+"Hooks.AfterDelegationModified", dk+"Keeper.BalanceValidatorsDelegators")
		c.RequireCallers("C06b", dk+"Keeper.BalanceValidatorsDelegators", dk+"Keeper.HandleSlashedValidators")
		c.RequireCallers("C06b", dk+"Keeper.HandleSlashedValidators", "x/dualstaking.AppModule.BeginBlock", dk+"Keeper.BeginBlock")

		c.Rule("C06c net-zero: Redelegate increases the target and decreases the source by the same amount value and fails if either fails; DelegateFull/UnbondFull pair their Redelegate with exactly one stakingKeeper.Delegate/Undelegate on every success path")
		if rd := c.Fn(dk + "Keeper.Redelegate"); rd != nil {
			inc := c.CallsByName(rd, false, dk+"Keeper.increaseDelegation")
			dec := c.CallsByName(rd, false, dk+"Keeper.decreaseDelegation")
			if len(inc) != 1 || len(dec) != 1 {
				c.Fail("C06c/Redelegate/one-increase-one-decrease", c.P.Pos(rd.Pos()), "expected exactly one increase and one decrease")
			} else {
				ia, da := ir.CallOf(inc[0].Instr).Args, ir.CallOf(dec[0].Instr).Args
				n := len(ia)
				if ia[n-2] == da[n-2] && ia[n-4] == da[n-4] && ir.Desc(ia[n-3]) == "param#3" && ir.Desc(da[n-3]) == "param#2" {
					c.OK("C06c/Redelegate/same-amount-same-delegator", c.P.InstrPos(dec[0].Instr), "increase(to, amount) and decrease(from, amount) share the amount and delegator values")
				} else {
					c.Fail("C06c/Redelegate/same-amount-same-delegator", c.P.InstrPos(dec[0].Instr), "the two legs of a redelegation use different amounts/delegators/providers: "+strings.Join(argDescs(ir.CallOf(inc[0].Instr)), ",")+" vs "+strings.Join(argDescs(ir.CallOf(dec[0].Instr)), ","))
				}
				c.RequireGuards("C06c", c.SuccessReturns(rd), "return-nil", ErrNil(dk+"Keeper.increaseDelegation"), ErrNil(dk+"Keeper.decreaseDelegation"))
			}
		}
		for fnn, stk := range map[string]string{dk + "Keeper.DelegateFull": "invoke:x/dualstaking/types.StakingKeeper.Delegate", dk + "Keeper.UnbondFull": "invoke:x/dualstaking/types.StakingKeeper.Undelegate"} {
			if f := c.Fn(fnn); f != nil {
				// returns that hand back Redelegate's own error propagate it; all others must be past its nil outcome
				var rets []Site
				for _, r := range c.SuccessReturns(f) {
					ret := r.Instr.(*ssa.Return)
					if !valueFromCall(RetVal(ret, len(ret.Results)-1), []string{dk + "Keeper.Redelegate"}, map[ssa.Value]bool{}) {
						rets = append(rets, r)
					}
				}
				c.RequireGuards("C06c", rets, "return-nil", ErrNil(dk+"Keeper.Redelegate"))
				c.RequireGuards("C06c", c.SuccessReturns(f), "return", ErrNil(stk))
				if n := len(c.CallsByName(f, true, stk)); n != 1 {
					c.Fail("C06c/"+fnn+"/one-staking-call", c.P.Pos(f.Pos()), "expected exactly one "+stk+" call, found "+itoa(n))
				}
			}
		}
		c.RequireCallers("C06c", dk+"Keeper.Redelegate", dk+"Keeper.DelegateFull", dk+"Keeper.UnbondFull", dk+"msgServer.Redelegate")

		c.Rule("C06d non-negative: in decreaseDelegation every store/removal of the delegation is dominated by the false outcome of delegation.Amount.IsLT(amount) and by found==true")
		if dec := c.Fn(dk + "Keeper.decreaseDelegation"); dec != nil {
			sinks := append(c.CallsByName(dec, false, dk+"Keeper.SetDelegation"), c.CallsByName(dec, false, dk+"Keeper.RemoveDelegation")...)
			if len(sinks) < 2 {
				c.Undecided("decreaseDelegation: expected SetDelegation and RemoveDelegation")
			}
			c.RequireGuards("C06d", sinks, "write-delegation",
				CallIs(false, "github.com/cosmos/cosmos-sdk/types.Coin.IsLT"),
				CallIs(true, dk+"Keeper.GetDelegation"))
			for _, s := range c.CallsByName(dec, false, "github.com/cosmos/cosmos-sdk/types.Coin.IsLT") {
				a := argDescs(ir.CallOf(s.Instr))
				if strings.HasSuffix(a[0], ".Amount") && (strings.Contains(a[0], "GetDelegation") || strings.Contains(a[0], "x/dualstaking/types.Delegation")) && a[1] == "param#3" {
					c.OK("C06d/decreaseDelegation/IsLT-args", c.P.InstrPos(s.Instr), a[0]+" < "+a[1])
				} else {
					c.Fail("C06d/decreaseDelegation/IsLT-args", c.P.InstrPos(s.Instr), "the sufficiency check does not compare the stored amount with the requested one: "+strings.Join(a, ","))
				}
			}
		}

		c.Rule("C06e hooks: AfterDelegationModified reaches BalanceDelegator on every path that does not take the hook-disabled outcome and returns its error; BeforeDelegationRemoved unbonds, on every such path, an amount obtained by converting the delegation's shares to tokens through the validator; BeforeValidatorSlashed records the validator; HandleSlashedValidators balances every recorded validator's delegators and clears the record")
		if h := c.Fn(dk + "Hooks.AfterDelegationModified"); h != nil {
			disabled := func(iff *ssa.If, edge bool) bool {
				return CallIs(true, dk+"Keeper.GetDisableDualstakingHook").Match(ir.Guard{If: iff, Edge: edge})
			}
			r := c.MustPassOpt(h, nil, IsCallTo(dk+"Keeper.BalanceDelegator"), nil, disabled)
			if r.OK {
				c.OK("C06e/Hooks.AfterDelegationModified/must-pass=BalanceDelegator", c.P.Pos(h.Pos()), "all paths except the disabled outcome")
			} else {
				c.Fail("C06e/Hooks.AfterDelegationModified/must-pass=BalanceDelegator", c.P.Pos(h.Pos()), "a staking delegation change is not mirrored: "+r.Witness)
			}
			okErr := false
			ir.EachInstr(h, func(in ssa.Instruction) {
				if ret, ok := in.(*ssa.Return); ok && ret.Block() != h.Recover {
					if call, _ := callOfValue(RetVal(ret, 0)); call != nil && ir.CalleeName(&call.Call) == dk+"Keeper.BalanceDelegator" {
						okErr = true
					}
				}
			})
			if okErr {
				c.OK("C06e/Hooks.AfterDelegationModified/returns-balance-error", c.P.Pos(h.Pos()), "a failed balance fails the staking operation")
			} else {
				c.Fail("C06e/Hooks.AfterDelegationModified/returns-balance-error", c.P.Pos(h.Pos()), "the error of BalanceDelegator is not returned")
			}
		}
		if h := c.Fn(dk + "Hooks.BeforeDelegationRemoved"); h != nil {
			disabled := func(iff *ssa.If, edge bool) bool {
				return CallIs(true, dk+"Keeper.GetDisableDualstakingHook").Match(ir.Guard{If: iff, Edge: edge})
			}
			r := c.MustPassOpt(h, nil, IsCallTo(dk+"Keeper.UnbondUniformProviders"), SuccessExit, disabled)
			if r.OK {
				c.OK("C06e/Hooks.BeforeDelegationRemoved/must-pass=UnbondUniformProviders", c.P.Pos(h.Pos()), "all success paths except the disabled outcome")
			} else {
				c.Fail("C06e/Hooks.BeforeDelegationRemoved/must-pass=UnbondUniformProviders", c.P.Pos(h.Pos()), r.Witness)
			}
			for _, s := range c.CallsByName(h, false, dk+"Keeper.UnbondUniformProviders") {
				a := ir.CallOf(s.Instr).Args
				fields, calls := BackwardDeps(a[len(a)-1])
				conv := false
				for n := range calls {
					if strings.Contains(n, "staking/types.Validator.TokensFromShares") {
						conv = true
					}
				}
				key := "C06e/Hooks.BeforeDelegationRemoved/amount=tokens-from-shares"
				if conv && fields["github.com/cosmos/cosmos-sdk/x/staking/types.Delegation.Shares"] {
					c.OK(key, c.P.InstrPos(s.Instr), "shares converted through the validator's exchange rate")
				} else {
					c.Fail(key, c.P.InstrPos(s.Instr), "the amount unbonded from providers is not the removed delegation's shares converted to tokens by the validator (wrong after a slash): "+ir.DescN(a[len(a)-1], 5))
				}
				if ir.Desc(a[len(a)-2]) == "call(github.com/cosmos/cosmos-sdk/types.AccAddress.String)(param#1)" {
					c.OK("C06e/Hooks.BeforeDelegationRemoved/delegator=hook-arg", c.P.InstrPos(s.Instr), "delegator of the removed delegation")
				} else {
					c.Fail("C06e/Hooks.BeforeDelegationRemoved/delegator=hook-arg", c.P.InstrPos(s.Instr), ir.Desc(a[len(a)-2]))
				}
			}
		}
		if h := c.Fn(dk + "Hooks.BeforeValidatorSlashed"); h != nil {
			r := c.MustPass(h, nil, IsCallTo(dk+"Keeper.SetSlashedValidators"), nil)
			if r.OK {
				c.OK("C06e/Hooks.BeforeValidatorSlashed/must-pass=SetSlashedValidators", c.P.Pos(h.Pos()), "all paths")
			} else {
				c.Fail("C06e/Hooks.BeforeValidatorSlashed/must-pass=SetSlashedValidators", c.P.Pos(h.Pos()), r.Witness)
			}
		}
		if hs := c.Fn(dk + "Keeper.HandleSlashedValidators"); hs != nil {
			if len(c.CallsByName(hs, true, dk+"Keeper.BalanceValidatorsDelegators")) >= 1 && len(c.CallsByName(hs, true, dk+"Keeper.GetSlashedValidators")) == 1 {
				c.OK("C06e/HandleSlashedValidators/balances-recorded-validators", c.P.Pos(hs.Pos()), "iterates GetSlashedValidators and balances each")
			} else {
				c.Fail("C06e/HandleSlashedValidators/balances-recorded-validators", c.P.Pos(hs.Pos()), "slashed validators are not balanced")
			}
		}
		// the hooks object is what the staking keeper is given
		if hk := c.Fn(dk + "Keeper.Hooks"); hk != nil {
			refs := c.References(hk)
			inApp := false
			for _, r := range refs {
				if strings.HasPrefix(topName(r.Fn), "app.") || strings.HasPrefix(topName(r.Fn), "app/") {
					inApp = true
				}
			}
			if inApp {
				c.OK("C06e/app/registers-dualstaking-hooks", "-", "Keeper.Hooks() referenced from app wiring")
			} else {
				c.Fail("C06e/app/registers-dualstaking-hooks", "-", "the dualstaking hooks are not registered with the staking keeper in app wiring")
			}
		}

		c.Rule("C06g record first: increaseDelegation / decreaseDelegation write the delegation record (SetDelegation / RemoveDelegation) on every path before the stake-entry update Keeper.AfterDelegationModified, which may fail (self delegation below the minimum): the BeginBlock slash handling calls this chain outside a transaction and ignores the error, so a record that is only written after a fallible step is not written at all on that path and the provider side stops mirroring the validator side. The hook-disabled flag is read by the two staking hooks only; the slash handling's BalanceDelegator must not see it")
		for _, fnm := range []string{"increaseDelegation", "decreaseDelegation"} {
			f := c.Fn(dk + "Keeper." + fnm)
			if f == nil {
				continue
			}
			adm := c.CallsByName(f, false, dk+"Keeper.AfterDelegationModified")
			if len(adm) == 0 {
				c.Fail("C06g/"+fnm+"/record-written-before-stake-entry-update", c.P.Pos(f.Pos()), "the stake entry is no longer updated from "+fnm)
				continue
			}
			isWrite := func(in ssa.Instruction) bool {
				cl := ir.CallOf(in)
				if cl == nil {
					return false
				}
				n := ir.CalleeName(cl)
				return n == dk+"Keeper.SetDelegation" || n == dk+"Keeper.RemoveDelegation"
			}
			for _, s := range adm {
				if c.mustPassBefore(f, s.Instr, isWrite) {
					c.OK("C06g/"+fnm+"/record-written-before-stake-entry-update", c.P.InstrPos(s.Instr), "SetDelegation/RemoveDelegation on every path to AfterDelegationModified")
				} else {
					c.Fail("C06g/"+fnm+"/record-written-before-stake-entry-update", c.P.InstrPos(s.Instr), "a path reaches the fallible stake-entry update before the delegation record is written: when it fails under the error-ignoring BeginBlock slash handling the record keeps its old amount")
				}
			}
		}
		c.RequireCallers("C06g", dk+"Keeper.GetDisableDualstakingHook", dk+"Hooks.AfterDelegationModified", dk+"Hooks.BeforeDelegationRemoved")
		// after a slash every delegator of every recorded validator is balanced: one delegator's
		// failure (e.g. a vault below its minimum) must not stop the others from being balanced
		for _, lc := range [][2]string{{"BalanceValidatorsDelegators", dk + "Keeper.BalanceDelegator"}, {"HandleSlashedValidators", dk + "Keeper.BalanceValidatorsDelegators"}} {
			f := c.Fn(dk + "Keeper." + lc[0])
			if f == nil {
				continue
			}
			sites := c.CallsByName(f, false, lc[1])
			key := "C06g/" + lc[0] + "/visits-every-element"
			if len(sites) != 1 {
				c.Fail(key, c.P.Pos(f.Pos()), "expected one "+lc[1]+" call in "+lc[0]+", found "+itoa(len(sites)))
				continue
			}
			found, ok, at := loopLeavesOnlyAtHeader(f, sites[0].Instr)
			switch {
			case !found:
				c.Fail(key, c.P.InstrPos(sites[0].Instr), lc[1]+" is not called in a loop over all elements")
			case !ok:
				c.Fail(key, c.P.InstrPos(at), "the loop in "+lc[0]+" can stop before its last element (break/return inside): the remaining delegators of a slashed validator are never balanced, so their provider delegations stay above their validator delegations")
			default:
				c.OK(key, c.P.InstrPos(sites[0].Instr), "loop left only at range exhaustion")
			}
		}

		c.Rule("C06f hook disabling: SetDisableDualstakingHook is called only by the ante RedelegationFlager; a transaction gets the flag only if it carries redelegations and nothing else: every message that is not a staking MsgBeginRedelegate sets the `others` flag on every path, and redelegations&&others rejects the transaction before the flag is written")
		c.RequireCallers("C06f", dk+"Keeper.SetDisableDualstakingHook", "x/dualstaking/ante.RedelegationFlager.DisableRedelegationHooks")
		if f := c.Fn("x/dualstaking/ante.RedelegationFlager.DisableRedelegationHooks"); f != nil {
			// the failure return and its two flag guards
			var flags []*ssa.Phi
			for _, r := range c.AllReturns(f) {
				if !IsFailureReturn(r.Instr.(*ssa.Return)) {
					continue
				}
				for _, g := range ir.Guards(r.Instr) {
					if p, ok := g.If.Cond.(*ssa.Phi); ok && g.Edge {
						flags = append(flags, p)
					}
				}
			}
			// type switch on MsgBeginRedelegate
			var okIf *ssa.If
			for _, b := range f.Blocks {
				if len(b.Instrs) == 0 {
					continue
				}
				if iff, ok := b.Instrs[len(b.Instrs)-1].(*ssa.If); ok {
					if ex, ok := iff.Cond.(*ssa.Extract); ok {
						if ta, ok := ex.Tuple.(*ssa.TypeAssert); ok && strings.HasSuffix(ir.TypeName(ta.AssertedType), "staking/types.MsgBeginRedelegate") {
							okIf = iff
						}
					}
				}
			}
			if len(flags) != 2 || okIf == nil {
				c.Fail("C06f/DisableRedelegationHooks/shape", c.P.Pos(f.Pos()), "could not find the redelegations/others flags guarding the rejection and the MsgBeginRedelegate type test")
			} else {
				blk := okIf.Block()
				okT, whyT := false, ""
				okF, whyF := false, ""
				for _, fl := range flags {
					if ok, _ := flowsOnlyTrue(fl, blk.Succs[0]); ok {
						okT = true
					} else if ok2, w := flowsOnlyTrue(fl, blk.Succs[1]); ok2 {
						okF = true
					} else {
						whyF, whyT = w, w
					}
				}
				if okT {
					c.OK("C06f/DisableRedelegationHooks/redelegate-sets-flag", c.P.InstrPos(okIf), "every MsgBeginRedelegate marks the transaction")
				} else {
					c.Fail("C06f/DisableRedelegationHooks/redelegate-sets-flag", c.P.InstrPos(okIf), whyT)
				}
				if okF {
					c.OK("C06f/DisableRedelegationHooks/any-other-message-sets-others", c.P.InstrPos(okIf), "every non-redelegate message marks the transaction as mixed, on every path")
				} else {
					c.Fail("C06f/DisableRedelegationHooks/any-other-message-sets-others", c.P.InstrPos(okIf), "some message other than MsgBeginRedelegate does not count as `other`: a transaction can mix a redelegation (hooks disabled) with it — "+whyF)
				}
			}
			// the flag written is the redelegations flag, after the rejection test
			for _, s := range c.CallsByName(f, false, dk+"Keeper.SetDisableDualstakingHook") {
				a := ir.CallOf(s.Instr).Args
				if p, ok := a[len(a)-1].(*ssa.Phi); ok && len(flags) == 2 && (p == flags[0] || p == flags[1]) {
					c.OK("C06f/DisableRedelegationHooks/writes-redelegations-flag", c.P.InstrPos(s.Instr), "flag value is the loop-carried redelegations flag")
				} else {
					c.Fail("C06f/DisableRedelegationHooks/writes-redelegations-flag", c.P.InstrPos(s.Instr), "writes "+ir.Desc(a[len(a)-1]))
				}
			}
		}
		if ah := c.Fn("x/dualstaking/ante.RedelegationFlager.AnteHandle"); ah != nil {
			r := c.MustPass(ah, nil, IsCallTo("x/dualstaking/ante.RedelegationFlager.DisableRedelegationHooks"), SuccessExit)
			// next(ctx, …) is the success continuation
			nexts := 0
			ir.EachInstr(ah, func(in ssa.Instruction) {
				if call := ir.CallOf(in); call != nil && ir.CalleeName(call) == "dynamic" {
					nexts++
					c.RequireGuards("C06f", []Site{{Fn: ah, Instr: in}}, "next()", ErrNil("x/dualstaking/ante.RedelegationFlager.DisableRedelegationHooks"), ErrNil("x/dualstaking/ante.RedelegationFlager.unwrapAuthz"))
				}
			})
			if r.OK && nexts == 1 {
				c.OK("C06f/AnteHandle/flag-decided-before-next", c.P.Pos(ah.Pos()), "unwrap authz, decide flag, then continue")
			} else {
				c.Fail("C06f/AnteHandle/flag-decided-before-next", c.P.Pos(ah.Pos()), "the transaction continues without the hook flag being (re)decided: "+r.Witness)
			}
		}
		// the flag decision looks at every message of the transaction: unwrapAuthz only ever adds to its result
		if ua := c.Fn("x/dualstaking/ante.RedelegationFlager.unwrapAuthz"); ua != nil {
			n, bad := 0, ""
			var at ssa.Instruction
			for _, s := range c.SuccessReturns(ua) {
				ret := s.Instr.(*ssa.Return)
				h, isPhi := RetVal(ret, 0).(*ssa.Phi)
				if !isPhi {
					bad, at = "returns "+trunc(ir.Desc(RetVal(ret, 0)), 80)+", not an accumulated list", ret
					continue
				}
				seen := map[ssa.Value]bool{h: true}
				var leafOK func(v ssa.Value) bool
				leafOK = func(v ssa.Value) bool {
					if seen[v] {
						return true
					}
					seen[v] = true
					switch x := v.(type) {
					case *ssa.Phi:
						for _, e := range x.Edges {
							if !leafOK(e) {
								return false
							}
						}
						return true
					case *ssa.Const:
						return x.IsNil()
					case *ssa.Call:
						if ir.CalleeName(&x.Call) == "builtin:append" {
							n++
							return leafOK(x.Call.Args[0])
						}
					}
					bad, at = "assigns "+trunc(ir.Desc(v), 80)+" to the flattened list instead of appending to it", ret
					return false
				}
				for _, e := range h.Edges {
					leafOK(e)
				}
			}
			switch {
			case bad != "":
				c.Fail("C06f/unwrapAuthz/only-appends", c.P.InstrPos(at), "unwrapAuthz "+bad+": messages seen earlier in the transaction are dropped from the list the hook-flag decision is made on, so a mixed transaction can pass as redelegations only")
			case n < 2:
				c.Undecided("C06f: expected the two appends (plain message, unwrapped MsgExec) behind unwrapAuthz's result, found %d", n)
			default:
				c.OK("C06f/unwrapAuthz/only-appends", c.P.Pos(ua.Pos()), "the result is nil extended by append on every path")
			}
		}
		if nf := c.Fn("x/dualstaking/ante.NewRedelegationFlager"); nf != nil {
			inApp := false
			for _, r := range c.References(nf) {
				if strings.HasPrefix(topName(r.Fn), "app") {
					inApp = true
				}
			}
			if inApp {
				c.OK("C06f/app/ante-chain-has-RedelegationFlager", "-", "constructed in app wiring")
			} else {
				c.Fail("C06f/app/ante-chain-has-RedelegationFlager", "-", "the flag is never reset per transaction: decorator not in the ante chain")
			}
		}
		c.NotCovered("the equality up to share rounding; the uniform-unbond arithmetic; staking-module internals")
	})
}

// auditUncalledTestHelper records an exported *ForTesting helper as an audited exception,
// provided no non-test code references it.
func (c *Ctx) auditUncalledTestHelper(rule, name string) {
	fn := c.Fn(name)
	if fn == nil {
		return
	}
	var refs []Site
	for _, r := range c.References(fn) {
		if inProd(r.Fn) {
			refs = append(refs, r)
		}
	}
	if len(refs) == 0 {
		c.Audit(rule+"/"+name+"/test-helper", c.P.Pos(fn.Pos()), "exported test helper with no caller outside testutil/ and _test files (re-verified on every run)")
	} else {
		c.Fail(rule+"/"+name+"/test-helper", c.P.InstrPos(refs[0].Instr), "a *ForTesting helper that writes state is referenced from production code")
	}
}

// auditQueryOnly records fn as an audited exception provided every (transitive, depth 3)
// caller chain ends in functions whose key starts with queryPrefix (gRPC query handlers
// run on a discarded cache context).
func (c *Ctx) auditQueryOnly(rule, name, queryPrefix string) {
	fn := c.Fn(name)
	if fn == nil {
		return
	}
	if strings.HasPrefix(name, queryPrefix) {
		// the function is itself a gRPC query handler; it must implement the module's QueryServer
		impl := false
		for _, r := range c.References(fn) {
			if strings.Contains(topName(r.Fn), "_Query_") {
				impl = true
			}
		}
		if impl {
			c.Audit(rule+"/"+name+"/query-only", c.P.Pos(fn.Pos()), "gRPC query handler (invoked from the generated _Query_ service handler): runs on a discarded context")
		} else {
			c.Fail(rule+"/"+name+"/query-only", c.P.Pos(fn.Pos()), "assumed to be a gRPC query handler but is not invoked from a generated _Query_ handler")
		}
		return
	}
	var bad string
	var walk func(f *ssa.Function, depth int)
	seen := map[*ssa.Function]bool{}
	walk = func(f *ssa.Function, depth int) {
		if seen[f] {
			return
		}
		seen[f] = true
		refs := c.References(f)
		if len(refs) == 0 && !strings.HasPrefix(ir.FuncName(f), queryPrefix) {
			bad = ir.FuncName(f) + " has no caller and is not a query handler"
		}
		for _, r := range refs {
			top := r.Fn
			for top.Parent() != nil {
				top = top.Parent()
			}
			if strings.HasPrefix(ir.FuncName(top), queryPrefix) {
				continue
			}
			if depth == 0 {
				bad = "reached from " + ir.FuncName(top)
				continue
			}
			walk(top, depth-1)
		}
	}
	walk(fn, 3)
	if bad == "" {
		c.Audit(rule+"/"+name+"/query-only", c.P.Pos(fn.Pos()), "reachable only from gRPC query handlers "+queryPrefix+"* (state changes are made on a cache context that is never written back)")
	} else {
		c.Fail(rule+"/"+name+"/query-only", c.P.Pos(fn.Pos()), "state-changing helper assumed query-only is "+bad)
	}
}
