package rules

import (
	"go/token"
	"strings"

	"golang.org/x/tools/go/ssa"

	"lavaverif/checker/ir"
)

const wsK = "protocol/provideroptimizer.WeightedSelector."

// hasResultFact: some dominating fact is exactly result #idx of a call whose descriptor
// contains calleeSub, with the given truth value (facts of other results of the same call,
// or arguments that happen to contain "#idx", do not count).
func hasResultFact(facts []string, calleeSub string, idx int, want bool) bool {
	suffix := ")#" + itoa(idx)
	for _, f := range facts {
		neg := strings.HasPrefix(f, "!")
		g := strings.TrimPrefix(f, "!")
		if strings.HasPrefix(g, "call(") || strings.HasPrefix(g, "invoke(") {
			if strings.Contains(g, calleeSub) && strings.HasSuffix(g, suffix) && neg != want {
				// the outermost call must be the one named
				if i := strings.Index(g, ")("); i >= 0 && strings.Contains(g[:i+2], calleeSub) {
					return true
				}
			}
		}
	}
	return false
}

func init() {
	register("C35", "other", func(c *Ctx) {
		c.Explain = "Weighted provider selection is fair and well-formed — structural part (well-formedness only): CalculateProviderScores appends a candidate only for an address of the given list that is not in the ignored set and has QoS data, with CalculateScore's result as its selection weight; CalculateScore clamps the composite to [minSelectionChance, 1]; SelectProviderWithStats returns only the address of an element of the score list it was given (nothing when the list is empty), draws rng.Float64()·(sum of the same weights it then accumulates) and picks the first element whose cumulative weight reaches the draw. Proportionality over many draws, monotonicity of the weights and the floating-point behaviour are not decided."
		cps := c.Fn(wsK + "CalculateProviderScores")
		cs := c.Fn(wsK + "CalculateScore")
		sel := c.Fn(wsK + "SelectProviderWithStats")
		if cps == nil || cs == nil || sel == nil {
			return
		}
		c.Rule("C35a candidates: the ProviderScore appended in CalculateProviderScores has Address = the element of allAddresses being iterated, SelectionWeight = CalculateScore(...), and is reached only past !ignored and found ∧ qos != nil")
		napp := 0
		ir.EachInstr(cps, func(in ssa.Instruction) {
			call := ir.CallOf(in)
			if call == nil || ir.CalleeName(call) != "builtin:append" || !strings.HasSuffix(ir.TypeName(call.Args[0].Type()), "ProviderScore") || strings.Contains(ir.TypeName(call.Args[0].Type()), "Details") {
				return
			}
			napp++
			f := ir.GuardFacts(in)
			okGuards := ir.HasFact(f, "!param#1[") && ir.HasFact(f, " != nil)")
			// the appended literal
			var lit map[string]ssa.Value
			if sl, ok := call.Args[1].(*ssa.Slice); ok {
				if arr, ok := sl.X.(*ssa.Alloc); ok && arr.Referrers() != nil {
					for _, r := range *arr.Referrers() {
						if ia, ok := r.(*ssa.IndexAddr); ok {
							walkStores(ia, func(v ssa.Value) { lit = structFieldStores(allocOf(v)) })
						}
					}
				}
			}
			addr, w := "", ""
			if v, ok := lit["Address"]; ok {
				addr = ir.Desc(v)
			}
			if v, ok := lit["SelectionWeight"]; ok {
				w = ir.Desc(v)
			}
			if okGuards && strings.HasPrefix(addr, "param#0[") && strings.HasPrefix(w, "call("+wsK+"CalculateScore)(") {
				c.OK("C35a/CalculateProviderScores/candidate=listed-not-ignored-with-data", c.P.InstrPos(in), "")
			} else {
				c.Fail("C35a/CalculateProviderScores/candidate=listed-not-ignored-with-data", c.P.InstrPos(in), "a selection candidate is added with address "+trunc(addr, 50)+" / weight "+trunc(w, 50)+" without the ignored-set and QoS-data checks")
			}
		})
		if napp != 1 {
			c.Undecided("C35a: expected one ProviderScore append in CalculateProviderScores, found %d", napp)
		}

		c.Rule("C35b weight range: every value CalculateScore returns is the composite, replaced by minSelectionChance under composite < minSelectionChance and by 1 under composite > 1")
		for _, r := range c.AllReturns(cs) {
			ret := r.Instr.(*ssa.Return)
			if ret.Block() == cs.Recover {
				continue
			}
			leaves := phiLeaves(RetVal(ret, 0))
			hasMin, hasOne := false, false
			for _, lf := range leaves {
				d := ir.Desc(lf)
				if d == "recv.minSelectionChance" {
					hasMin = true
				}
				if d == "const(1)" {
					hasOne = true
				}
			}
			// the clamp conditions
			okLo := len(c.IfsMatching(cs, FactHas("below-min", " < recv.minSelectionChance)"))) > 0
			okHi := len(c.IfsMatching(cs, FactHas("above-one", "(const(1) < "))) > 0
			if hasMin && hasOne && okLo && okHi {
				c.OK("C35b/CalculateScore/clamped-to-[min,1]", c.P.InstrPos(ret), "")
			} else {
				c.Fail("C35b/CalculateScore/clamped-to-[min,1]", c.P.InstrPos(ret), "the selection weight is not clamped to [minSelectionChance, 1]: a provider can get zero chance or dominate the draw")
			}
		}

		c.Rule("C35c draw: SelectProviderWithStats returns \"\" only for an empty list and otherwise the Address of an element of providerScores; the random value is rng.Float64() times the sum of SelectionWeight over the list, and the winner is the element at which the running sum of the same field first reaches it")
		for _, r := range c.AllReturns(sel) {
			ret := r.Instr.(*ssa.Return)
			if ret.Block() == sel.Recover {
				continue
			}
			d := ir.Desc(RetVal(ret, 0))
			switch {
			case d == "const(\"\")":
				if ir.HasFact(ir.GuardFacts(ret), "(call(builtin:len)(param#1) == const(0))") {
					c.OK("C35c/SelectProviderWithStats/empty-list=>nothing", c.P.InstrPos(ret), "")
				} else {
					c.Fail("C35c/SelectProviderWithStats/empty-list=>nothing", c.P.InstrPos(ret), "no provider is selected although candidates exist")
				}
			case strings.HasPrefix(d, "param#1[") && strings.HasSuffix(d, ".Address"):
				c.OK("C35c/SelectProviderWithStats/returns-a-candidate@"+trunc(strings.TrimSuffix(strings.TrimPrefix(d, "param#1["), "].Address"), 40), c.P.InstrPos(ret), "")
			default:
				c.Fail("C35c/SelectProviderWithStats/returns-a-candidate", c.P.InstrPos(ret), "returns "+trunc(d, 80)+", which is not the address of one of the candidates")
			}
		}
		// inverse-CDF shape
		okDraw, okPick := false, false
		ir.EachInstr(sel, func(in ssa.Instruction) {
			b, ok := in.(*ssa.BinOp)
			if !ok {
				return
			}
			d := ir.Desc(b)
			if b.Op == token.MUL && strings.Contains(d, "Randomizer.Float64)(") && strings.Contains(d, ".SelectionWeight") {
				okDraw = true
			}
			if (b.Op == token.LEQ || b.Op == token.GEQ) && strings.Contains(d, "Randomizer.Float64)(") && strings.Count(d, ".SelectionWeight") >= 2 {
				okPick = true
			}
		})
		if okDraw && okPick {
			c.OK("C35c/SelectProviderWithStats/draw=rand·total,pick=first-cumulative>=draw", c.P.Pos(sel.Pos()), "total and running sum are over the same SelectionWeight field")
		} else {
			c.Fail("C35c/SelectProviderWithStats/draw=rand·total,pick=first-cumulative>=draw", c.P.Pos(sel.Pos()), "the weighted draw is no longer rand·Σweights compared against the running sum of the same weights")
		}
		c.Rule("C35d always selects when it can: ChooseProviderWithStats and ChooseBestProviderWithStats return without a provider only under len(CalculateProviderScores(allAddresses, ignoredProviders, …)#0) == 0, and otherwise return exactly SelectProviderWithStats' choice from those scores")
		for _, name := range []string{"ChooseProviderWithStats", "ChooseBestProviderWithStats"} {
			fn := c.Fn("protocol/provideroptimizer.ProviderOptimizer." + name)
			if fn == nil {
				continue
			}
			for _, r := range c.AllReturns(fn) {
				ret := r.Instr.(*ssa.Return)
				if ret.Block() == fn.Recover {
					continue
				}
				v := RetVal(ret, 0)
				empty := false
				if sl, ok := v.(*ssa.Slice); ok {
					if a, ok := sl.X.(*ssa.Alloc); ok && strings.Contains(a.Type().String(), "[0]string") {
						empty = true
					}
				}
				if strings.Contains(ir.Desc(v), "[0]string") || ir.Desc(v) == "nil" {
					empty = true
				}
				facts := ir.GuardFacts(ret)
				if empty {
					okEmpty := false
					for _, f := range facts {
						if strings.HasPrefix(f, "(call(builtin:len)(call("+wsK+"CalculateProviderScores)(") && strings.Contains(f, ".weightedSelector,param#1,param#2,") && strings.HasSuffix(f, "#0) == const(0))") {
							okEmpty = true
						}
					}
					if okEmpty {
						c.OK("C35d/"+name+"/no-provider-only-when-no-candidate", c.P.InstrPos(ret), "")
					} else {
						c.Fail("C35d/"+name+"/no-provider-only-when-no-candidate", c.P.InstrPos(ret), "returns no provider without the scored candidate list being empty (e.g. by comparing set sizes instead of intersecting): a selectable provider with QoS data is not selected")
					}
					continue
				}
				// non-empty: the selector's choice
				okSel := false
				if sl, ok := v.(*ssa.Slice); ok {
					if a, ok := sl.X.(*ssa.Alloc); ok && a.Referrers() != nil {
						for _, rr := range *a.Referrers() {
							if ia, ok := rr.(*ssa.IndexAddr); ok {
								walkStores(ia, func(x ssa.Value) {
									if strings.HasPrefix(ir.Desc(x), "call("+wsK+"SelectProviderWithStats)(") && strings.HasSuffix(ir.Desc(x), "#0") {
										okSel = true
									}
								})
							}
						}
					}
				}
				if okSel {
					c.OK("C35d/"+name+"/returns-the-selector's-choice", c.P.InstrPos(ret), "")
				} else {
					c.Fail("C35d/"+name+"/returns-the-selector's-choice", c.P.InstrPos(ret), "returns "+trunc(ir.Desc(v), 100)+" instead of the weighted selector's choice")
				}
			}
		}
		c.Rule("C35e adaptive bounds are numbers before they are used: wherever the optimizer package obtains (p10, p90) from GetAdaptiveBounds, each of the two values is tested with math.IsNaN — in that function or in a predicate helper it is handed to — (an empty digest yields NaN, NaN; every ordering comparison with NaN is false, so range checks alone let it through and the weight becomes NaN, outside [min chance, 1])")
		{
			nSites := 0
			for _, f := range c.P.AllFuncs {
				if !inProd(f) || !strings.HasPrefix(ir.FuncName(f), "protocol/provideroptimizer.") {
					continue
				}
				ir.EachInstr(f, func(in ssa.Instruction) {
					call, ok := in.(*ssa.Call)
					if !ok || call.Referrers() == nil {
						return
					}
					direct := strings.HasSuffix(ir.CalleeName(&call.Call), "AdaptiveMaxCalculator.GetAdaptiveBounds")
					viaGetter := false
					if !call.Call.IsInvoke() && call.Call.StaticCallee() == nil {
						d := ir.Desc(call.Call.Value)
						viaGetter = strings.HasSuffix(d, ".adaptiveLatencyGetter") || strings.HasSuffix(d, ".adaptiveSyncGetter")
					}
					if !direct && !viaGetter {
						return
					}
					nSites++
					var nanTested func(v ssa.Value) bool
					visited := map[ssa.Value]bool{}
					nanTested = func(v ssa.Value) bool {
						if v.Referrers() == nil || visited[v] {
							return false
						}
						visited[v] = true
						for _, r := range *v.Referrers() {
							// a named result spilled because of a defer: follow the loads of the slot
							if st, ok := r.(*ssa.Store); ok && st.Val == v {
								if a, ok := st.Addr.(*ssa.Alloc); ok && a.Referrers() != nil {
									for _, ar := range *a.Referrers() {
										if ld, ok := ar.(*ssa.UnOp); ok && ld.Op == token.MUL && nanTested(ld) {
											return true
										}
									}
								}
							}
							uc := ir.CallOf(r)
							if uc == nil {
								continue
							}
							if ir.CalleeName(uc) == "math.IsNaN" {
								return true
							}
							if callee := uc.StaticCallee(); callee != nil && callee.Blocks != nil && inProd(callee) {
								for i, a := range uc.Args {
									if a != v || i >= len(callee.Params) {
										continue
									}
									p := callee.Params[i]
									if p.Referrers() == nil {
										continue
									}
									for _, pr := range *p.Referrers() {
										if pc := ir.CallOf(pr); pc != nil && ir.CalleeName(pc) == "math.IsNaN" {
											return true
										}
									}
								}
							}
						}
						return false
					}
					okBoth, nEx := true, 0
					for _, r := range *call.Referrers() {
						if ex, ok := r.(*ssa.Extract); ok {
							nEx++
							if !nanTested(ex) {
								okBoth = false
							}
						}
					}
					key := "C35e/" + ir.FuncName(f) + "/adaptive-bounds-NaN-tested"
					if okBoth && nEx == 2 {
						c.OK(key, c.P.InstrPos(in), "math.IsNaN on p10 and p90")
					} else {
						c.Fail(key, c.P.InstrPos(in), "the adaptive bounds obtained here are used without a math.IsNaN test of both values: with an empty digest they are NaN, pass the comparison-based range checks, and make the normalised score and the selection weight NaN")
					}
				})
			}
			if nSites < 4 {
				c.Undecided("C35e: expected at least 4 GetAdaptiveBounds call sites in the optimizer package, found %d", nSites)
			}
		}
		c.NotCovered("proportionality within statistical tolerance; monotonicity of each normalise* function; floating-point corner cases other than NaN bounds; provider_optimizer.go's tiering around the selector")
	})

	register("C30", "other", func(c *Ctx) {
		c.Explain = "Chain tracker mirrors the node's canonical chain — structural part (one clause only): the fork callback is invoked only under the true result of forkChanged for the poll's latest block, and forkChanged answers true only as `stored hash != hash fetched from the node` for the stored latest block (same height: the new latest; otherwise the saved one), returning false on a fetch error. That the tracker's queue equals the node's chain after every poll, and the block-data queries, are not decided."
		fc := c.Fn("protocol/chaintracker.ChainTracker.forkChanged")
		fa := c.Fn("protocol/chaintracker.ChainTracker.fetchAllPreviousBlocksIfNecessary")
		if fc == nil || fa == nil {
			return
		}
		c.Rule("C30a fork callback: in fetchAllPreviousBlocksIfNecessary the forkCallback field is called only under forkChanged(ctx, newLatestBlock)#0 == true; every non-error return of forkChanged is `savedLatest.Hash != FetchBlockHashByNum(...)`, and error returns answer false")
		n := 0
		ir.EachInstr(fa, func(in ssa.Instruction) {
			call := ir.CallOf(in)
			if call == nil || call.IsInvoke() || call.StaticCallee() != nil || !strings.HasSuffix(ir.Desc(call.Value), ".forkCallback") {
				return
			}
			n++
			forkedTrue := false
			for _, f := range ir.GuardFacts(in) {
				if strings.HasPrefix(f, "call(protocol/chaintracker.ChainTracker.forkChanged)(recv,param#0,") && strings.HasSuffix(f, ")#0") {
					forkedTrue = true
				}
			}
			if forkedTrue {
				c.OK("C30a/fetchAllPreviousBlocksIfNecessary/fork-callback-only-when-forked", c.P.InstrPos(in), "")
			} else {
				c.Fail("C30a/fetchAllPreviousBlocksIfNecessary/fork-callback-only-when-forked", c.P.InstrPos(in), "the fork callback fires without forkChanged having reported a changed hash")
			}
		})
		if n != 1 {
			c.Undecided("C30a: expected one forkCallback invocation, found %d", n)
		}
		nr := 0
		for _, r := range c.AllReturns(fc) {
			ret := r.Instr.(*ssa.Return)
			if ret.Block() == fc.Recover {
				continue
			}
			v := RetVal(ret, 0)
			d := ir.Desc(v)
			if IsFailureReturn(ret) {
				if d == "const(false)" {
					c.OK("C30a/forkChanged/error=>false#"+itoa(nr), c.P.InstrPos(ret), "")
				} else {
					c.Fail("C30a/forkChanged/error=>false", c.P.InstrPos(ret), "a failed hash fetch is reported as a fork")
				}
				nr++
				continue
			}
			nr++
			b, ok := v.(*ssa.BinOp)
			if ok && b.Op == token.NEQ && strings.HasSuffix(ir.Desc(b.X), ".Hash") && strings.Contains(ir.Desc(b.Y), "FetchBlockHashByNum)(") || ok && b.Op == token.NEQ && strings.HasSuffix(ir.Desc(b.Y), ".Hash") && strings.Contains(ir.Desc(b.X), "FetchBlockHashByNum)(") {
				c.OK("C30a/forkChanged/forked=stored-hash!=node-hash#"+itoa(nr), c.P.InstrPos(ret), "")
			} else {
				c.Fail("C30a/forkChanged/forked=stored-hash!=node-hash", c.P.InstrPos(ret), "forkChanged answers "+trunc(d, 100))
			}
		}
		if nr < 4 {
			c.Undecided("C30a: expected four returns in forkChanged, found %d", nr)
		}
		c.Rule("C30b a failed hash fetch aborts the update: in readHashes the error outcome of FetchBlockHashByNum reaches no successful return; C30c the kept window: replaceBlocksQueue keeps blocksQueue[blocksQueueStartIndex:blocksQueueEndIndex] (its own index parameters) followed by newBlocksQueue[newQueueStartIndex:], and the whole new queue when nothing overlaps")
		if rh := c.Fn("protocol/chaintracker.ChainTracker.readHashes"); rh != nil {
			ies := c.IfsMatching(rh, ErrNonNil("invoke:protocol/chaintracker.IChainFetcherWrapper.FetchBlockHashByNum"))
			if len(ies) == 0 {
				ies = c.IfsMatching(rh, FactHas("fetch-error", "FetchBlockHashByNum)(", "#1 != nil)"))
			}
			if len(ies) != 1 {
				c.Undecided("C30b: expected one error test of FetchBlockHashByNum in readHashes, found %d", len(ies))
			}
			for _, ie := range ies {
				if ok, where := c.EdgeCannotReach(ie, c.SuccessReturns(rh)); ok {
					c.OK("C30b/readHashes/fetch-error=>update-aborted", c.P.InstrPos(ie.If), "")
				} else {
					c.Fail("C30b/readHashes/fetch-error=>update-aborted", c.P.InstrPos(ie.If), "after a failed hash fetch readHashes can still return overlap indexes ("+where+"): stored hashes that were not compared with the node are kept as if validated")
				}
			}
		}
		if rq := c.Fn("protocol/chaintracker.ChainTracker.replaceBlocksQueue"); rq != nil {
			n := 0
			ir.EachInstr(rq, func(in ssa.Instruction) {
				st, ok := in.(*ssa.Store)
				if !ok {
					return
				}
				fa, ok := st.Addr.(*ssa.FieldAddr)
				if !ok || fieldNameOfAddr(fa) != "blocksQueue" {
					return
				}
				n++
				d := ir.DescN(st.Val, 10)
				switch {
				case d == "param#4":
					if ir.HasFact(ir.GuardFacts(st), "(param#1 <= const(0))") {
						c.OK("C30c/replaceBlocksQueue/no-overlap=>whole-new-queue", c.P.InstrPos(st), "under newQueueStartIndex <= 0")
					} else {
						c.Fail("C30c/replaceBlocksQueue/no-overlap=>whole-new-queue", c.P.InstrPos(st), "the queue is replaced by the new-blocks buffer as a whole although an overlap with the stored blocks may have been found (not under newQueueStartIndex <= 0): the kept window is then whatever was copied into that buffer, not old[start:end] followed by new[newStart:]")
					}
				case strings.HasPrefix(d, "call(builtin:append)(") && strings.Contains(d, "recv.blocksQueue"):
					// slice bounds: old[start:end], new[newStart:]
					okBounds := false
					if call, _ := callOfValue(st.Val); call != nil {
						if sl, isSl := call.Call.Args[0].(*ssa.Slice); isSl && sl.Low != nil && sl.High != nil && ir.Desc(sl.Low) == "param#2" && ir.Desc(sl.High) == "param#3" {
							if s2, isSl2 := call.Call.Args[1].(*ssa.Slice); isSl2 && s2.Low != nil && s2.High == nil && ir.Desc(s2.Low) == "param#1" && ir.Desc(s2.X) == "param#4" {
								okBounds = true
							}
						}
					}
					if okBounds {
						c.OK("C30c/replaceBlocksQueue/kept-window=old[start:end]+new[newStart:]", c.P.InstrPos(st), "")
					} else {
						c.Fail("C30c/replaceBlocksQueue/kept-window=old[start:end]+new[newStart:]", c.P.InstrPos(st), "the queue is rebuilt from "+trunc(d, 160))
					}
				default:
					c.Fail("C30c/replaceBlocksQueue/kept-window=old[start:end]+new[newStart:]", c.P.InstrPos(st), "the queue is rebuilt from "+trunc(d, 160)+", not from the overlap window found by readHashes followed by the newly fetched blocks")
				}
			})
			if n == 1 {
				c.Fail("C30c/replaceBlocksQueue/kept-window=old[start:end]+new[newStart:]", c.P.Pos(rq.Pos()), "replaceBlocksQueue no longer builds the queue as the overlap window old[start:end] followed by new[newStart:] (one assignment of blocksQueue left)")
			} else if n != 2 {
				c.Undecided("C30c: expected two assignments of blocksQueue in replaceBlocksQueue, found %d", n)
			}
		}
		c.Rule("C30d latest block and hashes move together: setLatestBlockNum is called only by replaceBlocksQueue (and the constructor-time start), i.e. under the queue's write lock together with the new hashes — advanced earlier, a failed hash read leaves the tracker claiming a tip it holds no hash for. C30e fresh hashes: every hash readHashes stores into the new queue, and every hash it hands to the overlap search, is the first result of the FetchBlockHashByNum call of that same iteration — not a value remembered from earlier in the poll, which a reorganisation in between makes stale")
		const ctK = "protocol/chaintracker.ChainTracker."
		c.RequireCallers("C30d", ctK+"setLatestBlockNum", ctK+"replaceBlocksQueue")
		if rh := c.P.Fn(ctK + "readHashes"); rh != nil {
			fresh := func(v ssa.Value) bool {
				d := ir.Desc(unconv(v))
				return strings.HasPrefix(d, "invoke(protocol/chaintracker.IChainFetcherWrapper.FetchBlockHashByNum)(") && strings.HasSuffix(d, "#0") && !strings.HasPrefix(d, "phi{")
			}
			nH, bad := 0, ""
			var at ssa.Instruction
			ir.EachInstr(rh, func(in ssa.Instruction) {
				if st, ok := in.(*ssa.Store); ok {
					if fa, ok := st.Addr.(*ssa.FieldAddr); ok && ir.FieldKey(fa) == "protocol/chaintracker.BlockStore.Hash" {
						nH++
						if !fresh(st.Val) {
							bad, at = "stores the hash "+trunc(ir.Desc(st.Val), 110), in
						}
					}
				}
				if call := ir.CallOf(in); call != nil && ir.CalleeName(call) == ctK+"hashesOverlapIndexes" {
					nH++
					if len(call.Args) < 5 || !fresh(call.Args[4]) {
						bad, at = "searches the overlap with the hash "+trunc(ir.Desc(call.Args[len(call.Args)-1]), 110), in
					}
				}
			})
			switch {
			case bad != "":
				c.Fail("C30e/readHashes/hashes-come-from-this-iteration's-fetch", c.P.InstrPos(at), "readHashes "+bad+", which is not the answer FetchBlockHashByNum gave in this iteration")
			case nH < 2:
				c.Undecided("C30e: expected the hash store and the overlap search in readHashes, found %d", nH)
			default:
				c.OK("C30e/readHashes/hashes-come-from-this-iteration's-fetch", c.P.Pos(rh.Pos()), "stored hash and overlap-search hash are FetchBlockHashByNum(...)#0")
			}
		}
		c.NotCovered("everything else in the property: latest block equality, the number and contiguity of stored hashes, their equality with the node's hashes after reorganisations, block-data query ranges")
	})
}
