package rules

import (
	"strings"

	"golang.org/x/tools/go/ssa"

	"lavaverif/checker/ir"
)

func init() {
	register("C18", "other", func(c *Ctx) {
		c.Explain = "Badge usage never exceeds the badge allocation — structural part: a badge relay is accepted only past IsBadgeValid(user, lava chain, epoch) and past the allocation comparison; the comparison's addition of the consumer-signed CU cannot wrap; the amount added to the usage record is the amount that was checked, under the same record key; the usage record is written only by handleBadgeCu (under badgeFound, after a successful checkBadge) and removed only by its expiry timer; a new record always gets that timer and is refused when its expiry already passed."
		cb := c.Fn(pk + "Keeper.checkBadge")
		hb := c.Fn(pk + "Keeper.handleBadgeCu")
		rp := c.Fn(pk + "msgServer.RelayPayment")
		if cb == nil || hb == nil || rp == nil {
			return
		}
		c.Rule("C18a acceptance: checkBadge returns nil only on the true outcome of Badge.IsBadgeValid(client, relay.LavaChainId, relay.Epoch) and the within-allocation outcome of relay.CuSum + UsedCu > CuAllocation; IsBadgeValid compares address, lava chain id and epoch; a missing usage record whose expiry block already passed is rejected")
		c.RequireGuards("C18a", c.SuccessReturns(cb), "return-nil",
			CallIs(true, "x/pairing/types.Badge.IsBadgeValid"),
			FactHas("within-allocation", ".CuSum", ".UsedCu", "<= ", ".CuAllocation"),
		)
		for _, s := range c.CallsByName(cb, false, "x/pairing/types.Badge.IsBadgeValid") {
			a := argDescs(ir.CallOf(s.Instr))
			if len(a) == 4 && a[1] == "param#2" && a[2] == "param#3.LavaChainId" && a[3] == "conv<uint64>(param#3.Epoch)" {
				c.OK("C18a/checkBadge/IsBadgeValid-args", c.P.InstrPos(s.Instr), strings.Join(a[1:], ","))
			} else {
				c.Fail("C18a/checkBadge/IsBadgeValid-args", c.P.InstrPos(s.Instr), "badge not validated against (relay signer, relay lava chain id, relay epoch): "+strings.Join(a, ","))
			}
		}
		if iv := c.Fn("x/pairing/types.Badge.IsBadgeValid"); iv != nil {
			var trues []Site
			for _, r := range c.AllReturns(iv) {
				if ir.Desc(RetVal(r.Instr.(*ssa.Return), 0)) == "const(true)" {
					trues = append(trues, r)
				}
			}
			if len(trues) == 0 {
				c.Undecided("IsBadgeValid has no `return true`")
			}
			c.RequireGuards("C18a", trues, "return-true",
				Cmp("address", ".Address", "==", "param#0"),
				Cmp("lava-chain", ".LavaChainId", "==", "param#1"),
				Cmp("epoch", ".Epoch", "==", "param#2"))
		}
		// expiry of a not-yet-existing record
		var newExp []Site
		ir.EachInstr(cb, func(in ssa.Instruction) {
			if r, ok := in.(*ssa.Return); ok && !IsFailureReturn(r) {
				newExp = append(newExp, Site{Fn: cb, Instr: in})
			}
		})
		exp := c.CallsByName(cb, false, pk+"Keeper.BadgeUsedCuExpiry")
		if len(exp) != 1 {
			c.Fail("C18a/checkBadge/computes-expiry-for-new-record", c.P.Pos(cb.Pos()), "expected one BadgeUsedCuExpiry call")
		} else {
			c.RequireGuards("C18a", exp, "BadgeUsedCuExpiry", CallIs(false, pk+"Keeper.GetBadgeUsedCu"))
			ifs := c.IfsMatching(cb, FactHas("expired", "Keeper.BadgeUsedCuExpiry)", "<= ", "Context.BlockHeight)"))
			if len(ifs) == 0 {
				c.Fail("C18a/checkBadge/expired-record-rejected", c.P.InstrPos(exp[0].Instr), "the expiry block of a new usage record is not compared with the current height")
			}
			for _, ie := range ifs {
				if ok, where := c.EdgeCannotReach(ie, c.SuccessReturns(cb)); ok {
					c.OK("C18a/checkBadge/expired-record-rejected", c.P.InstrPos(ie.If), "expired outcome cannot reach a nil return")
				} else {
					c.Fail("C18a/checkBadge/expired-record-rejected", c.P.InstrPos(ie.If), "expired badge accepted at "+where)
				}
			}
		}

		// the expiry is the badge epoch plus the chain memory *as fixated at the badge's epoch*
		if be := c.Fn(pk + "Keeper.BadgeUsedCuExpiry"); be != nil {
			fix := c.CallsByName(be, false, "invoke:x/pairing/types.EpochstorageKeeper.BlocksToSave")
			okFix := false
			for _, s := range fix {
				a := argDescs(ir.CallOf(s.Instr))
				if strings.HasSuffix(a[len(a)-1], ".Epoch") {
					okFix = true
				}
			}
			if okFix {
				c.OK("C18a/BadgeUsedCuExpiry/memory-fixated-at-badge-epoch", c.P.Pos(be.Pos()), "BlocksToSave(ctx, badge.Epoch)")
			} else {
				c.Fail("C18a/BadgeUsedCuExpiry/memory-fixated-at-badge-epoch", c.P.Pos(be.Pos()), "the usage record's expiry is not computed from the chain memory fixated at the badge's epoch: a later parameter change shifts the expiry away from the record's timer")
			}
			c.RequireGuards("C18a", c.CallsByName(be, false, "invoke:x/pairing/types.EpochstorageKeeper.BlocksToSaveRaw"), "BlocksToSaveRaw(fallback)", ErrNonNil("invoke:x/pairing/types.EpochstorageKeeper.BlocksToSave"))
			for _, r := range c.AllReturns(be) {
				d := ir.Desc(RetVal(r.Instr.(*ssa.Return), 0))
				if strings.Contains(d, ".Epoch") && strings.Contains(d, " + ") {
					c.OK("C18a/BadgeUsedCuExpiry/returns-epoch+memory", c.P.InstrPos(r.Instr), trunc(d, 140))
				} else {
					c.Fail("C18a/BadgeUsedCuExpiry/returns-epoch+memory", c.P.InstrPos(r.Instr), "returns "+trunc(d, 140))
				}
			}
		}

		c.Rule("C18b no wrap: the allocation comparison adds a consumer-signed uint64 (relay.CuSum); the sum must be overflow-safe: dominated by a bound of relay.CuSum by the allocation (or computed as allocation - used), otherwise CuSum near 2^64 wraps the sum below the allocation")
		for _, r := range c.SuccessReturns(cb) {
			safe := false
			hasSum := false
			for _, f := range ir.GuardFacts(r.Instr) {
				x, op, y, ok := splitCmp(f)
				if !ok {
					continue
				}
				if (op == "<=" || op == "<") && strings.Contains(x, " + ") && strings.Contains(x, ".CuSum") && strings.HasSuffix(y, ".CuAllocation") {
					hasSum = true
				}
				if (op == "<=" || op == "<") && strings.HasSuffix(x, ".CuSum") && !strings.Contains(x, " + ") && strings.Contains(y, ".CuAllocation") {
					safe = true
				}
			}
			key := "C18b/checkBadge/allocation-sum-cannot-wrap"
			switch {
			case !hasSum:
				c.OK(key, c.P.InstrPos(r.Instr), "allocation check is not an unguarded sum")
			case safe:
				c.OK(key, c.P.InstrPos(r.Instr), "relay.CuSum bounded by the allocation before it is added")
			default:
				c.Fail(key, c.P.InstrPos(r.Instr), "relay.CuSum + UsedCu > CuAllocation is evaluated in uint64 with no prior bound on the consumer-signed CuSum: a CuSum close to 2^64 wraps the sum under the allocation and the record then decreases")
			}
		}

		c.Rule("C18c same amount, same key: RelayPayment calls handleBadgeCu under badgeFound with the badge data that was checked, the relay's provider, relay.CuSum and the expiry returned by checkBadge; checkBadge and handleBadgeCu derive the record key from (badge project signature, provider); handleBadgeCu adds exactly its CU parameter to UsedCu and stores the record on every path; a new record gets its timer")
		for _, s := range c.CallsIn(rp, hb, true) {
			a := ir.CallOf(s.Instr).Args
			n := len(a)
			_, calls := BackwardDeps(a[n-1])
			okArgs := strings.HasSuffix(ir.Desc(a[n-3]), ".Relays[i].Provider") && strings.HasSuffix(ir.Desc(a[n-2]), ".Relays[i].CuSum") && calls[pk+"Keeper.checkBadge"]
			var cbArgs []ssa.Value
			for _, cs := range c.CallsIn(rp, cb, true) {
				cbArgs = ir.CallOf(cs.Instr).Args
			}
			sameBadge := len(cbArgs) > 0 && ir.Desc(cbArgs[len(cbArgs)-3]) == ir.Desc(a[n-4])
			if okArgs && sameBadge {
				c.OK("C18c/RelayPayment/handleBadgeCu-args", c.P.InstrPos(s.Instr), "checked badge, relay.Provider, relay.CuSum, checkBadge's expiry")
			} else {
				c.Fail("C18c/RelayPayment/handleBadgeCu-args", c.P.InstrPos(s.Instr), "usage is recorded for something other than what checkBadge checked: "+trunc(strings.Join(argDescs(ir.CallOf(s.Instr)), ","), 300))
			}
		}
		keyArgs := func(fn *ssa.Function) string {
			ss := c.CallsByName(fn, false, "x/pairing/types.BadgeUsedCuKey")
			if len(ss) != 1 {
				c.Undecided("%s: expected one BadgeUsedCuKey call", ir.FuncName(fn))
				return ""
			}
			return strings.Join(argDescs(ir.CallOf(ss[0].Instr)), ",")
		}
		ka, kb := keyArgs(cb), keyArgs(hb)
		if ka == "param#1.Badge.ProjectSig,param#3.Provider" && kb == "param#1.Badge.ProjectSig,param#2" {
			c.OK("C18c/record-key/check=update", c.P.Pos(hb.Pos()), "both: BadgeUsedCuKey(badge.ProjectSig, provider)")
		} else {
			c.Fail("C18c/record-key/check=update", c.P.Pos(hb.Pos()), "checkBadge reads the record under ("+ka+") but handleBadgeCu updates ("+kb+")")
		}
		c.RequireAllParamsUsed("C18c", "x/pairing/types.BadgeUsedCuKey")
		okAdd := false
		ir.EachInstr(hb, func(in ssa.Instruction) {
			if st, ok := in.(*ssa.Store); ok {
				if fa, ok := st.Addr.(*ssa.FieldAddr); ok && ir.FieldKey(fa) == "x/pairing/types.BadgeUsedCu.UsedCu" {
					d := ir.Desc(st.Val)
					if strings.Contains(d, " + param#3)") || strings.HasPrefix(d, "(param#3 + ") {
						okAdd = true
					} else if d != "const(0)" {
						c.Fail("C18c/handleBadgeCu/UsedCu+=cu", c.P.InstrPos(in), "UsedCu assigned "+d)
					}
				}
			}
		})
		if okAdd {
			c.OK("C18c/handleBadgeCu/UsedCu+=cu", c.P.Pos(hb.Pos()), "UsedCu += relayCuSum parameter")
		} else {
			c.Fail("C18c/handleBadgeCu/UsedCu+=cu", c.P.Pos(hb.Pos()), "the usage record is not increased by the relay's CU")
		}
		if r := c.MustPass(hb, nil, IsCallTo(pk+"Keeper.SetBadgeUsedCu"), nil); r.OK {
			c.OK("C18c/handleBadgeCu/must-pass=SetBadgeUsedCu", c.P.Pos(hb.Pos()), "all paths")
		} else {
			c.Fail("C18c/handleBadgeCu/must-pass=SetBadgeUsedCu", c.P.Pos(hb.Pos()), r.Witness)
		}
		timers := c.CallsByName(hb, false, "x/timerstore/types.TimerStore.AddTimerByBlockHeight")
		if len(timers) != 1 {
			c.Fail("C18c/handleBadgeCu/new-record-gets-timer", c.P.Pos(hb.Pos()), "expected one AddTimerByBlockHeight")
		} else {
			c.RequireGuards("C18c", timers, "AddTimer", CallIs(false, pk+"Keeper.GetBadgeUsedCu"), Cmp("expiry-set", "param#4", "!=", "const(0)"))
			// conversely: a record that does not exist yet is never stored without the timer when an expiry was supplied
			ta := argDescs(ir.CallOf(timers[0].Instr))
			if ta[2] == "param#4" && strings.Contains(ta[3], "BadgeUsedCuKey") {
				c.OK("C18c/handleBadgeCu/timer=(expiry,record-key)", c.P.InstrPos(timers[0].Instr), ta[2]+","+trunc(ta[3], 80))
			} else {
				c.Fail("C18c/handleBadgeCu/timer=(expiry,record-key)", c.P.InstrPos(timers[0].Instr), strings.Join(ta, ","))
			}
		}

		c.Rule("C18d who-may-write: SetBadgeUsedCu only from handleBadgeCu and genesis; RemoveBadgeUsedCu only from the badge timer callback; handleBadgeCu only from RelayPayment under badgeFound (C05)")
		c.RequireCallers("C18d", pk+"Keeper.SetBadgeUsedCu", pk+"Keeper.handleBadgeCu", "x/pairing.InitGenesis", pk+"Keeper.InitGenesis")
		c.RequireCallers("C18d", pk+"Keeper.RemoveBadgeUsedCu", pk+"NewKeeper")
		c.RequireCallers("C18d", pk+"Keeper.handleBadgeCu", pk+"msgServer.RelayPayment")
		c.RequireCallers("C18d", pk+"Keeper.checkBadge", pk+"msgServer.RelayPayment")
		c.Rule("C18e the checked badge is the recorded badge: an entry of the (badge user, epoch) → BadgeData map is written only on the not-found outcome of a lookup of the same key and past a successful ExtractSignerAddress, and its Badge field and the badge whose signer was extracted are the same relay.Badge")
		nbd := 0
		for _, f := range c.P.AllFuncs {
			if !inProd(f) || !strings.HasPrefix(ir.FuncName(f), pk) {
				continue
			}
			ir.EachInstr(f, func(in ssa.Instruction) {
				mu, ok := in.(*ssa.MapUpdate)
				if !ok || !strings.HasSuffix(ir.TypeName(mu.Value.Type()), "BadgeData") {
					return
				}
				nbd++
				key := "C18e/" + ir.FuncName(f) + "/badge-map-entry=first-checked-badge"
				first := false
				for _, g := range ir.Guards(mu) {
					v, edge := stripNot(g.If.Cond, g.Edge)
					if ex, isEx := v.(*ssa.Extract); isEx && ex.Index == 1 && !edge {
						if lk, isLk := ex.Tuple.(*ssa.Lookup); isLk && lk.CommaOk && lk.X == mu.Map && (lk.Index == mu.Key || ir.DescN(lk.Index, 12) == ir.DescN(mu.Key, 12)) {
							first = true
						}
					}
				}
				checked := ir.HasFact(ir.GuardFacts(mu), "call(utils/sigs.ExtractSignerAddress)(", "#1 == nil)")
				flds := structFieldStores(allocOf(mu.Value))
				same := false
				if b, okB := flds["Badge"]; okB {
					if s, okS := flds["BadgeSigner"]; okS {
						// Badge: *P ; BadgeSigner: ExtractSignerAddress(*P)#0
						bd := ir.Desc(b)
						sd := ir.Desc(s)
						if strings.HasPrefix(sd, "call(utils/sigs.ExtractSignerAddress)(") && strings.Contains(sd, bd) {
							same = true
						}
					}
				}
				if first && checked && same {
					c.OK(key, c.P.InstrPos(mu), "written once per (user, epoch), for the badge whose signature was checked")
				} else {
					c.Fail(key, c.P.InstrPos(mu), "the recorded badge can differ from the badge whose signer was recovered (first-seen="+boolStr(first)+" signer-checked="+boolStr(checked)+" same-badge="+boolStr(same)+"): a later, unsigned badge with a larger allocation is paid under the first badge's signature")
				}
			})
		}
		if nbd == 0 {
			c.Undecided("C18e: no write to the badge data map found")
		}
		c.NotCovered("the sum of credited CU over histories; badge signature cryptography")
	})
}
