package rules

import (
	"strings"

	"golang.org/x/tools/go/ssa"

	"lavaverif/checker/ir"
)

const exl = "protocol/chainlib/extensionslib."

func init() {
	register("C32", "other", func(c *Ctx) {
		c.Explain = "Archive routing follows the configured block rule — structural part: the decision table of ArchiveParserRule.isPassingRule is the one the property states (negative earliest block: archive exactly for EARLIEST; latest unknown: archive; otherwise archive exactly past `earliest < latest - rule` which is evaluated only where latest > rule, so it cannot wrap); the eth_call special case in JSON-RPC parsing adds archive only for eth_call with `block < latest - 126`, and that subtraction must be protected against latest < 126; the rule is consulted only when the request carries no extension override, and its positive outcome is what sets the extension."
		ipr := c.Fn(exl + "ArchiveParserRule.isPassingRule")
		pm := c.Fn(cl + "JsonRPCChainParser.ParseMsg")
		ep := c.Fn(cl + "BaseChainParser.ExtensionParsing")
		xp := c.Fn(exl + "ExtensionParser.ExtensionParsing")
		if ipr == nil || pm == nil || ep == nil || xp == nil {
			return
		}
		const earliest = "invoke(protocol/chainlib/extensionslib.ExtensionsChainMessage.RequestedBlock)(param#0)#1"

		c.Rule("C32a no wrap: every unsigned subtraction in isPassingRule (latest - rule distance) and in JsonRPCChainParser.ParseMsg (latest - 126) is dominated by a comparison establishing subtrahend <= minuend (E5)")
		c.RequireNoUnsignedWrap("C32a", exl+"ArchiveParserRule.isPassingRule", 1)
		c.RequireNoUnsignedWrap("C32a", cl+"JsonRPCChainParser.ParseMsg", 1)

		c.Rule("C32b decision table of isPassingRule: `return true` only under (earliest >= 0 ∧ latest == 0) or (earliest >= 0 ∧ latest != 0 ∧ rule != nil ∧ rule.Block != 0 ∧ rule.Block < latest ∧ uint64(earliest) < latest - rule.Block); the only non-constant return is `earliest == EARLIEST_BLOCK` under earliest < 0; a `return false` is either under latest <= uint64(earliest), under latest <= rule.Block, or unreachable from the true outcome of the threshold comparison and of latest == 0")
		var trues, falses, others []Site
		for _, r := range c.AllReturns(ipr) {
			ret := r.Instr.(*ssa.Return)
			if len(ret.Results) != 1 {
				continue
			}
			switch ir.Desc(ret.Results[0]) {
			case "const(true)":
				trues = append(trues, r)
			case "const(false)":
				falses = append(falses, r)
			default:
				others = append(others, r)
			}
		}
		if len(trues) < 2 || len(falses) < 1 || len(others) < 1 {
			c.Undecided("C32b: isPassingRule has %d true / %d false / %d computed returns; expected >=2 / >=1 / >=1", len(trues), len(falses), len(others))
		}
		thresholdFact := "(conv<uint64>(" + earliest + ") < (param#1 - recv.extension.Rule.Block))"
		for _, r := range trues {
			facts := ir.GuardFacts(r.Instr)
			key := "C32b/isPassingRule/return-true@"
			switch {
			case ir.HasFact(facts, "(param#1 == const(0))"):
				if ir.HasFact(facts, "(const(0) <= "+earliest+")") {
					c.OK(key+"latest-unknown", c.P.InstrPos(r.Instr), "specific block and latest block unknown")
				} else {
					c.Fail(key+"latest-unknown", c.P.InstrPos(r.Instr), "archive is chosen for latest==0 without knowing the request names a specific block")
				}
			case ir.HasFact(facts, thresholdFact):
				missing := []string{}
				for _, need := range []string{"(const(0) <= " + earliest + ")", "(param#1 != const(0))", "(recv.extension.Rule != nil)", "(recv.extension.Rule.Block != const(0))", "(recv.extension.Rule.Block < param#1)"} {
					if !ir.HasFact(facts, need) {
						missing = append(missing, need)
					}
				}
				if len(missing) == 0 {
					c.OK(key+"older-than-rule-distance", c.P.InstrPos(r.Instr), "earliest < latest - rule.Block with latest > rule.Block")
				} else {
					c.Fail(key+"older-than-rule-distance", c.P.InstrPos(r.Instr), "archive is chosen without "+strings.Join(missing, ", "))
				}
			default:
				c.Fail(key+"other", c.P.InstrPos(r.Instr), "isPassingRule returns true under conditions the property does not list: "+trunc(strings.Join(facts, " ∧ "), 200))
			}
		}
		for _, r := range others {
			ret := r.Instr.(*ssa.Return)
			d := ir.Desc(ret.Results[0])
			key := "C32b/isPassingRule/negative-block-archive-iff-EARLIEST"
			if d == "("+earliest+" == const(-3))" && ir.HasFact(ir.GuardFacts(ret), "("+earliest+" < const(0))") {
				c.OK(key, c.P.InstrPos(ret), "latest/pending/safe/finalized/not-applicable are never archive; earliest always is")
			} else {
				c.Fail(key, c.P.InstrPos(ret), "for tag blocks the rule returns "+trunc(d, 120)+" instead of (earliest == EARLIEST_BLOCK) under earliest < 0")
			}
		}
		var thr, unk []IfEdge
		thr = c.IfsMatching(ipr, FactHas("threshold", thresholdFact))
		unk = c.IfsMatching(ipr, FactHas("latest-unknown", "(param#1 == const(0))"))
		if len(thr) != 1 || len(unk) != 1 {
			c.Undecided("C32b: expected one threshold comparison and one latest==0 test in isPassingRule, found %d and %d", len(thr), len(unk))
		} else {
			for i, f := range falses {
				facts := ir.GuardFacts(f.Instr)
				key := "C32b/isPassingRule/return-false#" + itoa(i)
				if ir.HasFact(facts, "(param#1 <= conv<uint64>("+earliest+"))") {
					c.OK(key, c.P.InstrPos(f.Instr), "requested block is not behind the latest block")
					continue
				}
				if ir.HasFact(facts, "(param#1 <= recv.extension.Rule.Block)") {
					c.OK(key, c.P.InstrPos(f.Instr), "chain younger than the rule distance: nothing is old enough")
					continue
				}
				ok1, _ := c.EdgeCannotReach(thr[0], []Site{f})
				ok2, _ := c.EdgeCannotReach(unk[0], []Site{f})
				if ok1 && ok2 && ir.HasFact(facts, "(const(0) <= "+earliest+")") {
					c.OK(key, c.P.InstrPos(f.Instr), "not reachable once earliest < latest - rule.Block or latest == 0 held")
				} else {
					c.Fail(key, c.P.InstrPos(f.Instr), "a `return false` can be reached although the request is older than the rule distance (or latest is unknown)")
				}
			}
		}

		c.Rule("C32c eth_call: JsonRPCChainParser.ParseMsg adds the archive extension to AdditionalExtensions only under method == \"eth_call\" ∧ uint64(parsed block) < latest - 126, and adds ArchiveExtension, nothing else")
		var adds []Site
		ir.EachInstr(pm, func(in ssa.Instruction) {
			if st, ok := in.(*ssa.Store); ok {
				if fa, ok := st.Addr.(*ssa.FieldAddr); ok && ir.FieldKey(fa) == exl+"ExtensionInfo.AdditionalExtensions" {
					adds = append(adds, Site{Fn: pm, Instr: st})
				}
			}
		})
		if len(adds) != 1 {
			c.Undecided("C32c: expected one store to ExtensionInfo.AdditionalExtensions in JsonRPCChainParser.ParseMsg, found %d", len(adds))
		}
		// the threshold test may live in a helper predicate(parsedBlock, latestBlock): then the helper is held to
		// the same obligations (no unsigned wrap; true only past a comparison with the 126 window)
		helperOK := func(g ir.Guard) bool {
			v, edge := stripNot(g.If.Cond, g.Edge)
			call, _ := callOfValue(v)
			if call == nil || !edge {
				return false
			}
			h := call.Call.StaticCallee()
			if h == nil || !inProd(h) || len(h.Blocks) == 0 {
				return false
			}
			hasBlock, hasLatest := false, false
			for _, a := range call.Call.Args {
				d := ir.Desc(a)
				if strings.Contains(d, "call(protocol/parser.ParsedInput.GetBlock)(") {
					hasBlock = true
				}
				if strings.HasSuffix(d, ".LatestBlock") {
					hasLatest = true
				}
			}
			if !hasBlock || !hasLatest {
				return false
			}
			c.RequireNoUnsignedWrap("C32a", ir.FuncName(h), 0)
			okTrue := false
			for _, r := range c.AllReturns(h) {
				ret := r.Instr.(*ssa.Return)
				if len(ret.Results) != 1 {
					continue
				}
				d := ir.Desc(ret.Results[0])
				if d == "const(false)" {
					continue
				}
				if strings.Contains(d, "const(126)") || ir.HasFact(ir.GuardFacts(ret), "const(126)") || strings.Contains(d, c.Const("protocol/chainlib", "ethCallStateWindow")) && c.Const("protocol/chainlib", "ethCallStateWindow") != "" {
					okTrue = true
				} else {
					c.Fail("C32c/"+ir.FuncName(h)+"/true-only-past-126-window", c.P.InstrPos(ret), "the eth_call window predicate can answer true without comparing against the 126-block window: "+trunc(d, 100))
				}
			}
			return okTrue
		}
		older := FactHas("older-than-126", "(conv<uint64>(call(protocol/parser.ParsedInput.GetBlock)(", ".LatestBlock - const(126)))")
		directOlder := older.Match
		older.Match = func(g ir.Guard) bool { return directOlder(g) || helperOK(g) }
		c.RequireGuards("C32c", adds, "add-archive",
			FactHas("eth_call", ".Method == const(\"eth_call\"))"),
			older)
		for _, a := range adds {
			d := ir.Desc(a.Instr.(*ssa.Store).Val)
			// appended elements: stores into the literal array behind the appended slice
			var elems []string
			if call, ok := a.Instr.(*ssa.Store).Val.(*ssa.Call); ok && ir.CalleeName(&call.Call) == "builtin:append" && len(call.Call.Args) == 2 {
				if sl, ok := call.Call.Args[1].(*ssa.Slice); ok {
					if arr, ok := sl.X.(*ssa.Alloc); ok && arr.Referrers() != nil {
						for _, r := range *arr.Referrers() {
							if ia, ok := r.(*ssa.IndexAddr); ok {
								walkStores(ia, func(v ssa.Value) { elems = append(elems, ir.Desc(v)) })
							}
						}
					}
				}
			}
			if len(elems) == 1 && elems[0] == "const(\"archive\")" {
				c.OK("C32c/ParseMsg/adds=archive", c.P.InstrPos(a.Instr), "ArchiveExtension")
			} else {
				c.Fail("C32c/ParseMsg/adds=archive", c.P.InstrPos(a.Instr), "the extension added is "+trunc(d, 120))
			}
		}

		c.Rule("C32d wiring: BaseChainParser.ExtensionParsing consults the rules (extensionParsingInner) only when ExtensionOverride == nil, with the caller's LatestBlock; ExtensionParser.ExtensionParsing sets an extension only past isPassingRule == true for a configured extension of the request's add-on; NewExtensionParserRule maps \"archive\" to ArchiveParserRule")
		c.RequireGuards("C32d", c.CallsByName(ep, false, cl+"BaseChainParser.extensionParsingInner"), "consult-rules", FactHas("no-override", "(param#2.ExtensionOverride == nil)"))
		for _, s := range c.CallsByName(ep, false, cl+"BaseChainParser.extensionParsingInner") {
			call := ir.CallOf(s.Instr)
			if d := ir.Desc(call.Args[len(call.Args)-1]); d == "param#2.LatestBlock" {
				c.OK("C32d/ExtensionParsing/latest=extensionInfo.LatestBlock", c.P.InstrPos(s.Instr), d)
			} else {
				c.Fail("C32d/ExtensionParsing/latest=extensionInfo.LatestBlock", c.P.InstrPos(s.Instr), "rules are consulted with "+trunc(d, 80)+" as latest block")
			}
		}
		c.RequireGuards("C32d", c.CallsByName(xp, false, "invoke:"+exl+"ExtensionsChainMessage.SetExtension"), "set-extension",
			FactPrefix("rule-passes", "invoke("+exl+"ExtensionParserRule.isPassingRule)(call("+exl+"NewExtensionParserRule)(", "param#1,param#2)"),
			FactHas("same-addon", ".Addon == param#0)"))
		if nr := c.Fn(exl + "NewExtensionParserRule"); nr != nil {
			ok := false
			for _, r := range c.AllReturns(nr) {
				ret := r.Instr.(*ssa.Return)
				if strings.Contains(ir.Desc(ret.Results[0]), "ArchiveParserRule") && ir.HasFact(ir.GuardFacts(ret), "param#0.Name == const(\"archive\")") {
					ok = true
				}
			}
			if ok {
				c.OK("C32d/NewExtensionParserRule/archive->ArchiveParserRule", c.P.Pos(nr.Pos()), "")
			} else {
				c.Fail("C32d/NewExtensionParserRule/archive->ArchiveParserRule", c.P.Pos(nr.Pos()), "the archive extension is no longer mapped to ArchiveParserRule under Name == \"archive\"")
			}
		}
		c.Rule("C32e the oldest block of a batch reaches the decision: the archive rule reads the message's earliest requested block, which for a batch is the fold of the members' blocks in ParseMsg — every member (the first one included) enters both accumulators (same fold rule as C31b, which additionally decides whether an initial value seen by the combiner is neutral; stated here because a batch whose oldest block is lost is decided on the newest one)")
		c.batchAccumulators(cl+"JsonRPCChainParser.ParseMsg", nil, "C32e")
		c.batchAccumulators(cl+"TendermintChainParser.ParseMsg", nil, "C32e")
		c.NotCovered("numeric truth of the table for concrete values; what RequestedBlock returns for a given message (C31 for batches); spec contents (whether an add-on defines the archive extension)")
	})
}
