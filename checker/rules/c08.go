package rules

import (
	"strings"

	"golang.org/x/tools/go/ssa"

	"lavaverif/checker/ir"
)

const dsK = "x/dualstaking/keeper.Keeper."

const (
	coinsT   = "github.com/cosmos/cosmos-sdk/types.Coins."
	newCoins = "call(github.com/cosmos/cosmos-sdk/types.NewCoins)(nil)"
)

// unconv: look through type changes (Coins <-> []Coin at variadic call sites).
func unconv(v ssa.Value) ssa.Value {
	for {
		switch x := v.(type) {
		case *ssa.ChangeType:
			v = x.X
		case *ssa.Convert:
			v = x.X
		default:
			return v
		}
	}
}

// phiLeaves: the values merged by v (v itself when it is not a phi).
func phiLeaves(v ssa.Value) []ssa.Value {
	seen := map[ssa.Value]bool{}
	var out []ssa.Value
	var walk func(ssa.Value)
	walk = func(x ssa.Value) {
		if seen[x] {
			return
		}
		seen[x] = true
		if p, ok := x.(*ssa.Phi); ok {
			for _, e := range p.Edges {
				walk(e)
			}
			return
		}
		out = append(out, x)
	}
	walk(v)
	return out
}

func init() {
	register("C08", "other", func(c *Ctx) {
		c.Explain = "Reward splits conserve value and follow credit and commission — structural part (expression shape): the delegators' pool is defined as the total minus the provider's part, the provider's final part is its share plus what the delegators' integer divisions left over, and the contributors' part is subtracted before the split, so the parts add up to the distributed amount by construction; each delegator's part is pool·credit/totalCredit; the provider's part is total·self/(self+delegated) plus commission% of the delegators' raw share, and the whole reward at commission 100; the credit used is the time-weighted monthly credit; contributors are paid the per-head floor of an amount that was made a multiple of the head count."
		cr := c.Fn(dsK + "CalcRewards")
		cdr := c.Fn(dsK + "CalcDelegatorReward")
		udr := c.Fn(dsK + "updateDelegatorsReward")
		rpd := c.Fn(dsK + "RewardProvidersAndDelegators")
		pc := c.Fn(dsK + "PayContributors")
		if cr == nil || cdr == nil || udr == nil || rpd == nil || pc == nil {
			return
		}
		const D = 14
		sum := "call(cosmossdk.io/math.Int.Add)(param#2,param#3.Amount.Amount)"
		base := "call(" + coinsT + "QuoInt)(call(" + coinsT + "MulInt)(param#1,param#3.Amount.Amount)," + sum + ")"
		raw := "call(" + coinsT + "QuoInt)(call(" + coinsT + "MulInt)(param#1,param#2)," + sum + ")"
		comm := "call(" + coinsT + "QuoInt)(call(" + coinsT + "MulInt)(" + raw + ",call(dyn:global(github.com/cosmos/cosmos-sdk/types.NewIntFromUint64))(param#4)),call(dyn:global(github.com/cosmos/cosmos-sdk/types.NewInt))(const(100)))"
		commAlt := strings.ReplaceAll(strings.ReplaceAll(comm, "call(dyn:global(github.com/cosmos/cosmos-sdk/types.NewIntFromUint64))", "call(cosmossdk.io/math.NewIntFromUint64)"), "call(dyn:global(github.com/cosmos/cosmos-sdk/types.NewInt))", "call(cosmossdk.io/math.NewInt)")

		c.Rule("C08a CalcRewards: at commission 100 it returns (total, zero); otherwise the delegators' pool is total.Sub(provider part) of the very value it returns as the provider part; the provider part is total·self/(delegated+self), plus (total·delegated/(delegated+self))·commission/100 exactly when there are delegations and a non-zero commission")
		nret := 0
		found100 := false
		for _, r := range c.AllReturns(cr) {
			ret := r.Instr.(*ssa.Return)
			facts := ir.GuardFacts(ret)
			p, d := RetVal(ret, 0), RetVal(ret, 1)
			switch {
			case ir.HasFact(facts, "call(cosmossdk.io/math.Int.IsZero)("+sum+")") && !ir.HasFact(facts, "!call(cosmossdk.io/math.Int.IsZero)("+sum+")"):
				// no stake at all: nothing to split
			case ir.HasFact(facts, "(param#4 == const(100))"):
				nret++
				found100 = true
				if ir.Desc(p) == "param#1" && ir.Desc(d) == newCoins {
					c.OK("C08a/CalcRewards/commission-100=>provider-gets-all", c.P.InstrPos(ret), "")
				} else {
					c.Fail("C08a/CalcRewards/commission-100=>provider-gets-all", c.P.InstrPos(ret), "at 100% commission returns ("+trunc(ir.Desc(p), 60)+", "+trunc(ir.Desc(d), 60)+")")
				}
			default:
				nret++
				call, _ := callOfValue(d)
				if call != nil && ir.CalleeName(&call.Call) == coinsT+"Sub" && ir.Desc(call.Call.Args[0]) == "param#1" && unconv(call.Call.Args[1]) == unconv(p) {
					c.OK("C08a/CalcRewards/delegators-pool=total−provider-part", c.P.InstrPos(ret), "complement of the returned provider part: the two add up to the total")
				} else {
					c.Fail("C08a/CalcRewards/delegators-pool=total−provider-part", c.P.InstrPos(ret), "the delegators' pool is "+trunc(ir.DescN(d, 8), 140)+", not total.Sub(provider part): rounding can create or destroy coins")
				}
				leaves := phiLeaves(p)
				okBase, okComm := false, false
				for _, lf := range leaves {
					s := ir.DescN(lf, D)
					switch {
					case s == base:
						okBase = true
					case s == "call("+coinsT+"Add)("+base+","+comm+")" || s == "call("+coinsT+"Add)("+base+","+commAlt+")":
						okComm = true
						// commission applies only with delegations and commission != 0
						if in, isIn := lf.(ssa.Instruction); isIn {
							f := ir.GuardFacts(in)
							if !(ir.HasFact(f, "!call(cosmossdk.io/math.Int.IsZero)(param#2)") && ir.HasFact(f, "(param#4 != const(0))")) {
								okComm = false
							}
						}
					default:
						c.Fail("C08a/CalcRewards/provider-part-shape", c.P.InstrPos(ret), "unexpected provider part "+trunc(s, 260))
					}
				}
				if okBase && okComm && len(leaves) == 2 {
					c.OK("C08a/CalcRewards/provider-part=own-share+commission-on-raw-delegators-share", c.P.InstrPos(ret), "")
				} else {
					c.Fail("C08a/CalcRewards/provider-part=own-share+commission-on-raw-delegators-share", c.P.InstrPos(ret), "the provider part is no longer total·self/(self+delegated) [+ (total·delegated/(self+delegated))·commission/100]")
				}
			}
		}
		if !found100 {
			c.Fail("C08a/CalcRewards/commission-100=>provider-gets-all", c.P.Pos(cr.Pos()), "no return under commission == 100: at full commission the general formula's two integer divisions can leave a remainder to the delegators, so the provider does not get exactly the whole reward")
		} else if nret != 2 {
			c.Undecided("C08a: expected two splitting returns in CalcRewards, found %d", nret)
		}

		c.Rule("C08b delegators: CalcDelegatorReward is pool·credit/totalCredit; updateDelegatorsReward accumulates exactly each computed delegator reward, credits the same value, and returns pool.Sub(accumulated)")
		okShare := false
		for _, r := range c.AllReturns(cdr) {
			if ir.DescN(r.Instr.(*ssa.Return).Results[0], D) == "call("+coinsT+"QuoInt)(call("+coinsT+"MulInt)(param#1,param#3.Amount.Amount),param#2)" {
				okShare = true
			}
		}
		if okShare {
			c.OK("C08b/CalcDelegatorReward/share=pool·credit/total", c.P.Pos(cdr.Pos()), "integer division: rounded down")
		} else {
			c.Fail("C08b/CalcDelegatorReward/share=pool·credit/total", c.P.Pos(cdr.Pos()), "a delegator's reward is not pool.MulInt(credit).QuoInt(totalCredit)")
		}
		for _, r := range c.AllReturns(udr) {
			ret := r.Instr.(*ssa.Return)
			if ret.Block() == udr.Recover {
				continue
			}
			v := RetVal(ret, 0)
			call, _ := callOfValue(v)
			ok := false
			if call != nil && ir.CalleeName(&call.Call) == coinsT+"Sub" && ir.Desc(call.Call.Args[0]) == "param#3" {
				// the subtrahend: loop accumulator used = used.Add(CalcDelegatorReward(...))
				for _, lf := range phiLeaves(unconv(call.Call.Args[1])) {
					if add, _ := callOfValue(lf); add != nil && ir.CalleeName(&add.Call) == coinsT+"Add" {
						if one, _ := callOfValue(unconv(add.Call.Args[1])); one != nil && ir.CalleeName(&one.Call) == dsK+"CalcDelegatorReward" &&
							ir.Desc(one.Call.Args[2]) == "param#3" && ir.Desc(one.Call.Args[3]) == "param#1" {
							ok = true
							// the credited amount is the same value
							for _, s := range c.CallsByName(udr, false, dsK+"rewardDelegator") {
								if ir.CallOf(s.Instr).Args[3] != ssa.Value(one) {
									ok = false
								}
							}
						}
					}
				}
			}
			if ok {
				c.OK("C08b/updateDelegatorsReward/leftover=pool−Σ(credited)", c.P.InstrPos(ret), "what integer division leaves goes back to the caller (the provider)")
			} else {
				c.Fail("C08b/updateDelegatorsReward/leftover=pool−Σ(credited)", c.P.InstrPos(ret), "the leftover is not the pool minus exactly the amounts credited to delegators: "+trunc(ir.DescN(v, 8), 160))
			}
		}

		c.Rule("C08c assembly: RewardProvidersAndDelegators splits total.Sub(contributors' part) with the provider's commission; it passes one totalCredit value to CalcRewards and updateDelegatorsReward and CalcRewards' pool to updateDelegatorsReward; the provider is credited, and the function returns, provider part + leftover; the credit of every delegation is CalculateMonthlyCredit and the total is the sum over exactly the delegations handed on")
		crs := c.CallsIn(rpd, cr, false)
		uds := c.CallsIn(rpd, udr, false)
		if len(crs) != 1 || len(uds) != 1 {
			c.Undecided("C08c: expected one CalcRewards and one updateDelegatorsReward call in RewardProvidersAndDelegators, found %d and %d", len(crs), len(uds))
		} else {
			crc, udc := crs[0].Instr.(*ssa.Call), uds[0].Instr.(*ssa.Call)
			tot := crc.Call.Args[2]
			sub, _ := callOfValue(tot)
			contrib := ssa.Value(nil)
			if sub != nil && ir.CalleeName(&sub.Call) == coinsT+"Sub" && ir.Desc(sub.Call.Args[0]) == "param#3" {
				contrib = unconv(sub.Call.Args[1])
				c.OK("C08c/RewardProvidersAndDelegators/splits=total−contributors", c.P.InstrPos(crc), "")
			} else {
				c.Fail("C08c/RewardProvidersAndDelegators/splits=total−contributors", c.P.InstrPos(crc), "CalcRewards is given "+trunc(ir.DescN(tot, 8), 120))
			}
			if strings.HasSuffix(ir.Desc(crc.Call.Args[5]), ".DelegateCommission") {
				c.OK("C08c/RewardProvidersAndDelegators/commission=provider-metadata", c.P.InstrPos(crc), "")
			} else {
				c.Fail("C08c/RewardProvidersAndDelegators/commission=provider-metadata", c.P.InstrPos(crc), "commission argument is "+trunc(ir.Desc(crc.Call.Args[5]), 80))
			}
			var pool, prov *ssa.Extract
			if crc.Referrers() != nil {
				for _, r := range *crc.Referrers() {
					if e, ok := r.(*ssa.Extract); ok {
						if e.Index == 0 {
							prov = e
						} else if e.Index == 1 {
							pool = e
						}
					}
				}
			}
			if udc.Call.Args[2] == crc.Call.Args[3] && pool != nil && udc.Call.Args[4] == ssa.Value(pool) {
				c.OK("C08c/RewardProvidersAndDelegators/same-total-credit-and-pool", c.P.InstrPos(udc), "")
			} else {
				c.Fail("C08c/RewardProvidersAndDelegators/same-total-credit-and-pool", c.P.InstrPos(udc), "updateDelegatorsReward does not receive CalcRewards' pool and the total credit CalcRewards was given")
			}
			// full provider reward
			var full ssa.Value
			for _, r := range c.SuccessReturns(rpd) {
				full = RetVal(r.Instr.(*ssa.Return), 0)
			}
			add, _ := callOfValue(full)
			if add != nil && ir.CalleeName(&add.Call) == coinsT+"Add" && prov != nil && add.Call.Args[0] == ssa.Value(prov) && unconv(add.Call.Args[1]) == ssa.Value(udc) {
				c.OK("C08c/RewardProvidersAndDelegators/provider=part+leftover", c.P.InstrPos(udc), "")
				okCredit := false
				for _, s := range c.CallsByName(rpd, false, dsK+"rewardDelegator") {
					if ir.CallOf(s.Instr).Args[3] == full {
						okCredit = true
					}
				}
				if okCredit {
					c.OK("C08c/RewardProvidersAndDelegators/provider-credited-that-amount", c.P.InstrPos(udc), "")
				} else {
					c.Fail("C08c/RewardProvidersAndDelegators/provider-credited-that-amount", c.P.InstrPos(udc), "the amount credited to the provider differs from provider part + leftover")
				}
			} else {
				c.Fail("C08c/RewardProvidersAndDelegators/provider=part+leftover", c.P.InstrPos(udc), "the provider's final part is "+trunc(ir.DescN(full, 8), 140)+": the delegators' rounding remainder is lost")
			}
			// contributors' part: floor per head times heads
			if contrib != nil {
				okC := false
				for _, lf := range phiLeaves(contrib) {
					s := ir.DescN(lf, D)
					if strings.HasPrefix(s, "call("+coinsT+"MulInt)(call("+coinsT+"QuoInt)(") && strings.Count(s, "call(dyn:global(github.com/cosmos/cosmos-sdk/types.NewInt))(conv<int64>(call(builtin:len)(") >= 2 {
						okC = true
					} else if s != newCoins {
						c.Fail("C08c/RewardProvidersAndDelegators/contributors-part-multiple-of-heads", c.P.InstrPos(crc), "contributors' part is "+trunc(s, 200))
					}
				}
				if okC {
					c.OK("C08c/RewardProvidersAndDelegators/contributors-part-multiple-of-heads", c.P.InstrPos(crc), "QuoInt(n).MulInt(n): PayContributors leaves no remainder")
				}
			}
		}
		// credits
		ncred := 0
		ir.EachInstr(rpd, func(in ssa.Instruction) {
			st, ok := in.(*ssa.Store)
			if !ok {
				return
			}
			fa, ok := st.Addr.(*ssa.FieldAddr)
			if !ok || ir.FieldKey(fa) != "x/dualstaking/types.Delegation.Amount" {
				return
			}
			ncred++
			if strings.HasPrefix(ir.Desc(st.Val), "call("+dsK+"CalculateMonthlyCredit)(") {
				c.OK("C08c/RewardProvidersAndDelegators/credit=CalculateMonthlyCredit#"+itoa(ncred), c.P.InstrPos(st), "")
			} else {
				c.Fail("C08c/RewardProvidersAndDelegators/credit=CalculateMonthlyCredit#"+itoa(ncred), c.P.InstrPos(st), "weight used is "+trunc(ir.Desc(st.Val), 100))
			}
		})
		if ncred != 2 {
			c.Undecided("C08c: expected two credit assignments in RewardProvidersAndDelegators, found %d", ncred)
		}
		// total credit accumulates in the block that appends the delegation
		okAcc := false
		ir.EachInstr(rpd, func(in ssa.Instruction) {
			call := ir.CallOf(in)
			if call == nil || ir.CalleeName(call) != "cosmossdk.io/math.Int.Add" {
				return
			}
			for _, in2 := range in.Block().Instrs {
				if c2 := ir.CallOf(in2); c2 != nil && ir.CalleeName(c2) == "builtin:append" && strings.Contains(ir.TypeName(c2.Args[0].Type()), "Delegation") {
					okAcc = true
				}
			}
		})
		if okAcc {
			c.OK("C08c/RewardProvidersAndDelegators/total-credit=Σ-of-delegations-handed-on", c.P.Pos(rpd.Pos()), "accumulated next to the append")
		} else {
			c.Fail("C08c/RewardProvidersAndDelegators/total-credit=Σ-of-delegations-handed-on", c.P.Pos(rpd.Pos()), "the total credit is not accumulated together with the list of delegations that are paid")
		}

		c.Rule("C08d contributors: PayContributors sends each address contributorReward.QuoInt(number of addresses)")
		okPC := false
		for _, s := range c.CallsByName(pc, false, "invoke:x/dualstaking/types.BankKeeper.SendCoinsFromModuleToAccount") {
			amt := ir.DescN(ir.CallOf(s.Instr).Args[3], D)
			if strings.HasPrefix(amt, "call("+coinsT+"QuoInt)(param#3,") && strings.Contains(amt, "call(builtin:len)(param#2)") && innermostLoop(pc, s.Instr.Block()) != nil {
				okPC = true
			}
		}
		if okPC {
			c.OK("C08d/PayContributors/equal-floor-share-to-each", c.P.Pos(pc.Pos()), "")
		} else {
			c.Fail("C08d/PayContributors/equal-floor-share-to-each", c.P.Pos(pc.Pos()), "contributors are not each sent reward.QuoInt(len(addresses))")
		}
		c.NotCovered("non-negativity (Coins.Sub panics instead); the numeric identity for concrete values; CalculateMonthlyCredit's time weighting itself; zero-stake providers (nothing is split)")
	})
}
