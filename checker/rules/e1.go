package rules

import (
	"go/token"
	"go/types"
	"sort"
	"strings"

	"golang.org/x/tools/go/callgraph"
	"golang.org/x/tools/go/callgraph/cha"
	"golang.org/x/tools/go/ssa"

	"lavaverif/checker/ir"
)

// E1 — order determinism of consensus code.
//
// The consensus-reachable set is computed over the CHA call graph (sound for lava→lava
// edges; SDK→lava callbacks are the roots) from: every msgServer method, every module's
// BeginBlock/EndBlock/InitGenesis/ExportGenesis, AnteHandle methods, gov proposal
// handlers, the dualstaking staking hooks, keeper constructors (they hold the timer and
// fixation callbacks), and upgrade handlers. gRPC query servers, CLI and protocol/ are
// not roots.

var consensusCache struct {
	prog  *ir.Program
	reach map[*ssa.Function]string // function -> root that reaches it
}

func isConsensusRoot(fn *ssa.Function) bool {
	n := ir.FuncName(fn)
	if fn.Parent() != nil {
		return false
	}
	if !(strings.HasPrefix(n, "x/") || strings.HasPrefix(n, "app")) {
		return false
	}
	if strings.Contains(n, "/client/") || strings.Contains(n, "/simulation") || strings.HasPrefix(n, "x/") && strings.Contains(n, "/types.") && !strings.Contains(n, ".ValidateBasic") {
		// types packages are reached through calls; only message validation is a root there
		return false
	}
	short := n[strings.LastIndex(n, ".")+1:]
	switch {
	case strings.Contains(n, ".msgServer."):
		return true
	case strings.Contains(n, ".AppModule.") && (short == "BeginBlock" || short == "EndBlock" || short == "InitGenesis" || short == "ExportGenesis"):
		return true
	case short == "AnteHandle":
		return true
	case strings.Contains(n, ".Hooks.") && strings.HasPrefix(n, "x/dualstaking/keeper"):
		return true
	case strings.HasSuffix(short, "ProposalHandler") || strings.HasSuffix(short, "ProposalsHandler"):
		return true
	case short == "NewKeeper" && strings.HasPrefix(n, "x/"):
		return true
	case strings.HasPrefix(n, "app/upgrades"):
		return true
	case strings.Contains(n, ".Migrator."):
		return true
	case strings.Contains(n, ".ValidateBasic"):
		return true
	}
	return false
}

// ConsensusReachable returns the lava functions reachable from the consensus roots.
func (c *Ctx) ConsensusReachable() map[*ssa.Function]string {
	if consensusCache.prog == c.P && consensusCache.reach != nil {
		return consensusCache.reach
	}
	cg := cha.CallGraph(c.P.Prog)
	lava := map[*ssa.Function]bool{}
	for _, f := range c.P.AllFuncs {
		lava[f] = true
	}
	reach := map[*ssa.Function]string{}
	var roots []*ssa.Function
	for _, f := range c.P.AllFuncs {
		if isConsensusRoot(f) {
			roots = append(roots, f)
		}
	}
	sort.Slice(roots, func(i, j int) bool { return ir.FuncName(roots[i]) < ir.FuncName(roots[j]) })
	for _, r := range roots {
		work := []*ssa.Function{r}
		for len(work) > 0 {
			f := work[len(work)-1]
			work = work[:len(work)-1]
			if _, ok := reach[f]; ok {
				continue
			}
			reach[f] = ir.FuncName(r)
			// closures defined inside are reachable with their parent
			for _, a := range f.AnonFuncs {
				work = append(work, a)
			}
			node := cg.Nodes[f]
			if node == nil {
				continue
			}
			for _, e := range node.Out {
				callee := e.Callee.Func
				if !lava[callee] && !(callee.Origin() != nil && lava[callee.Origin()]) {
					continue
				}
				if !consensusScope(callee) {
					continue
				}
				work = append(work, callee)
			}
		}
	}
	consensusCache.prog = c.P
	consensusCache.reach = reach
	_ = callgraph.Node{}
	return reach
}

// consensusScope excludes code that cannot run inside block execution even though CHA
// connects it by signature: query servers, CLI, protocol daemons, test utilities.
func consensusScope(fn *ssa.Function) bool {
	n := topName(fn)
	switch {
	case strings.HasPrefix(n, "protocol/"), strings.HasPrefix(n, "ecosystem/"), strings.HasPrefix(n, "testutil/"), strings.HasPrefix(n, "cmd/"):
		return false
	case strings.Contains(n, "/client/"), strings.Contains(n, ".queryServer."), strings.Contains(n, "/simulation"):
		return false
	}
	if pos := fn.Pos(); pos.IsValid() && fn.Prog != nil {
		file := fn.Prog.Fset.Position(pos).Filename
		if strings.Contains(file, "grpc_query") || strings.HasSuffix(file, ".pb.go") || strings.HasSuffix(file, ".pb.gw.go") {
			return false
		}
	}
	return true
}

// MapRange describes one `for … range m` over a Go map.
type MapRange struct {
	Fn    *ssa.Function
	Range *ssa.Range
	Next  *ssa.Next
	Body  map[*ssa.BasicBlock]bool
	Hdr   *ssa.BasicBlock
}

func mapRanges(fn *ssa.Function) []*MapRange {
	var out []*MapRange
	ir.EachInstr(fn, func(in ssa.Instruction) {
		r, ok := in.(*ssa.Range)
		if !ok {
			return
		}
		if _, isMap := r.X.Type().Underlying().(*types.Map); !isMap {
			return
		}
		mr := &MapRange{Fn: fn, Range: r}
		if refs := r.Referrers(); refs != nil {
			for _, x := range *refs {
				if n, ok := x.(*ssa.Next); ok {
					mr.Next = n
				}
			}
		}
		if mr.Next == nil {
			return
		}
		mr.Hdr = mr.Next.Block()
		for _, l := range ir.NaturalLoops(fn) {
			if l.Header == mr.Hdr {
				mr.Body = l.Blocks
			}
		}
		if mr.Body == nil {
			mr.Body = map[*ssa.BasicBlock]bool{mr.Hdr: true}
		}
		out = append(out, mr)
	})
	return out
}

// bodyEffects lists the order-relevant effects of a map-range body in a compact form.
type rangeClass struct {
	Class  string // "keys-then-sort" | "set/map-build" | "commutative" | "search" | "delete" | "log-only" | "unknown"
	Detail string
}

func sortCallee(n string) bool {
	return strings.HasPrefix(n, "sort.") || strings.HasPrefix(n, "slices.Sort") || strings.HasPrefix(n, "golang.org/x/exp/slices.Sort") ||
		n == "utils/lavaslices.SortStable" || n == "utils/maps.StableSortedKeys" || strings.HasPrefix(n, "golang.org/x/exp/slices.BinarySearch")
}

// classifyRange recognises the accepted order-insensitive idioms.
func classifyRange(mr *MapRange) rangeClass {
	var appends []*ssa.Call
	var otherCalls []string
	stores, mapUpdates, returns := 0, 0, 0
	var unknown []string
	keyV, valV := ssa.Value(nil), ssa.Value(nil)
	if refs := mr.Next.Referrers(); refs != nil {
		for _, r := range *refs {
			if ex, ok := r.(*ssa.Extract); ok {
				switch ex.Index {
				case 1:
					keyV = ex
				case 2:
					valV = ex
				}
			}
		}
	}
	usesVal := valV != nil && valV.Referrers() != nil && len(*valV.Referrers()) > 0
	for b := range mr.Body {
		for _, in := range b.Instrs {
			switch x := in.(type) {
			case *ssa.Call:
				n := ir.CalleeName(&x.Call)
				switch {
				case n == "builtin:append":
					appends = append(appends, x)
				case n == "builtin:delete", n == "builtin:len":
				case strings.HasPrefix(n, "utils.LavaFormat"), strings.HasPrefix(n, "utils.LogAttr"), strings.HasPrefix(n, "fmt.Sprint"), strings.HasPrefix(n, "strconv."), strings.HasSuffix(n, ".String"):
				default:
					otherCalls = append(otherCalls, n)
				}
			case *ssa.Store:
				if _, isAlloc := x.Addr.(*ssa.Alloc); !isAlloc {
					stores++
				}
			case *ssa.MapUpdate:
				mapUpdates++
			case *ssa.Return:
				returns++
			case *ssa.Go, *ssa.Defer, *ssa.Send:
				unknown = append(unknown, "go/defer/send")
			}
		}
	}
	_ = keyV
	// keys-then-sort: the only effect is appending the key; the slice reaches a sort before other use
	if len(appends) >= 1 && len(otherCalls) == 0 && mapUpdates == 0 && returns == 0 && len(unknown) == 0 {
		allSorted := true
		for _, a := range appends {
			if !appendedSliceSorted(mr, a) {
				allSorted = false
			}
		}
		if allSorted {
			if usesVal {
				return rangeClass{"collect-then-sort", "elements appended, slice sorted before use"}
			}
			return rangeClass{"keys-then-sort", "keys appended, slice sorted before use"}
		}
	}
	if len(appends) == 0 && len(otherCalls) == 0 && returns == 0 && len(unknown) == 0 && (mapUpdates > 0 || stores >= 0) {
		if mapUpdates > 0 {
			// a map built while ranging a map is order-insensitive only if two iterations
			// cannot compete for one key with different values: either the value written is the
			// same whatever the iteration (a set: constant / empty struct), or the key written is
			// this iteration's own range key (distinct per iteration).
			competing := ""
			for b := range mr.Body {
				for _, in := range b.Instrs {
					mu, ok := in.(*ssa.MapUpdate)
					if !ok {
						continue
					}
					setLike := false
					switch v := mu.Value.(type) {
					case *ssa.Const:
						setLike = true
					default:
						if st, isStruct := v.Type().Underlying().(*types.Struct); isStruct && st.NumFields() == 0 {
							setLike = true
						}
					}
					var injective func(v ssa.Value, depth int) bool
					injective = func(v ssa.Value, depth int) bool {
						if depth > 6 {
							return false
						}
						v = unconv(v)
						if v == keyV {
							return true
						}
						if b, isBin := v.(*ssa.BinOp); isBin && b.Op == token.ADD {
							if bt, isBasic := b.Type().Underlying().(*types.Basic); isBasic && bt.Info()&types.IsString != 0 {
								invariant := func(x ssa.Value) bool {
									in, isIn := x.(ssa.Instruction)
									return !isIn || !mr.Body[in.Block()]
								}
								// key ++ fixed text, or fixed text ++ key
								return injective(b.X, depth+1) && invariant(b.Y) || injective(b.Y, depth+1) && invariant(b.X)
							}
						}
						return false
					}
					ownKey := keyV != nil && injective(mu.Key, 0)
					if !setLike && !ownKey {
						competing = ir.Desc(mu.Map) + "[" + trunc(ir.Desc(mu.Key), 60) + "]"
					}
				}
			}
			if competing == "" {
				return rangeClass{"set/map-build", "only map insertions whose key is the iteration's own key or whose value is iteration-independent"}
			}
			return rangeClass{"unknown", "map insertion " + competing + " with a key derived from the element and an element-dependent value: which iteration wins depends on map order"}
		}
	}
	return rangeClass{"unknown", strings.Join(otherCalls, ",")}
}

// appendedSliceSorted: the slice produced by this append (through the loop phi) reaches a
// sort call after the loop, in the same function, before being returned or ranged.
func appendedSliceSorted(mr *MapRange, app *ssa.Call) bool {
	// follow the value out of the loop: phi at header -> uses outside body
	seen := map[ssa.Value]bool{}
	var outside []ssa.Instruction
	var walk func(v ssa.Value)
	walk = func(v ssa.Value) {
		if seen[v] {
			return
		}
		seen[v] = true
		refs := v.Referrers()
		if refs == nil {
			return
		}
		for _, r := range *refs {
			if phi, ok := r.(*ssa.Phi); ok {
				walk(phi)
				continue
			}
			if st, ok := r.(*ssa.Store); ok {
				// slice kept in a local variable: follow loads of it
				if a, ok := st.Addr.(*ssa.Alloc); ok && a.Referrers() != nil {
					for _, rr := range *a.Referrers() {
						if ld, ok := rr.(*ssa.UnOp); ok && ld.Op == token.MUL {
							walk(ld)
						}
					}
				}
				continue
			}
			if r.Block() != nil && !mr.Body[r.Block()] {
				outside = append(outside, r)
			} else if call, ok := r.(*ssa.Call); ok && ir.CalleeName(&call.Call) == "builtin:append" {
				walk(call)
			} else if sl, ok := r.(*ssa.Slice); ok {
				walk(sl)
			}
		}
	}
	walk(app)
	if len(outside) == 0 {
		return false
	}
	sorted := false
	for _, u := range outside {
		switch x := u.(type) {
		case *ssa.Call:
			if sortCallee(ir.CalleeName(&x.Call)) && comparatorTotal(x) {
				sorted = true
			}
		case *ssa.MakeInterface: // sort.Slice(x any, …)
			if x.Referrers() != nil {
				for _, rr := range *x.Referrers() {
					if call, ok := rr.(*ssa.Call); ok && sortCallee(ir.CalleeName(&call.Call)) && comparatorTotal(call) {
						sorted = true
					}
				}
			}
		}
	}
	return sorted
}

// comparatorTotal: a sort call that takes a comparison closure sorts into a unique order
// only if the comparison distinguishes any two different elements. Accepted: the closure
// compares the elements themselves (basic element type), calls String() on them, or reads
// every field of the element struct. Sort calls without a closure (sort.Strings …) are total.
func comparatorTotal(call *ssa.Call) bool {
	var cl *ssa.Function
	for _, a := range call.Call.Args {
		if mc, ok := a.(*ssa.MakeClosure); ok {
			cl = mc.Fn.(*ssa.Function)
		}
		if f, ok := a.(*ssa.Function); ok {
			cl = f
		}
	}
	if cl == nil || cl.Blocks == nil {
		return true
	}
	// element type of the sorted slice
	var elemStruct *types.Struct
	if len(call.Call.Args) > 0 {
		a0 := call.Call.Args[0]
		if mi, ok := a0.(*ssa.MakeInterface); ok {
			a0 = mi.X
		}
		if sl, ok := a0.Type().Underlying().(*types.Slice); ok {
			if s, ok := derefStruct(sl.Elem()); ok {
				elemStruct = s
			}
		}
	}
	if elemStruct == nil {
		return true // elements of basic type: any comparison on them is total enough to audit elsewhere
	}
	fieldsRead := map[string]bool{}
	var structT *types.Struct
	stringCalled, wholeCompared := false, false
	ir.EachInstr(cl, func(in ssa.Instruction) {
		switch x := in.(type) {
		case *ssa.FieldAddr:
			if s, ok := derefStruct(x.X.Type()); ok && elemStruct != nil && types.Identical(s, elemStruct) {
				structT = s
				fieldsRead[ir.FieldOf(x).Name()] = true
			}
		case *ssa.Field:
			if s, ok := derefStruct(x.X.Type()); ok && elemStruct != nil && types.Identical(s, elemStruct) {
				structT = s
				fieldsRead[ir.FieldOf(x).Name()] = true
			}
		case *ssa.Call:
			n := ir.CalleeName(&x.Call)
			if strings.HasSuffix(n, ".String") || strings.HasSuffix(n, ".Differentiator") {
				stringCalled = true
			}
		case *ssa.BinOp:
			if x.Op == token.LSS || x.Op == token.GTR {
				if _, ok := x.X.(*ssa.UnOp); ok {
					if ld := x.X.(*ssa.UnOp); ld.Op == token.MUL {
						if _, isIdx := ld.X.(*ssa.IndexAddr); isIdx {
							wholeCompared = true
						}
					}
				}
			}
		}
	})
	if stringCalled || wholeCompared {
		return true
	}
	if structT == nil {
		return true // nothing recognisable: leave to the caller's audit
	}
	for i := 0; i < structT.NumFields(); i++ {
		if !fieldsRead[structT.Field(i).Name()] {
			return false
		}
	}
	return true
}

func derefStruct(t types.Type) (*types.Struct, bool) {
	for {
		if p, ok := t.Underlying().(*types.Pointer); ok {
			t = p.Elem()
			continue
		}
		break
	}
	s, ok := t.Underlying().(*types.Struct)
	return s, ok
}

// producerTainted: fn returns (or stores into its result) a slice built while ranging a
// map and never sorted: callers observe map order.
func producerTainted(fn *ssa.Function) bool {
	if fn.Blocks == nil {
		return false
	}
	res := fn.Signature.Results()
	hasSlice := false
	for i := 0; i < res.Len(); i++ {
		if _, ok := res.At(i).Type().Underlying().(*types.Slice); ok {
			hasSlice = true
		}
	}
	if !hasSlice {
		return false
	}
	for _, mr := range mapRanges(fn) {
		for b := range mr.Body {
			for _, in := range b.Instrs {
				call, ok := in.(*ssa.Call)
				if !ok || ir.CalleeName(&call.Call) != "builtin:append" {
					continue
				}
				if appendedSliceSorted(mr, call) {
					continue
				}
				if flowsToReturn(mr, call) {
					return true
				}
			}
		}
		// index assignment into a pre-sized slice: result[i] = key
		for b := range mr.Body {
			for _, in := range b.Instrs {
				if st, ok := in.(*ssa.Store); ok {
					if ia, ok := st.Addr.(*ssa.IndexAddr); ok {
						if _, isSlice := ia.X.Type().Underlying().(*types.Slice); !isSlice {
							continue // local array literal (e.g. log attributes)
						}
						if sl, ok := ia.X.(*ssa.Slice); ok {
							if _, isAlloc := sl.X.(*ssa.Alloc); isAlloc {
								continue
							}
						}
						if flowsToReturn(mr, ia.X) {
							return true
						}
					}
				}
			}
		}
	}
	return false
}

func flowsToReturn(mr *MapRange, v ssa.Value) bool {
	seen := map[ssa.Value]bool{}
	found := false
	var walk func(v ssa.Value)
	walk = func(v ssa.Value) {
		if seen[v] || found {
			return
		}
		seen[v] = true
		refs := v.Referrers()
		if refs == nil {
			return
		}
		for _, r := range *refs {
			switch x := r.(type) {
			case *ssa.Return:
				found = true
			case *ssa.Phi:
				walk(x)
			case *ssa.Call:
				if ir.CalleeName(&x.Call) == "builtin:append" {
					walk(x)
				}
			case *ssa.Store:
				if a, ok := x.Addr.(*ssa.Alloc); ok && a.Referrers() != nil {
					for _, rr := range *a.Referrers() {
						if ld, ok := rr.(*ssa.UnOp); ok && ld.Op == token.MUL {
							walk(ld)
						}
					}
				}
			case *ssa.Slice:
				walk(x)
			}
		}
	}
	walk(v)
	return found
}
