package rules

import (
	"strings"

	"golang.org/x/tools/go/ssa"

	"lavaverif/checker/ir"
)

func init() {
	register("C19", "other", func(c *Ctx) {
		c.Explain = "Unresponsive-provider jailing is justified and bounded — structural part: a provider is punished only from PunishUnresponsiveProviders, only when countCuForUnresponsiveness returned a non-empty epoch list (which it does only under complaints > THRESHOLD_FACTOR x serviced CU, THRESHOLD_FACTOR = 4) and while the chain has more non-frozen providers than the smallest plan's max-providers-to-pair, with the per-chain counter decremented for every punishment; young entries without jails are skipped; punishing always stores the entry and removes exactly the complaints it was punished for; more than SOFT_JAILS jails within the hard-jail window freeze the entry; candidates are visited in slice order."
		pun := c.Fn(pk + "Keeper.PunishUnresponsiveProviders")
		one := c.Fn(pk + "Keeper.punishUnresponsiveProvider")
		cnt := c.Fn(pk + "Keeper.countCuForUnresponsiveness")
		if pun == nil || one == nil || cnt == nil {
			return
		}
		c.Rule("C19a justification: punishUnresponsiveProvider is called only from PunishUnresponsiveProviders, dominated by len(epochs)!=0, existingProviders[chain] > minProviders, countCuForUnresponsiveness nil error and the entry being found; countCuForUnresponsiveness returns a non-nil epoch list only under THRESHOLD_FACTOR*servicedCu < complainersCu with THRESHOLD_FACTOR == 4")
		c.RequireCallers("C19a", pk+"Keeper.punishUnresponsiveProvider", pk+"Keeper.PunishUnresponsiveProviders")
		calls := c.CallsIn(pun, one, false)
		if len(calls) != 1 {
			c.Fail("C19a/PunishUnresponsiveProviders/one-punish-site", c.P.Pos(pun.Pos()), "expected exactly one punish call, found "+itoa(len(calls)))
		}
		c.RequireGuards("C19a", calls, "punishUnresponsiveProvider",
			FactHas("epochs-non-empty", "call(builtin:len)(", "Keeper.countCuForUnresponsiveness)", "#0) != const(0))"),
			FactHas("enough-providers-left", "phi{", " < makemap["),
			ErrNil(pk+"Keeper.countCuForUnresponsiveness"),
			CallIs(true, "invoke:x/pairing/types.EpochstorageKeeper.GetStakeEntryCurrent"),
		)
		for _, s := range calls {
			a := ir.CallOf(s.Instr).Args
			n := len(a)
			okA := strings.HasSuffix(ir.Desc(a[n-4]), "Keeper.countCuForUnresponsiveness)"+argTail(a[n-4])+"#0") || strings.Contains(ir.Desc(a[n-4]), "countCuForUnresponsiveness")
			_, calls2 := BackwardDeps(a[n-3])
			if okA && calls2["invoke:x/pairing/types.EpochstorageKeeper.GetStakeEntryCurrent"] {
				c.OK("C19a/PunishUnresponsiveProviders/punish-args", c.P.InstrPos(s.Instr), "epochs from countCuForUnresponsiveness, entry re-read from the current store")
			} else {
				c.Fail("C19a/PunishUnresponsiveProviders/punish-args", c.P.InstrPos(s.Instr), "punished epochs/entry do not come from the count and the current store")
			}
		}
		th := c.Const("x/pairing/keeper", "THRESHOLD_FACTOR")
		if th != "const(4)" {
			c.Fail("C19a/THRESHOLD_FACTOR=4", "-", "THRESHOLD_FACTOR is "+th)
		} else {
			c.OK("C19a/THRESHOLD_FACTOR=4", "-", th)
		}
		var nonNil []Site
		for _, r := range c.AllReturns(cnt) {
			ret := r.Instr.(*ssa.Return)
			if !isNilConst(RetVal(ret, 0)) && !IsFailureReturn(ret) {
				nonNil = append(nonNil, r)
			}
		}
		if len(nonNil) != 1 {
			c.Fail("C19a/countCuForUnresponsiveness/one-positive-return", c.P.Pos(cnt.Pos()), "expected exactly one return with a non-nil epoch list, found "+itoa(len(nonNil)))
		}
		c.RequireGuards("C19a", nonNil, "return-epochs", FactHas("complaints>4*serviced", "(("+th+" * phi{", ") < phi{"))

		c.Rule("C19b bounded: every punishment decrements existingProviders[chain] (so the >minProviders guard sees earlier punishments of the same block); minProviders is the minimum MaxProvidersToPair over all plans; only non-frozen current entries are counted and considered; an entry whose stake was applied after the history window and that has no jails is skipped")
		if len(calls) == 1 {
			dec := false
			blk := calls[0].Instr.Block()
			for _, in := range blk.Instrs {
				if mu, ok := in.(*ssa.MapUpdate); ok {
					if b, ok := mu.Value.(*ssa.BinOp); ok && b.Op.String() == "-" && ir.Desc(b.Y) == "const(1)" {
						dec = true
					}
				}
			}
			if dec {
				c.OK("C19b/PunishUnresponsiveProviders/punish=>decrement", c.P.InstrPos(calls[0].Instr), "existingProviders[chainID]-- in the same block")
			} else {
				c.Fail("C19b/PunishUnresponsiveProviders/punish=>decrement", c.P.InstrPos(calls[0].Instr), "the non-frozen provider counter is not decremented with the punishment: several providers of one chain can be jailed in one block past the minimum")
			}
		}
		// counted only when not frozen
		var incs []Site
		ir.EachInstr(pun, func(in ssa.Instruction) {
			if mu, ok := in.(*ssa.MapUpdate); ok {
				if b, ok := mu.Value.(*ssa.BinOp); ok && b.Op.String() == "+" && ir.Desc(b.Y) == "const(1)" {
					incs = append(incs, Site{Fn: pun, Instr: in})
				}
			}
		})
		if len(incs) != 1 {
			c.Fail("C19b/PunishUnresponsiveProviders/one-counter-increment", c.P.Pos(pun.Pos()), "expected one existingProviders[chain]++")
		}
		c.RequireGuards("C19b", incs, "existingProviders++", CallIs(false, "x/epochstorage/types.StakeEntry.IsFrozen"))
		// minProviders: min over plans
		minOK := false
		for _, ie := range c.IfsMatching(pun, FactHas("min-providers", ".PlanPolicy.MaxProvidersToPair < phi{")) {
			_ = ie
			minOK = true
		}
		if minOK {
			c.OK("C19b/PunishUnresponsiveProviders/minProviders=min-over-plans", c.P.Pos(pun.Pos()), "running minimum of plan.PlanPolicy.MaxProvidersToPair")
		} else {
			c.Fail("C19b/PunishUnresponsiveProviders/minProviders=min-over-plans", c.P.Pos(pun.Pos()), "minProviders is not the minimum MaxProvidersToPair over the plans")
		}
		// young entries skipped: the insertion into complainedProviders is unreachable from the (minHistoryBlock < StakeAppliedBlock && Jails == 0) outcome
		var inserts []Site
		ir.EachInstr(pun, func(in ssa.Instruction) {
			if mu, ok := in.(*ssa.MapUpdate); ok && strings.Contains(ir.TypeName(mu.Map.Type()), "ProviderEpochComplainerCu") {
				inserts = append(inserts, Site{Fn: pun, Instr: in})
			}
		})
		ys := c.IfsMatching(pun, FactHas("young-no-jails", ".Jails == const(0))"))
		if len(ys) == 0 || len(inserts) == 0 {
			c.Fail("C19b/PunishUnresponsiveProviders/young-entries-skipped", c.P.Pos(pun.Pos()), "no stake-history guard before complaints are considered")
		}
		for _, ie := range ys {
			if ok, where := c.EdgeCannotReach(ie, inserts); ok {
				c.RequireGuards("C19b", []Site{{Fn: pun, Instr: ie.If}}, "jails==0-test", FactHas("stake-too-young", " < ", ".StakeAppliedBlock)"))
			} else {
				c.Fail("C19b/PunishUnresponsiveProviders/young-entries-skipped", c.P.InstrPos(ie.If), "a young entry without jails still has its complaints considered at "+where)
			}
		}

		c.Rule("C19c punish: punishUnresponsiveProvider increments Jails (after resetting it when the last jail ended more than HARD_JAIL_TIME ago), freezes under Jails > SOFT_JAILS, stores the entry and then removes the complaint records of exactly the epochs it was given, on every path")
		if r := c.MustPass(one, nil, IsCallTo("invoke:x/pairing/types.EpochstorageKeeper.SetStakeEntryCurrent"), nil); r.OK {
			c.OK("C19c/punishUnresponsiveProvider/must-pass=SetStakeEntryCurrent", c.P.Pos(one.Pos()), "all paths")
		} else {
			c.Fail("C19c/punishUnresponsiveProvider/must-pass=SetStakeEntryCurrent", c.P.Pos(one.Pos()), r.Witness)
		}
		if r := c.MustPass(one, nil, IsCallTo(pk+"Keeper.resetComplainersCU"), nil); r.OK {
			c.OK("C19c/punishUnresponsiveProvider/must-pass=resetComplainersCU", c.P.Pos(one.Pos()), "all paths: the same complaints cannot punish twice")
		} else {
			c.Fail("C19c/punishUnresponsiveProvider/must-pass=resetComplainersCU", c.P.Pos(one.Pos()), "complaints survive a punishment: "+r.Witness)
		}
		for _, s := range c.CallsByName(one, false, pk+"Keeper.resetComplainersCU") {
			a := argDescs(ir.CallOf(s.Instr))
			n := len(a)
			if a[n-3] == "param#1" && strings.HasSuffix(a[n-2], ".Address") && strings.HasSuffix(a[n-1], ".Chain") {
				c.OK("C19c/punishUnresponsiveProvider/reset-args", c.P.InstrPos(s.Instr), "epochs parameter, entry address and chain")
			} else {
				c.Fail("C19c/punishUnresponsiveProvider/reset-args", c.P.InstrPos(s.Instr), strings.Join(a[n-3:], ","))
			}
		}
		if rc := c.Fn(pk + "Keeper.resetComplainersCU"); rc != nil {
			if len(c.CallsByName(rc, false, pk+"Keeper.RemoveProviderEpochComplainerCu")) == 1 {
				c.OK("C19c/resetComplainersCU/removes-per-epoch", c.P.Pos(rc.Pos()), "RemoveProviderEpochComplainerCu in the loop over epochs")
			} else {
				c.Fail("C19c/resetComplainersCU/removes-per-epoch", c.P.Pos(rc.Pos()), "complaint records are not removed")
			}
		}
		sj := c.Const("x/pairing/keeper", "SOFT_JAILS")
		c.RequireGuards("C19c", c.CallsByName(one, false, "x/epochstorage/types.StakeEntry.Freeze"), "Freeze", FactHas("jails>SOFT_JAILS", "("+sj+" < ", ".Jails)"))
		// Jails++ store
		incOK := false
		ir.EachInstr(one, func(in ssa.Instruction) {
			if st, ok := in.(*ssa.Store); ok {
				if fa, ok := st.Addr.(*ssa.FieldAddr); ok && ir.FieldKey(fa) == "x/epochstorage/types.StakeEntry.Jails" {
					if b, ok := st.Val.(*ssa.BinOp); ok && b.Op.String() == "+" && (ir.Desc(b.Y) == "const(1)" || ir.Desc(b.X) == "const(1)") {
						incOK = true
					}
				}
			}
		})
		if incOK {
			c.OK("C19c/punishUnresponsiveProvider/Jails++", c.P.Pos(one.Pos()), "jail counter incremented")
		} else {
			c.Fail("C19c/punishUnresponsiveProvider/Jails++", c.P.Pos(one.Pos()), "the jail counter is not incremented: repeated jails never escalate")
		}

		c.Rule("C19d order: the candidates are visited in the order of a slice filled while scanning the store iterator (keys), not by ranging a map")
		for _, mr := range mapRanges(pun) {
			c.Fail("C19d/PunishUnresponsiveProviders/no-map-range", c.P.InstrPos(mr.Range), "candidates are visited in map iteration order: which provider is jailed when only one more may be jailed depends on the node")
		}
		if len(mapRanges(pun)) == 0 {
			c.OK("C19d/PunishUnresponsiveProviders/no-map-range", c.P.Pos(pun.Pos()), "no range over a map in the function")
		}
		c.Rule("C19e once per candidate: a provider key is appended to the work list only on the not-found outcome of its lookup in the complained-providers map (a key listed twice would be counted and punished twice in one pass)")
		nk := 0
		ir.EachInstr(pun, func(in ssa.Instruction) {
			call, ok := in.(*ssa.Call)
			if !ok || ir.CalleeName(&call.Call) != "builtin:append" || ir.TypeName(call.Type()) != "[]string" {
				return
			}
			nk++
			found := false
			for _, g := range ir.Guards(in) {
				if strings.HasPrefix(g.Fact, "!makemap[") && strings.HasSuffix(g.Fact, "#1") && strings.Contains(g.Fact, "stakeEntriesMapKey") {
					found = true
				}
			}
			if found {
				c.OK("C19e/PunishUnresponsiveProviders/worklist-append-on-first-sight", c.P.InstrPos(in), "dominated by !complainedProviders[key]")
			} else {
				c.Fail("C19e/PunishUnresponsiveProviders/worklist-append-on-first-sight", c.P.InstrPos(in), "a provider key can be put on the work list more than once: the same complaints are evaluated (and the provider jailed) twice")
			}
		})
		if nk != 1 {
			c.Fail("C19e/PunishUnresponsiveProviders/one-worklist", c.P.Pos(pun.Pos()), "expected exactly one work-list append, found "+itoa(nk))
		}
		c.Rule("C19f windows and escalation memory: the call to countCuForUnresponsiveness passes each window under the parameter of the same name (the two uint64 windows cannot be told apart by type); StakeEntry.Jails and JailEndTime are cleared only in punishUnresponsiveProvider (old jail) and in UnfreezeProvider past IsFrozen() of that entry — a soft-jailed, never frozen entry keeps its jail count")
		for _, s := range c.CallsByName(pun, false, pk+"Keeper.countCuForUnresponsiveness") {
			call := ir.CallOf(s.Instr)
			callee := call.StaticCallee()
			if callee == nil {
				c.Undecided("C19f: countCuForUnresponsiveness call is not static")
				continue
			}
			calleeNames := map[string]int{}
			for i, p := range callee.Params {
				calleeNames[p.Name()] = i
			}
			n, bad := 0, ""
			for i, a := range call.Args {
				p, ok := a.(*ssa.Parameter)
				if !ok || i >= len(callee.Params) {
					continue
				}
				// a caller parameter forwarded under a name the callee also uses must land on that parameter
				if j, same := calleeNames[p.Name()]; same {
					n++
					if j != i {
						bad = "caller's " + p.Name() + " is passed as the callee's " + callee.Params[i].Name()
					}
				}
			}
			if bad != "" {
				c.Fail("C19f/PunishUnresponsiveProviders/windows-passed-under-their-own-names", c.P.InstrPos(s.Instr), bad+": the complaint window and the serviced-CU window are swapped")
			} else if n >= 2 {
				c.OK("C19f/PunishUnresponsiveProviders/windows-passed-under-their-own-names", c.P.InstrPos(s.Instr), itoa(n)+" same-named parameters forwarded positionally correct")
			} else {
				c.Undecided("C19f: fewer than two same-named parameters are forwarded to countCuForUnresponsiveness (%d)", n)
			}
		}
		for _, fld := range []string{"Jails", "JailEndTime"} {
			for _, a := range c.fieldAccesses("x/epochstorage/types.StakeEntry." + fld) {
				if a.Kind != "write" || !inProd(a.Fn) || strings.Contains(c.P.InstrPos(a.Instr), ".pb.go") {
					continue
				}
				st, ok := a.Instr.(*ssa.Store)
				if !ok || !isZeroConst(st.Val) {
					continue
				}
				fn := topName(a.Fn)
				key := "C19f/StakeEntry." + fld + "/cleared-in=" + fn
				switch fn {
				case pk + "Keeper.punishUnresponsiveProvider":
					c.OK(key, c.P.InstrPos(st), "reset of an old jail before counting the new one")
				case pk + "msgServer.UnfreezeProvider":
					if ir.HasFact(ir.GuardFacts(st), "call(x/epochstorage/types.StakeEntry.IsFrozen)(") && !ir.HasFact(ir.GuardFacts(st), "!call(x/epochstorage/types.StakeEntry.IsFrozen)(") {
						c.OK(key, c.P.InstrPos(st), "only for an entry that was frozen and is being unfrozen")
					} else {
						c.Fail(key, c.P.InstrPos(st), "the jail record of an entry that is not frozen is cleared: a soft-jailed provider erases its jail count and never escalates to a hard jail")
					}
				default:
					c.Fail(key, c.P.InstrPos(st), "StakeEntry."+fld+" is cleared in "+fn)
				}
			}
		}
		c.NotCovered("window lengths, escalation timing, the stake-history comparison's epoch arithmetic")
	})
}

func argTail(v ssa.Value) string { return "" }
