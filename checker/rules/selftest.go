package rules

import (
	"encoding/json"
	"fmt"
	"io"
	"os"
	"os/exec"
	"path/filepath"
	"sort"
	"strings"
	"sync"
)

// Thorough tier, second half: the both-ways test. For every kept seeded change of the
// property that the records say is detected, the current source tree is copied to a
// scratch directory, the change is applied, and the same rules are run on the copy (in a
// child process, source only — nothing is executed). The check must report a violation
// there. A seeded change that is no longer reported is a regression of the checker and
// makes the thorough run UNDECIDED (exit 2); it is never reported as a violation of the
// property, and the verdict on /repo is unaffected.

type SelfTestResult struct {
	Seed     string   `json:"seed"`
	Outcome  string   `json:"outcome"` // detected | NOT-DETECTED | skipped
	Detail   string   `json:"detail,omitempty"`
	Reported []string `json:"reported,omitempty"`
}

var SelfTests = map[string][]SelfTestResult{}

func copyTree(src, dst string) error {
	return filepath.Walk(src, func(path string, info os.FileInfo, err error) error {
		if err != nil {
			return err
		}
		rel, _ := filepath.Rel(src, path)
		if rel == ".git" || strings.HasPrefix(rel, ".git"+string(filepath.Separator)) {
			if info.IsDir() {
				return filepath.SkipDir
			}
			return nil
		}
		target := filepath.Join(dst, rel)
		if info.IsDir() {
			return os.MkdirAll(target, 0o755)
		}
		if !info.Mode().IsRegular() {
			return nil
		}
		in, err := os.Open(path)
		if err != nil {
			return err
		}
		defer in.Close()
		out, err := os.OpenFile(target, os.O_CREATE|os.O_WRONLY|os.O_TRUNC, 0o644)
		if err != nil {
			return err
		}
		defer out.Close()
		_, err = io.Copy(out, in)
		return err
	})
}

// RunSelfTests runs the seeded changes of property id against the rules (at most three
// scratch copies at a time).
func RunSelfTests(id, repoDir, seedsDir, exe, knownPath string) {
	entries, err := os.ReadDir(seedsDir)
	if err != nil {
		SelfTests[id] = []SelfTestResult{{Seed: "-", Outcome: "skipped", Detail: "no seeded changes directory: " + err.Error()}}
		return
	}
	var names []string
	for _, e := range entries {
		if e.IsDir() && strings.HasPrefix(e.Name(), id+"_") {
			names = append(names, e.Name())
		}
	}
	sort.Strings(names)
	if len(names) == 0 {
		SelfTests[id] = []SelfTestResult{{Seed: "-", Outcome: "skipped", Detail: "no seeded change kept for this property"}}
		return
	}
	results := make([]SelfTestResult, len(names))
	sem := make(chan struct{}, 4) // four children of four threads each: more threads per child only add scheduler and GC overhead
	var wg sync.WaitGroup
	for i, name := range names {
		wg.Add(1)
		go func(i int, name string) {
			defer wg.Done()
			sem <- struct{}{}
			defer func() { <-sem }()
			results[i] = runOneSelfTest(id, name, repoDir, seedsDir, exe, knownPath)
		}(i, name)
	}
	wg.Wait()
	SelfTests[id] = results
}

func runOneSelfTest(id, name, repoDir, seedsDir, exe, knownPath string) (res SelfTestResult) {
	res.Seed = name
	sd := filepath.Join(seedsDir, name)
	var meta struct {
		Verdict struct {
			Detected string `json:"detected"`
		} `json:"checker_verdict"`
	}
	if b, err := os.ReadFile(filepath.Join(sd, "meta.json")); err == nil {
		_ = json.Unmarshal(b, &meta)
	}
	if !strings.HasPrefix(meta.Verdict.Detected, "yes") {
		res.Outcome = "skipped"
		res.Detail = "recorded as not detected by this property's check: " + trunc(meta.Verdict.Detected, 120)
		return
	}
	tmp, err := os.MkdirTemp("", "lavacheck-selftest-")
	if err != nil {
		res.Outcome = "skipped"
		res.Detail = "no scratch directory: " + err.Error()
		return
	}
	defer os.RemoveAll(tmp)
	tree := filepath.Join(tmp, "tree")
	patch := filepath.Join(sd, "patch.diff")
	if _, err := os.Stat(filepath.Join(sd, "patch.current.diff")); err == nil {
		patch = filepath.Join(sd, "patch.current.diff") // the same change re-expressed against the tree after later fix: commits
	}
	// Only the files the change touches are copied; the child analyses the current tree
	// with those files overlaid (no scratch copy of the whole tree, and the build cache
	// of the untouched packages stays valid). A change that deletes a file cannot be
	// expressed as an overlay and falls back to a full scratch copy.
	touched, deletes := patchFiles(patch)
	overlay := !deletes && len(touched) > 0
	if overlay {
		for _, rel := range touched {
			src := filepath.Join(repoDir, rel)
			b, err := os.ReadFile(src)
			if err != nil {
				continue // a file the change creates
			}
			dst := filepath.Join(tree, rel)
			if err := os.MkdirAll(filepath.Dir(dst), 0o755); err == nil {
				_ = os.WriteFile(dst, b, 0o644)
			}
		}
		_ = os.MkdirAll(tree, 0o755)
	} else if err := copyTree(repoDir, tree); err != nil {
		res.Outcome = "skipped"
		res.Detail = "copy failed: " + err.Error()
		return
	}
	apply := exec.Command("git", "apply", patch)
	apply.Dir = tree
	if out, err := apply.CombinedOutput(); err != nil {
		res.Outcome = "skipped"
		res.Detail = "the change no longer applies to the current tree (the lines it edits were changed by a later fix: commit): " + trunc(strings.TrimSpace(string(out)), 160)
		return
	}
	ev := filepath.Join(tmp, "ev")
	cmd := exec.Command(exe, "-repo", tree, "-prop", id, "-tier", "quick", "-out", ev, "-known", knownPath)
	if overlay {
		cmd = exec.Command(exe, "-repo", repoDir, "-overlay", tree, "-prop", id, "-tier", "quick", "-out", ev, "-known", knownPath)
	}
	cmd.Env = append(os.Environ(), "GOFLAGS=-mod=mod", "GOPROXY=off", "GOSUMDB=off", "GOTOOLCHAIN=local", "GOWORK=off", "GOMAXPROCS=4")
	out, _ := cmd.CombinedOutput()
	code := 0
	if cmd.ProcessState != nil {
		code = cmd.ProcessState.ExitCode()
	}
	var evd struct {
		Coverage struct {
			All []Obligation `json:"all_obligations"`
		} `json:"coverage"`
	}
	if b, err := os.ReadFile(filepath.Join(ev, id+".json")); err == nil {
		_ = json.Unmarshal(b, &evd)
	}
	for _, o := range evd.Coverage.All {
		if o.Status == Violation {
			res.Reported = append(res.Reported, o.Key)
		}
	}
	switch {
	case code == 1 && len(res.Reported) > 0:
		res.Outcome = "detected"
	case code == 2:
		res.Outcome = "NOT-DETECTED"
		res.Detail = "the check ended undecided on the changed tree: " + trunc(lastLine(string(out)), 200)
	default:
		res.Outcome = "NOT-DETECTED"
		res.Detail = fmt.Sprintf("exit %d, no violation reported on the changed tree", code)
	}
	return
}

// patchFiles lists the paths a unified diff touches and whether it deletes any file.
func patchFiles(patch string) (files []string, deletes bool) {
	b, err := os.ReadFile(patch)
	if err != nil {
		return nil, false
	}
	seen := map[string]bool{}
	for _, line := range strings.Split(string(b), "\n") {
		for _, pfx := range []string{"--- a/", "+++ b/"} {
			if strings.HasPrefix(line, pfx) {
				p := strings.TrimSpace(strings.TrimPrefix(line, pfx))
				if i := strings.IndexByte(p, '\t'); i >= 0 {
					p = p[:i]
				}
				if p != "" && !seen[p] && !strings.Contains(p, "..") {
					seen[p] = true
					files = append(files, p)
				}
			}
		}
		if strings.HasPrefix(line, "+++ /dev/null") || strings.HasPrefix(line, "deleted file mode") || strings.HasPrefix(line, "rename from") {
			deletes = true
		}
	}
	return files, deletes
}

func lastLine(s string) string {
	lines := strings.Split(strings.TrimSpace(s), "\n")
	return lines[len(lines)-1]
}
