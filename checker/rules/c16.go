package rules

import (
	"go/token"
	"strings"

	"golang.org/x/tools/go/ssa"

	"lavaverif/checker/ir"
)

const esK = "x/epochstorage/keeper.Keeper."

func init() {
	register("C16", "other", func(c *Ctx) {
		c.Explain = "Epoch boundaries are consistent under parameter changes — structural part: there is one source of epoch positions, BlockInEpoch = (block − fixation block) mod epochBlocks on the parameters fixated for that block (fixation block <= block on every successful outcome of GetFixatedParamsForBlock, and a zero epoch length is rejected before the modulo); IsEpochStart is BlockInEpoch(current)==0 and the epoch start of a block is block − BlockInEpoch(block), so the blocks reported as epoch starts are those where BeginBlock ran EpochStart (its only caller, under IsEpochStart); the next epoch is epoch start + epochBlocks of the same block; at an epoch start the parameters are fixated (with this block as the new grid origin) before the earliest epoch is advanced; the earliest epoch is only ever replaced by the result of repeatedly taking GetNextEpoch from it while it is older than current − blocksToSave(at the earliest epoch), a subtraction that is guarded."
		bie := c.Fn(esK + "BlockInEpoch")
		gfp := c.Fn(esK + "GetFixatedParamsForBlock")
		ies := c.Fn(esK + "IsEpochStart")
		ges := c.Fn(esK + "GetEpochStartForBlock")
		gne := c.Fn(esK + "GetNextEpoch")
		ues := c.Fn(esK + "UpdateEarliestEpochstart")
		eps := c.Fn(esK + "EpochStart")
		bb := c.Fn(esK + "BeginBlock")
		pfp := c.Fn(esK + "PushFixatedParams")
		if bie == nil || gfp == nil || ies == nil || ges == nil || gne == nil || ues == nil || eps == nil || bb == nil || pfp == nil {
			return
		}

		c.Rule("C16a position: BlockInEpoch returns (block − FixationBlock) % epochBlocks of GetFixatedParamsForBlock(KeyEpochBlocks, block) on its success path, past epochBlocks != 0; every error-free return of GetFixatedParamsForBlock carries FixationBlock <= block (a stored version under that comparison, or a literal whose FixationBlock is the block itself)")
		nok := 0
		for _, r := range c.SuccessReturns(bie) {
			ret := r.Instr.(*ssa.Return)
			b, ok := RetVal(ret, 0).(*ssa.BinOp)
			facts := ir.GuardFacts(ret)
			if ok && b.Op == token.REM {
				sub, isSub := b.X.(*ssa.BinOp)
				if isSub && sub.Op == token.SUB && ir.Desc(sub.X) == "param#1" && strings.HasSuffix(ir.Desc(sub.Y), ".FixationBlock") && ir.HasFact(facts, " != const(0))") {
					nok++
					c.OK("C16a/BlockInEpoch/(block−fixation)%epochBlocks", c.P.InstrPos(ret), "modulus tested non-zero")
					continue
				}
			}
			c.Fail("C16a/BlockInEpoch/(block−fixation)%epochBlocks", c.P.InstrPos(ret), "position in epoch is "+trunc(ir.Desc(RetVal(ret, 0)), 120))
		}
		if nok != 1 {
			c.Undecided("C16a: expected one computed return in BlockInEpoch, found %d", nok)
		}
		for _, s := range c.CallsIn(bie, gfp, false) {
			call := ir.CallOf(s.Instr)
			if strings.Contains(ir.Desc(call.Args[2]), "KeyEpochBlocks") && ir.Desc(call.Args[3]) == "param#1" {
				c.OK("C16a/BlockInEpoch/params-fixated-for-that-block", c.P.InstrPos(s.Instr), "")
			} else {
				c.Fail("C16a/BlockInEpoch/params-fixated-for-that-block", c.P.InstrPos(s.Instr), "epoch length read for "+trunc(ir.Desc(call.Args[3]), 60))
			}
		}
		nf := 0
		for _, r := range c.AllReturns(gfp) {
			ret := r.Instr.(*ssa.Return)
			if ir.Desc(RetVal(ret, 1)) != "nil" {
				// may carry an error: BlockInEpoch returns before using the value (checked by its err != nil return)
				f := structFieldStores(allocOf(RetVal(ret, 0)))
				if v, ok := f["FixationBlock"]; ok && ir.Desc(v) == "param#2" {
					c.OK("C16a/GetFixatedParamsForBlock/fallback-fixation=block", c.P.InstrPos(ret), "")
				} else if ir.Desc(RetVal(ret, 0)) != "nil" && !strings.Contains(ir.Desc(RetVal(ret, 0)), "FixatedParams)") {
					c.Fail("C16a/GetFixatedParamsForBlock/fallback-fixation=block", c.P.InstrPos(ret), "fallback value has FixationBlock "+trunc(ir.Desc(v), 60))
				}
				continue
			}
			nf++
			if ir.HasFact(ir.GuardFacts(ret), ".FixationBlock <= param#2)") && strings.Contains(ir.Desc(RetVal(ret, 0)), "GetFixatedParams)(") {
				c.OK("C16a/GetFixatedParamsForBlock/returned-version-not-later-than-block", c.P.InstrPos(ret), "so block − FixationBlock cannot wrap")
			} else {
				c.Fail("C16a/GetFixatedParamsForBlock/returned-version-not-later-than-block", c.P.InstrPos(ret), "a parameter version is returned without FixationBlock <= block: positions wrap around")
			}
		}
		if nf != 1 {
			c.Undecided("C16a: expected one error-free return in GetFixatedParamsForBlock, found %d", nf)
		}
		// the error of GetFixatedParamsForBlock stops BlockInEpoch before the subtraction
		c.RequireGuards("C16a", c.SuccessReturns(bie), "computed-position", ErrNil(esK+"GetFixatedParamsForBlock"))

		c.Rule("C16b one source: IsEpochStart is BlockInEpoch(current height) == 0; GetEpochStartForBlock is block − BlockInEpoch(block); BeginBlock calls EpochStart only under IsEpochStart and is its only caller")
		okIES := false
		for _, r := range c.AllReturns(ies) {
			d := ir.Desc(r.Instr.(*ssa.Return).Results[0])
			if d == "(call("+esK+"BlockInEpoch)(recv,param#0,conv<uint64>(call(github.com/cosmos/cosmos-sdk/types.Context.BlockHeight)(param#0)))#0 == const(0))" {
				okIES = true
			}
		}
		if okIES {
			c.OK("C16b/IsEpochStart/BlockInEpoch(current)==0", c.P.Pos(ies.Pos()), "")
		} else {
			c.Fail("C16b/IsEpochStart/BlockInEpoch(current)==0", c.P.Pos(ies.Pos()), "IsEpochStart is not BlockInEpoch(current height) == 0: epoch-start processing and reported epoch starts can disagree")
		}
		okGES := false
		for _, r := range c.AllReturns(ges) {
			d := ir.Desc(r.Instr.(*ssa.Return).Results[0])
			if d == "(param#1 - call("+esK+"BlockInEpoch)(recv,param#0,param#1)#0)" {
				okGES = true
			}
		}
		if okGES {
			c.OK("C16b/GetEpochStartForBlock/block−BlockInEpoch(block)", c.P.Pos(ges.Pos()), "position < epochBlocks <= block − fixation, so it cannot wrap")
		} else {
			c.Fail("C16b/GetEpochStartForBlock/block−BlockInEpoch(block)", c.P.Pos(ges.Pos()), "the epoch start of a block is not block − BlockInEpoch(block)")
		}
		c.RequireCallers("C16b", esK+"EpochStart", esK+"BeginBlock")
		c.RequireGuards("C16b", c.CallsIn(bb, eps, false), "EpochStart", CallIs(true, esK+"IsEpochStart"))

		c.Rule("C16c next: GetNextEpoch is GetEpochStartForBlock(block) + EpochBlocks(block) for the same block")
		okNext := false
		ir.EachInstr(gne, func(in ssa.Instruction) {
			call := ir.CallOf(in)
			if call == nil || ir.CalleeName(call) != "x/epochstorage/keeper.CalculateNextEpochBlock" {
				return
			}
			a, b := ir.Desc(call.Args[0]), ir.Desc(call.Args[1])
			if a == "call("+esK+"GetEpochStartForBlock)(recv,param#0,param#1)#0" && b == "call("+esK+"EpochBlocks)(recv,param#0,param#1)#0" {
				okNext = true
			}
		})
		if cn := c.Fn("x/epochstorage/keeper.CalculateNextEpochBlock"); cn != nil {
			for _, r := range c.AllReturns(cn) {
				if ir.Desc(r.Instr.(*ssa.Return).Results[0]) != "(param#0 + param#1)" {
					okNext = false
				}
			}
		}
		if okNext {
			c.OK("C16c/GetNextEpoch/start+length-of-same-block", c.P.Pos(gne.Pos()), "start + epochBlocks > block because block − start < epochBlocks")
		} else {
			c.Fail("C16c/GetNextEpoch/start+length-of-same-block", c.P.Pos(gne.Pos()), "the next epoch is not the epoch start of the block plus the epoch length in force at that block")
		}

		c.Rule("C16f derived boundaries: GetPreviousEpochStartForBlock resolves the previous epoch as GetEpochStartForBlock(epoch start of the block − 1), i.e. through the same source and the parameters in force there, not by subtracting the current epoch's length; GetCurrentNextEpoch uses the raw (un-fixated) epoch length only under EarliestStart == StartBlock and otherwise GetNextEpoch(current height)")
		if gp := c.Fn(esK + "GetPreviousEpochStartForBlock"); gp != nil {
			ok := false
			for _, r := range c.AllReturns(gp) {
				ret := r.Instr.(*ssa.Return)
				if ret.Block() == gp.Recover {
					continue
				}
				for _, lf := range phiLeaves(RetVal(ret, 0)) {
					d := ir.DescN(lf, 10)
					if d == "call("+esK+"GetEpochStartForBlock)(recv,param#0,(call("+esK+"GetEpochStartForBlock)(recv,param#0,param#1)#0 - const(1)))#0" {
						ok = true
					} else if d != "const(0)" {
						ok = false
						c.Fail("C16f/GetPreviousEpochStartForBlock/previous=start-of(start−1)", c.P.InstrPos(ret), "the previous epoch start is computed as "+trunc(d, 160)+": with a changed epoch length this is a block on which no epoch start ran")
					}
				}
			}
			if ok {
				c.OK("C16f/GetPreviousEpochStartForBlock/previous=start-of(start−1)", c.P.Pos(gp.Pos()), "")
			}
			c.RequireNoUnsignedWrap("C16f", esK+"GetPreviousEpochStartForBlock", 1)
		}
		if gc := c.Fn(esK + "GetCurrentNextEpoch"); gc != nil {
			nraw := 0
			ir.EachInstr(gc, func(in ssa.Instruction) {
				call := ir.CallOf(in)
				if call == nil || ir.CalleeName(call) != "x/epochstorage/keeper.CalculateNextEpochBlock" {
					return
				}
				nraw++
				if ir.HasFact(ir.GuardFacts(in), ".EarliestStart == ", ".StartBlock)") && strings.Contains(ir.Desc(call.Args[1]), "EpochBlocksRaw)(") {
					c.OK("C16f/GetCurrentNextEpoch/raw-length-only-in-genesis-epoch", c.P.InstrPos(in), "")
				} else {
					c.Fail("C16f/GetCurrentNextEpoch/raw-length-only-in-genesis-epoch", c.P.InstrPos(in), "the un-fixated epoch length is used outside EarliestStart == StartBlock: a pending parameter change moves the reported next epoch off the grid")
				}
			})
			okNext := false
			for _, s := range c.CallsByName(gc, false, esK+"GetNextEpoch") {
				if ir.Desc(ir.CallOf(s.Instr).Args[2]) == "conv<uint64>(call(github.com/cosmos/cosmos-sdk/types.Context.BlockHeight)(param#0))" {
					okNext = true
				}
			}
			if nraw == 1 && okNext {
				c.OK("C16f/GetCurrentNextEpoch/otherwise-GetNextEpoch(current)", c.P.Pos(gc.Pos()), "")
			} else {
				c.Fail("C16f/GetCurrentNextEpoch/otherwise-GetNextEpoch(current)", c.P.Pos(gc.Pos()), "the next epoch of the current block is not taken from GetNextEpoch(current height)")
			}
		}

		c.Rule("C16d epoch start processing order: EpochStart fixates parameters for the current block before it advances the earliest epoch; PushFixatedParams records the current block as the fixation block of the new version")
		fx := c.CallsByName(eps, false, esK+"FixateParams")
		up := c.CallsByName(eps, false, esK+"UpdateEarliestEpochstart")
		if len(fx) == 1 && len(up) == 1 && instrBefore(fx[0].Instr, up[0].Instr) && ir.Desc(ir.CallOf(fx[0].Instr).Args[2]) == "conv<uint64>(call(github.com/cosmos/cosmos-sdk/types.Context.BlockHeight)(param#0))" {
			c.OK("C16d/EpochStart/fixate-before-advancing-earliest", c.P.InstrPos(fx[0].Instr), "")
		} else {
			c.Fail("C16d/EpochStart/fixate-before-advancing-earliest", c.P.Pos(eps.Pos()), "parameters are not fixated for the current block before the earliest epoch is advanced")
		}
		okPush := false
		ir.EachInstr(pfp, func(in ssa.Instruction) {
			if a, ok := in.(*ssa.Alloc); ok && strings.HasSuffix(ir.TypeName(a.Type()), "FixatedParams") {
				if v, ok := structFieldStores(a)["FixationBlock"]; ok && ir.Desc(v) == "param#1" {
					okPush = true
				}
			}
		})
		if okPush {
			c.OK("C16d/PushFixatedParams/new-version-fixated-at-this-block", c.P.Pos(pfp.Pos()), "the epoch grid restarts at the epoch start where the change takes effect")
		} else {
			c.Fail("C16d/PushFixatedParams/new-version-fixated-at-this-block", c.P.Pos(pfp.Pos()), "the new parameter version is not fixated at the block it is pushed for")
		}

		c.Rule("C16e earliest epoch: UpdateEarliestEpochstart reads the window with BlocksToSave at the earliest epoch, returns when current <= window, and otherwise replaces the earliest epoch only by iterating GetNextEpoch from it while it is below current − window; SetEarliestEpochStart is called only there (and at genesis) with that loop's result")
		okWin := false
		for _, s := range c.CallsByName(ues, false, esK+"BlocksToSave") {
			if ir.Desc(ir.CallOf(s.Instr).Args[2]) == "call("+esK+"GetEarliestEpochStart)(recv,param#0)" {
				okWin = true
			}
		}
		if okWin {
			c.OK("C16e/UpdateEarliestEpochstart/window-in-force-at-earliest-epoch", c.P.Pos(ues.Pos()), "")
		} else {
			c.Fail("C16e/UpdateEarliestEpochstart/window-in-force-at-earliest-epoch", c.P.Pos(ues.Pos()), "the blocks-to-save window is not read for the earliest epoch")
		}
		c.RequireNoUnsignedWrap("C16e", esK+"UpdateEarliestEpochstart", 1)
		for _, s := range c.CallsByName(ues, false, esK+"SetEarliestEpochStart") {
			call := ir.CallOf(s.Instr)
			ok := false
			if phi, isPhi := call.Args[2].(*ssa.Phi); isPhi {
				ok = true
				for _, e := range phi.Edges {
					d := ir.Desc(e)
					if !(d == "call("+esK+"GetEarliestEpochStart)(recv,param#0)" || strings.HasPrefix(d, "call("+esK+"GetNextEpoch)(recv,param#0,phi") && strings.HasSuffix(d, "#0")) {
						ok = false
					}
				}
				// loop condition: earliest < current − window
				loop := innermostLoop(ues, phi.Block())
				if loop == nil || loop.Header != phi.Block() {
					ok = false
				} else if iff, isIf := phi.Block().Instrs[len(phi.Block().Instrs)-1].(*ssa.If); isIf {
					b, isBin := iff.Cond.(*ssa.BinOp)
					if !isBin || b.Op != token.LSS || b.X != ssa.Value(phi) || !strings.Contains(ir.Desc(b.Y), "BlocksToSave)(") {
						ok = false
					}
				} else {
					ok = false
				}
			}
			if ok {
				c.OK("C16e/UpdateEarliestEpochstart/advances-only-by-GetNextEpoch-while-older-than-window", c.P.InstrPos(s.Instr), "monotone: each step is a strictly later epoch start (C16c)")
			} else {
				c.Fail("C16e/UpdateEarliestEpochstart/advances-only-by-GetNextEpoch-while-older-than-window", c.P.InstrPos(s.Instr), "the new earliest epoch is "+trunc(ir.Desc(call.Args[2]), 120))
			}
		}
		if n := len(c.CallsByName(ues, false, esK+"SetEarliestEpochStart")); n != 1 {
			c.Undecided("C16e: expected one SetEarliestEpochStart call in UpdateEarliestEpochstart, found %d", n)
		}
		c.RequireCallers("C16e", esK+"SetEarliestEpochStart", esK+"UpdateEarliestEpochstart", esK+"InitGenesis", "x/epochstorage.InitGenesis", esK+"SetEpochDetailsStart")
		c.Rule("C16g fixation history is trimmed per key: inside PushFixatedParams the only clean-up is CleanOlderFixatedParams for the key of the iteration it was computed in (the cut index is a position in that key's list), under fixated block < limit; the all-keys clean-up CleanAllOlderFixatedParams is called only by FixateParams on its latest-change-older-than-memory branch — a cut index of one key applied to another deletes versions that blocks inside the memory window still map through")
		if pfp := c.Fn(esK + "PushFixatedParams"); pfp != nil {
			sites := c.CallsByName(pfp, false, esK+"CleanOlderFixatedParams")
			if len(sites) != 1 {
				c.Fail("C16g/PushFixatedParams/trims-only-the-pushed-key", c.P.Pos(pfp.Pos()), "expected one per-key CleanOlderFixatedParams call in PushFixatedParams, found "+itoa(len(sites)))
			}
			for _, s := range sites {
				a := ir.CallOf(s.Instr).Args
				keyOK := len(a) == 4 && strings.HasPrefix(ir.Desc(a[2]), "next(range(") && strings.Contains(ir.Desc(a[2]), ".fixationRegistries") && strings.HasSuffix(ir.Desc(a[2]), "#1")
				guardOK := ir.HasFact(ir.GuardFacts(s.Instr), ".FixationBlock < param#2)")
				if keyOK && guardOK {
					c.OK("C16g/PushFixatedParams/trims-only-the-pushed-key", c.P.InstrPos(s.Instr), "CleanOlderFixatedParams(ctx, this key, idx+1) under FixationBlock < limit")
				} else {
					c.Fail("C16g/PushFixatedParams/trims-only-the-pushed-key", c.P.InstrPos(s.Instr), "the clean-up in PushFixatedParams is not for the key being pushed under fixated block < limit: "+strings.Join(argDescs(ir.CallOf(s.Instr)), ", "))
				}
			}
		}
		// the pruning limit is the earliest epoch still kept in memory (which only moves by the window in
		// force at that epoch, C16e) — not a limit recomputed from the window in force now
		if fp := c.Fn(esK + "FixateParams"); fp != nil {
			sites := c.CallsByName(fp, false, esK+"PushFixatedParams")
			if len(sites) != 1 {
				c.Undecided("C16g: expected one PushFixatedParams call in FixateParams, found %d", len(sites))
			}
			for _, s := range sites {
				a := ir.CallOf(s.Instr).Args
				d := ir.Desc(a[len(a)-1])
				if d == "call("+esK+"GetEarliestEpochStart)(recv,param#0)" && len(fp.Params) == 3 && a[2] == ssa.Value(fp.Params[2]) {
					c.OK("C16g/FixateParams/prunes-below-the-earliest-kept-epoch", c.P.InstrPos(s.Instr), "PushFixatedParams(ctx, block, GetEarliestEpochStart(ctx))")
				} else {
					c.Fail("C16g/FixateParams/prunes-below-the-earliest-kept-epoch", c.P.InstrPos(s.Instr), "fixated versions are pruned below "+trunc(d, 100)+" instead of the earliest epoch start still kept: versions that blocks inside the kept window map through can be deleted")
				}
			}
		}
		c.RequireCallers("C16g", esK+"CleanAllOlderFixatedParams", esK+"FixateParams")
		c.RequireCallers("C16g", esK+"CleanOlderFixatedParams", esK+"PushFixatedParams", esK+"CleanAllOlderFixatedParams")
		c.NotCovered("the arithmetic over histories of changes (that grids of consecutive parameter versions meet at an epoch start); governance validation of new parameter values")
	})
}
