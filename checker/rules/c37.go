package rules

import (
	"go/ast"
	"sort"
	"strings"

	"golang.org/x/tools/go/callgraph/cha"
	"golang.org/x/tools/go/ssa"

	"lavaverif/checker/ir"
)

// c37Audited: explicit panic sites reachable from Begin/EndBlock that carry no
// `panic:ok` annotation, each confirmed by reading (function -> reason). A site that is
// not annotated and not listed here fails the check.
var c37Audited = map[string]string{
	"utils.NaturalBaseExponentFraction":                          "ApproxRoot fails only for a zero root; the sole caller (Reputation.calcDecayFactor) returns before the call when halfLifeFactor <= 0",
	"x/downtime/keeper.Keeper.GetLastBlockTime":                  "TimestampFromProto fails only for out-of-range timestamps; the value was written by SetLastBlockTime from a block time",
	"x/downtime/keeper.Keeper.SetLastBlockTime":                  "TimestampProto fails only for years outside [1, 9999]; the argument is the block time",
	"x/downtime/keeper.Keeper.unmarshalDuration":                 "DurationFromProto fails only on overflow of a duration this module serialised itself from a time.Duration",
	"x/dualstaking/keeper.Keeper.AfterDelegationModified":        "belief: every chain listed in the provider's metadata has a current stake entry (kept by the staking/unstaking paths checked under C07); reached from BeginBlock only through unstaking of frozen/jailed providers",
	"x/epochstorage/keeper.Keeper.GetCurrentNextEpoch":           "epoch details are written at genesis and at every epoch start; GetNextEpoch fails only when no fixated epoch length exists for the current block",
	"x/pairing/keeper.sortProviderScores$1":                      "Frac.Resolve fails only for a zero denominator; scores are built by the QoS code with positive denominators",
	"x/rewards/keeper.Keeper.MovePoolToPool":                     "moves the pool's own total balance read in the same call, so the bank transfer cannot fail for lack of funds",
	"x/rewards/keeper.Keeper.refillDistributionPool":             "sends balance/monthsLeft of the allocation pool's own balance read in the same call",
	"x/fixationstore/types.FixationStore.entryCallbackBeginBlock": "annotated panic:ok inside the call's argument list (below the call line)",
}

// c37AuditedCount: how many explicit panic sites of the function the audit covers; one
// more than that in the same function is a new, unaudited site.
func c37AuditedCount(fn string) int {
	switch fn {
	case "x/epochstorage/keeper.Keeper.GetCurrentNextEpoch", "x/pairing/keeper.sortProviderScores$1":
		return 2
	}
	return 1
}

func init() {
	register("C37", "other", func(c *Ctx) {
		c.Explain = "Block processing never halts the chain — structural part (explicit panics only): over the lava functions reachable (class-hierarchy call graph, function values included) from the BeginBlock/EndBlock methods of the x/ modules, every explicit panic — a panic statement or a call to utils.LavaFormatPanic — is either annotated with the repository's own `panic:ok` convention (a comment on the lines just above it stating why it cannot fire or why halting is intended), or is in the audited table of this checker with its reason; a new reachable explicit panic without annotation fails. Implicit panics (nil dereference, index, division, SDK Must* helpers) and the truth of each annotation are not decided."
		cg := cha.CallGraph(c.P.Prog)
		lava := map[*ssa.Function]bool{}
		for _, f := range c.P.AllFuncs {
			lava[f] = true
		}
		var roots []*ssa.Function
		for _, f := range c.P.AllFuncs {
			n := ir.FuncName(f)
			if f.Parent() == nil && strings.HasPrefix(n, "x/") && strings.Contains(n, ".AppModule.") && (strings.HasSuffix(n, ".BeginBlock") || strings.HasSuffix(n, ".EndBlock")) {
				roots = append(roots, f)
			}
		}
		sort.Slice(roots, func(i, j int) bool { return ir.FuncName(roots[i]) < ir.FuncName(roots[j]) })
		if len(roots) < 10 {
			c.Undecided("C37: expected >=10 BeginBlock/EndBlock roots, found %d", len(roots))
		}
		reach := map[*ssa.Function]string{}
		for _, r := range roots {
			work := []*ssa.Function{r}
			for len(work) > 0 {
				f := work[len(work)-1]
				work = work[:len(work)-1]
				if _, ok := reach[f]; ok {
					continue
				}
				reach[f] = ir.FuncName(r)
				work = append(work, f.AnonFuncs...)
				node := cg.Nodes[f]
				if node == nil {
					continue
				}
				for _, e := range node.Out {
					callee := e.Callee.Func
					if !lava[callee] && !(callee.Origin() != nil && lava[callee.Origin()]) {
						continue
					}
					if !consensusScope(callee) {
						continue
					}
					work = append(work, callee)
				}
			}
		}
		c.Rule("C37a roots and reach: the BeginBlock/EndBlock methods of every x/ module's AppModule; callees resolved by class hierarchy (interface methods and function values), restricted to consensus code")
		c.OK("C37a/roots", "-", itoa(len(roots))+" roots, "+itoa(len(reach))+" reachable lava functions")
		if len(reach) < 300 {
			c.Undecided("C37: only %d functions reachable from block processing; the call graph is incomplete", len(reach))
		}

		// panic:ok comment lines per file
		okLines := map[string]map[int]bool{}
		for _, pkg := range c.P.Pkgs {
			for _, file := range pkg.Syntax {
				fname := c.P.Fset.Position(file.Pos()).Filename
				for _, cgp := range file.Comments {
					for _, cm := range cgp.List {
						if strings.Contains(cm.Text, "panic:ok") {
							if okLines[fname] == nil {
								okLines[fname] = map[int]bool{}
							}
							// the annotation covers the comment group's lines
							from := c.P.Fset.Position(cgp.Pos()).Line
							to := c.P.Fset.Position(cgp.End()).Line
							for l := from; l <= to; l++ {
								okLines[fname][l] = true
							}
						}
					}
				}
				_ = ast.Node(file)
			}
		}
		annotated := func(in ssa.Instruction) bool {
			pos := in.Pos()
			if !pos.IsValid() {
				return false
			}
			p := c.P.Fset.Position(pos)
			for l := p.Line; l >= p.Line-8 && l > 0; l-- {
				if okLines[p.Filename][l] {
					return true
				}
			}
			return false
		}

		c.Rule("C37b every reachable explicit panic (panic statement, utils.LavaFormatPanic) is `panic:ok`-annotated within the eight lines above it, or listed in the checker's audited table")
		type site struct {
			fn   string
			in   ssa.Instruction
			what string
		}
		var sites []site
		var fns []*ssa.Function
		for f := range reach {
			fns = append(fns, f)
		}
		sort.Slice(fns, func(i, j int) bool { return ir.FuncName(fns[i]) < ir.FuncName(fns[j]) })
		for _, f := range fns {
			for _, b := range f.Blocks {
				if b == f.Recover {
					continue
				}
				for _, in := range b.Instrs {
					switch x := in.(type) {
					case *ssa.Panic:
						if !x.Pos().IsValid() {
							continue // compiler-generated (e.g. failed type assertion re-panic)
						}
						sites = append(sites, site{ir.FuncName(f), in, "panic"})
					default:
						if call := ir.CallOf(in); call != nil && ir.CalleeName(call) == "utils.LavaFormatPanic" {
							sites = append(sites, site{ir.FuncName(f), in, "LavaFormatPanic"})
						}
					}
				}
			}
		}
		perFn := map[string]int{}
		nAnn, nAud, nStore := 0, 0, 0
		for _, s := range sites {
			perFn[s.fn]++
			key := "C37b/" + s.fn + "/" + s.what + "#" + itoa(perFn[s.fn])
			switch {
			case annotated(s.in):
				nAnn++
				c.OK(key, c.P.InstrPos(s.in), "panic:ok annotated")
			case ir.HasFact(ir.GuardFacts(s.in), "cosmossdk.io/collections", " != nil)"):
				nStore++
				c.OK(key, c.P.InstrPos(s.in), "fires only on an error returned by the SDK collections layer (encoding/IO of a typed key or value), not on chain state")
			case c37Audited[s.fn] != "" && perFn[s.fn] <= c37AuditedCount(s.fn):
				nAud++
				c.Audit(key, c.P.InstrPos(s.in), c37Audited[s.fn])
			default:
				c.Fail(key, c.P.InstrPos(s.in), "explicit "+s.what+" reachable from block processing ("+reach[s.in.Parent()]+") without a panic:ok annotation: any state that reaches it halts the chain")
			}
		}
		if len(sites) < 20 {
			c.Undecided("C37: only %d explicit panic sites found under block processing, expected >=20 (frozen count)", len(sites))
		}
		c.Note("C37/summary", "-", itoa(len(sites))+" explicit panic sites reachable: "+itoa(nAnn)+" annotated panic:ok, "+itoa(nStore)+" on collections-layer errors, "+itoa(nAud)+" audited here")
		c37Divisions(c, fns, reach)
		c.NotCovered("implicit panics (nil dereference, out-of-range index, integer division by zero, failed type assertions, SDK Must*/collections panics on store errors); whether each panic:ok justification is true for all reachable states; unsigned wrap feeding a panic (C04/C18/E5 rules cover the known sites)")
	})
}
