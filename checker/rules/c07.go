package rules

import (
	"strings"

	"golang.org/x/tools/go/ssa"

	"lavaverif/checker/ir"
)

const (
	ek      = "x/epochstorage/keeper."
	setCur  = "invoke:x/pairing/types.EpochstorageKeeper.SetStakeEntryCurrent"
	rmCur   = "invoke:x/pairing/types.EpochstorageKeeper.RemoveStakeEntryCurrent"
	getCur  = "invoke:x/pairing/types.EpochstorageKeeper.GetStakeEntryCurrent"
	dsAfter = "invoke:x/pairing/types.DualstakingKeeper.AfterDelegationModified"
	dsDel   = "invoke:x/pairing/types.DualstakingKeeper.DelegateFull"
	dsUnb   = "invoke:x/pairing/types.DualstakingKeeper.UnbondFull"
)

func init() {
	register("C07", "other", func(c *Ctx) {
		c.Explain = "Provider stake entries and metadata stay consistent — structural part: the entry and metadata stores are written only through their accessors; removing an entry always updates (or removes) the metadata; every transaction function that changes an entry's stake, or removes an entry, afterwards reaches the redistribution (dualstaking AfterDelegationModified, directly or through DelegateFull/UnbondFull) on every success path and does not write a pre-redistribution copy of an entry back over its result; the redistribution assigns every entry its stake-proportional share and takes the freeze decision on the updated total; vault (un)delegations are split with the remainder-preserving idiom."
		c.Rule("C07a who-may-write: stakeEntriesCurrent is written only by SetStakeEntryCurrent/RemoveStakeEntryCurrent, providersMetaData only by SetMetadata/RemoveMetadata")
		allow := map[string][]string{
			".stakeEntriesCurrent": {ek + "Keeper.SetStakeEntryCurrent", ek + "Keeper.RemoveStakeEntryCurrent"},
			".providersMetaData":   {ek + "Keeper.SetMetadata", ek + "Keeper.RemoveMetadata"},
		}
		nw := 0
		for _, f := range c.P.AllFuncs {
			if !inProd(f) {
				continue
			}
			for _, s := range c.CallsByName(f, false, "cosmossdk.io/collections.IndexedMap.Set", "cosmossdk.io/collections.IndexedMap.Remove") {
				d := ir.Desc(ir.CallOf(s.Instr).Args[0])
				for suffix, fns := range allow {
					if !strings.HasSuffix(d, suffix) {
						continue
					}
					nw++
					n := topName(s.Fn)
					key := "C07a/" + suffix[1:] + "/writer=" + n
					if nameIn(n, fns) {
						c.OK(key, c.P.InstrPos(s.Instr), "accessor")
					} else {
						c.Fail(key, c.P.InstrPos(s.Instr), "store written outside its accessors")
					}
				}
			}
		}
		if nw < 4 {
			c.Undecided("expected >=4 writes to the current-entry / metadata collections, found %d", nw)
		}

		c.Rule("C07b metadata follows entries: RemoveStakeEntryCurrent, after removing the entry, reaches SetMetadata or RemoveMetadata on every returning path; RemoveMetadata only under len(Chains)==0; StakeNewEntry is the only function that adds a chain to metadata")
		if rm := c.Fn(ek + "Keeper.RemoveStakeEntryCurrent"); rm != nil {
			r := c.MustPass(rm, nil, IsCallTo(ek+"Keeper.SetMetadata", ek+"Keeper.RemoveMetadata"), nil)
			if r.OK {
				c.OK("C07b/RemoveStakeEntryCurrent/must-pass=metadata-update", c.P.Pos(rm.Pos()), "all returning paths")
			} else {
				c.Fail("C07b/RemoveStakeEntryCurrent/must-pass=metadata-update", c.P.Pos(rm.Pos()), "an entry can be removed while the metadata keeps listing its chain: "+r.Witness)
			}
			c.RequireGuards("C07b", c.CallsByName(rm, false, ek+"Keeper.RemoveMetadata"), "RemoveMetadata", FactHas("no-chains-left", "call(builtin:len)(", ".Chains", "== const(0))"))
			c.RequireGuards("C07b", c.CallsByName(rm, false, ek+"Keeper.SetMetadata"), "SetMetadata", FactHas("chains-left", "call(builtin:len)(", ".Chains", "!= const(0))"))
		}
		c.RequireCallers("C07b", ek+"Keeper.RemoveMetadata", ek+"Keeper.RemoveStakeEntryCurrent", ek+"Migrator.MigrateVersion8To9")

		c.Rule("C07c stake-change => redistribute: in the pairing keeper, after every SetStakeEntryCurrent/RemoveStakeEntryCurrent in a function that assigns an entry's Stake or removes an entry, every success path reaches the redistribution (AfterDelegationModified / DelegateFull / UnbondFull); exception (machine-checked): the modify path of StakeNewEntry when the stake is neither greater nor smaller than before")
		redis := IsCallTo(dsAfter, dsDel, dsUnb)
		type target struct{ fn string }
		for _, t := range []string{pk + "Keeper.StakeNewEntry", pk + "Keeper.UnstakeEntry", pk + "Keeper.MoveProviderStake"} {
			fn := c.Fn(t)
			if fn == nil {
				continue
			}
			changes := false
			for _, f := range ir.WithClosures(fn) {
				ir.EachInstr(f, func(in ssa.Instruction) {
					if st, ok := in.(*ssa.Store); ok {
						if fa, ok := st.Addr.(*ssa.FieldAddr); ok && ir.FieldKey(fa) == "x/epochstorage/types.StakeEntry.Stake" {
							changes = true
						}
					}
				})
			}
			if len(c.CallsByName(fn, true, rmCur)) > 0 {
				changes = true
			}
			if !changes {
				c.Undecided("%s no longer changes a stake (rule C07c has no instance there)", t)
				continue
			}
			sites := append(c.CallsByName(fn, false, setCur), c.CallsByName(fn, false, rmCur)...)
			for _, s := range sites {
				// success returns reachable from this write without redistribution
				exit := func(r *ssa.Return) bool { return !IsFailureReturn(r) }
				var infeasible func(iff *ssa.If, edge bool) bool
				if t == pk+"Keeper.UnstakeEntry" {
					// the provider's metadata is removed together with its last entry: when
					// GetMetadata fails after the removal there is no entry left to redistribute to
					infeasible = func(iff *ssa.If, edge bool) bool {
						return ErrNonNil("invoke:x/pairing/types.EpochstorageKeeper.GetMetadata").Match(ir.Guard{If: iff, Edge: edge})
					}
				}
				r := c.MustPassOpt(fn, s.Instr, redis, exit, infeasible)
				key := "C07c/" + t + "/write@" + lineOf(c.P.InstrPos(s.Instr)) + "-then-redistribute"
				key = "C07c/" + t + "/" + shortNames([]string{ir.CalleeName(ir.CallOf(s.Instr))}) + "(" + trunc(ir.DescN(lastArg(s.Instr), 2), 60) + ")-then-redistribute"
				if r.OK {
					c.OK(key, c.P.InstrPos(s.Instr), "every success path reaches the redistribution")
					continue
				}
				// a write that follows the redistribution is fine when it stores the entry as
				// re-read after the redistribution, with its Stake untouched (e.g. un-freeze)
				if rereadAfterRedistribution(c, fn, s.Instr, redis) {
					c.OK(key, c.P.InstrPos(s.Instr), "stores the entry re-read after the redistribution (stake not modified): delegate totals are those just computed")
					continue
				}
				// audited: unchanged-stake path of StakeNewEntry
				if t == pk+"Keeper.StakeNewEntry" && unchangedStakePath(s.Instr) {
					c.Audit(key, c.P.InstrPos(s.Instr), "only the path with increase==false && decrease==false (stake equal to the previous stake) skips the redistribution: "+r.Witness)
					continue
				}
				c.Fail(key, c.P.InstrPos(s.Instr), "an entry's stake is written (or an entry removed) and a success path returns without redistributing the delegations: delegate totals keep the old proportions — "+r.Witness)
			}
		}

		c.Rule("C07d redistribution: in AfterDelegationModified every entry's DelegateTotal is assigned TotalDelegations*Stake/TotalSelf before the entry is stored, the freeze decision reads TotalStake() after that assignment and compares with the spec minimum, and every loaded entry is stored back")
		if adm := c.Fn(dk + "Keeper.AfterDelegationModified"); adm != nil {
			var dtStore *ssa.Store
			ir.EachInstr(adm, func(in ssa.Instruction) {
				if st, ok := in.(*ssa.Store); ok {
					if fa, ok := st.Addr.(*ssa.FieldAddr); ok && ir.FieldKey(fa) == "x/epochstorage/types.StakeEntry.DelegateTotal" {
						dtStore = st
					}
				}
			})
			if dtStore == nil {
				c.Fail("C07d/AfterDelegationModified/assigns-DelegateTotal", c.P.Pos(adm.Pos()), "DelegateTotal is never assigned")
			} else {
				d := ir.Desc(dtStore.Val)
				if strings.Contains(d, "call(cosmossdk.io/math.Int.Quo)(call(cosmossdk.io/math.Int.Mul)(") && strings.Contains(d, ".TotalDelegations.Amount") && strings.Contains(d, ".Stake.Amount") {
					c.OK("C07d/AfterDelegationModified/DelegateTotal=share", c.P.InstrPos(dtStore), "TotalDelegations*Stake/TotalSelf")
				} else {
					c.Fail("C07d/AfterDelegationModified/DelegateTotal=share", c.P.InstrPos(dtStore), "DelegateTotal is not the stake-proportional share: "+trunc(d, 240))
				}
				// freeze decision after the assignment
				for _, fz := range c.CallsByName(adm, false, "x/epochstorage/types.StakeEntry.Freeze") {
					okOrder := false
					for _, g := range ir.Guards(fz.Instr) {
						call, _ := callOfValue(stripNotV(g.If.Cond))
						if call == nil || ir.CalleeName(&call.Call) != "cosmossdk.io/math.Int.LT" {
							continue
						}
						ts, _ := callOfValue(call.Call.Args[0])
						if ts == nil || ir.CalleeName(&ts.Call) != "x/epochstorage/types.StakeEntry.TotalStake" {
							continue
						}
						if !strings.Contains(ir.Desc(call.Call.Args[1]), "SpecKeeper.GetMinStake)") {
							continue
						}
						if instrBefore(dtStore, ts) {
							okOrder = true
						}
					}
					if okOrder {
						c.OK("C07d/AfterDelegationModified/freeze-on-updated-total", c.P.InstrPos(fz.Instr), "TotalStake() is read after DelegateTotal was assigned and compared with the spec minimum stake")
					} else {
						c.Fail("C07d/AfterDelegationModified/freeze-on-updated-total", c.P.InstrPos(fz.Instr), "the freeze decision does not use the entry's total stake as updated by this redistribution (read before DelegateTotal is assigned, or not compared with the spec minimum)")
					}
				}
				sets := c.CallsByName(adm, false, "invoke:x/dualstaking/types.EpochstorageKeeper.SetStakeEntryCurrent")
				if len(sets) == 1 && instrBefore(dtStore, sets[0].Instr) {
					c.OK("C07d/AfterDelegationModified/stores-updated-entry", c.P.InstrPos(sets[0].Instr), "entry stored after DelegateTotal assignment")
				} else {
					c.Fail("C07d/AfterDelegationModified/stores-updated-entry", c.P.Pos(adm.Pos()), "updated entries are not stored back after the assignment")
				}
			}
			// remainder-preserving split of vault (un)delegations
			c.Rule("C07e split: a vault (un)delegation made through the dualstaking transaction is split over the provider's entries by part = remaining/remainingCount with both loop-carried (remaining -= part, count--), so the parts sum to the amount (same idiom in UnstakeEntry's redistribution of a removed entry's stake)")
			for _, fnn := range []string{dk + "Keeper.AfterDelegationModified", pk + "Keeper.UnstakeEntry"} {
				f := c.Fn(fnn)
				if f == nil {
					continue
				}
				n := 0
				ir.EachInstr(f, func(in ssa.Instruction) {
					call, ok := in.(*ssa.Call)
					if !ok || ir.CalleeName(&call.Call) != "cosmossdk.io/math.Int.QuoRaw" {
						return
					}
					n++
					tot, isPhiT := call.Call.Args[0].(*ssa.Phi)
					cnt, isPhiC := call.Call.Args[1].(*ssa.Phi)
					good := false
					if isPhiT && isPhiC {
						tOK, cOK := false, false
						for _, e := range tot.Edges {
							if sub, _ := callOfValue(e); sub != nil && ir.CalleeName(&sub.Call) == "cosmossdk.io/math.Int.Sub" && sub.Call.Args[0] == tot && sub.Call.Args[1] == call {
								tOK = true
							}
						}
						for _, e := range cnt.Edges {
							if b, ok := e.(*ssa.BinOp); ok && b.X == cnt && ir.Desc(b.Y) == "const(1)" && b.Op.String() == "-" {
								cOK = true
							}
						}
						good = tOK && cOK
					}
					key := "C07e/" + fnn + "/remainder-preserving-split"
					if good {
						c.OK(key, c.P.InstrPos(in), "part = remaining/count; remaining -= part; count--")
					} else {
						c.Fail(key, c.P.InstrPos(in), "the amount is divided once instead of by the remaining amount and count: the division remainder is lost and the entries' stakes no longer sum to the vault's delegation")
					}
				})
				if n == 0 {
					c.Undecided("%s: no QuoRaw split found", fnn)
				}
			}
		}
		c.NotCovered("the sums themselves (self stake == vault delegation, TotalDelegations == sum of non-vault delegations); floor rounding of shares")
	})
}

// rereadAfterRedistribution: the entry written by `write` comes from a GetStakeEntryCurrent
// call that executes after a redistribution call on every path, and its Stake field is
// not assigned in this function.
func rereadAfterRedistribution(c *Ctx, fn *ssa.Function, write ssa.Instruction, redis func(ssa.Instruction) bool) bool {
	v := lastArg(write)
	ld, ok := v.(*ssa.UnOp)
	if !ok {
		return false
	}
	a, ok := ld.X.(*ssa.Alloc)
	if !ok {
		return false
	}
	refs := a.Referrers()
	if refs == nil {
		return false
	}
	var src *ssa.Call
	for _, r := range *refs {
		switch x := r.(type) {
		case *ssa.Store:
			if x.Addr != a {
				continue
			}
			call, _ := callOfValue(x.Val)
			if call == nil || ir.CalleeName(&call.Call) != getCur || src != nil {
				return false
			}
			src = call
		case *ssa.FieldAddr:
			if ir.FieldKey(x) == "x/epochstorage/types.StakeEntry.Stake" && addrWrittenLocal(x) {
				return false
			}
		}
	}
	if src == nil {
		return false
	}
	// some redistribution call precedes the re-read on every path
	found := false
	ir.EachInstr(fn, func(in ssa.Instruction) {
		if redis(in) && instrBefore(in, src) {
			found = true
		}
	})
	return found
}

func addrWrittenLocal(v ssa.Value) bool {
	refs := v.Referrers()
	if refs == nil {
		return false
	}
	for _, r := range *refs {
		if st, ok := r.(*ssa.Store); ok && st.Addr == v {
			return true
		}
	}
	return false
}

func lineOf(pos string) string {
	if i := strings.LastIndex(pos, ":"); i >= 0 {
		return pos[i+1:]
	}
	return pos
}

func lastArg(in ssa.Instruction) ssa.Value {
	a := ir.CallOf(in).Args
	return a[len(a)-1]
}

func stripNotV(v ssa.Value) ssa.Value {
	v, _ = stripNot(v, true)
	return v
}

// instrBefore: a executes before b on every path to b (same block earlier, or a's block
// strictly dominates b's).
func instrBefore(a, b ssa.Instruction) bool {
	if a.Block() == b.Block() {
		for _, in := range a.Block().Instrs {
			if in == a {
				return true
			}
			if in == b {
				return false
			}
		}
	}
	return a.Block().Dominates(b.Block())
}

// unchangedStakePath: the write is followed by `if increase {…} else if decrease {…}` where
// both flags are Int.GT / Int.LT comparisons of the new amount with the previous stake;
// the only redistribution-free continuation is the path on which both are false.
func unchangedStakePath(write ssa.Instruction) bool {
	fn := write.Parent()
	gt, lt := false, false
	ir.EachInstr(fn, func(in ssa.Instruction) {
		call, ok := in.(*ssa.Call)
		if !ok {
			return
		}
		n := ir.CalleeName(&call.Call)
		d := ir.Desc(call)
		if !strings.Contains(d, ".Stake.Amount") {
			return
		}
		if n == "cosmossdk.io/math.Int.GT" && instrBefore(call, write) {
			gt = true
		}
		if n == "cosmossdk.io/math.Int.LT" && instrBefore(call, write) {
			lt = true
		}
	})
	if !gt || !lt {
		return false
	}
	// every redistribution-free success path from the write takes the false outcome of both flags
	ok := true
	blocked := func(iff *ssa.If, edge bool) bool {
		call, _ := callOfValue(stripNotV(iff.Cond))
		if call == nil {
			return false
		}
		n := ir.CalleeName(&call.Call)
		if n == "cosmossdk.io/math.Int.LT" && strings.Contains(ir.Desc(call), ".Stake.Amount") {
			_, e := stripNot(iff.Cond, edge)
			return !e // forbid `decrease == false`; it is only tested after `increase == false`
		}
		return false
	}
	// re-run the path search with the (increase==false, decrease==false) outcome removed
	res := mustPassPlain(fn, write, IsCallTo(dsAfter, dsDel, dsUnb), func(r *ssa.Return) bool { return !IsFailureReturn(r) }, blocked)
	if !res {
		ok = false
	}
	return ok
}

// mustPassPlain is MustPassOpt without witness bookkeeping (usable without a Ctx).
func mustPassPlain(fn *ssa.Function, from ssa.Instruction, through func(ssa.Instruction) bool, isExit func(*ssa.Return) bool, infeasible func(*ssa.If, bool) bool) bool {
	type item struct {
		b    *ssa.BasicBlock
		from int
	}
	start := item{from.Block(), 0}
	for i, in := range from.Block().Instrs {
		if in == from {
			start.from = i + 1
		}
	}
	seen := map[*ssa.BasicBlock]bool{}
	work := []item{start}
	first := true
	for len(work) > 0 {
		it := work[len(work)-1]
		work = work[:len(work)-1]
		if !first && seen[it.b] {
			continue
		}
		if !first {
			seen[it.b] = true
		}
		first = false
		passed := false
		for i := it.from; i < len(it.b.Instrs); i++ {
			in := it.b.Instrs[i]
			if through(in) {
				passed = true
				break
			}
			if r, ok := in.(*ssa.Return); ok && it.b != fn.Recover && (isExit == nil || isExit(r)) {
				return false
			}
		}
		if passed {
			continue
		}
		for si, s := range it.b.Succs {
			if infeasible != nil && len(it.b.Succs) == 2 {
				if iff, ok := it.b.Instrs[len(it.b.Instrs)-1].(*ssa.If); ok && infeasible(iff, si == 0) {
					continue
				}
			}
			work = append(work, item{s, 0})
		}
	}
	return true
}
