package rules

import (
	"strings"

	"golang.org/x/tools/go/ssa"

	"lavaverif/checker/ir"
)

const rwK = "protocol/rpcprovider/rewardserver."

func init() {
	register("C29", "other", func(c *Ctx) {
		c.Explain = "Provider reward proofs keep the best proof and are claimed in window — structural part: the in-memory reward maps are touched only with the reward server's mutex held; an already stored proof is overwritten only past the false outcome of stored.CuSum >= new.CuSum; proofs are gathered for claiming only for epochs that are neither older than chain memory nor still active, and a consumer's proofs leave the map when gathered (claimed once from memory); failed claims are retried only below the retry bound and removed at the bound; the window subtraction cannot wrap."
		save := c.Fn(rwK + "RewardServer.saveProofInMemory")
		gather := c.Fn(rwK + "RewardServer.gatherRewardsForClaim")
		upd := c.Fn(rwK + "RewardServer.updatePaymentRequestAttempt")
		if save == nil || gather == nil || upd == nil {
			return
		}
		c.Rule("C29a guarded-by: every function of the reward server that reads or writes rws.rewards or rws.failedRewardsPaymentRequests takes rws.lock (Lock or RLock) before the access on every path (constructor excepted)")
		for _, fld := range []string{"rewards", "failedRewardsPaymentRequests"} {
			uses := c.FieldAddrUses(rwK + "RewardServer." + fld)
			if len(uses) < 3 {
				c.Undecided("expected >=3 uses of RewardServer.%s, found %d", fld, len(uses))
			}
			perFn := map[string]bool{}
			for _, fa := range uses {
				fn := fa.Parent()
				tn := topName(fn)
				if tn == rwK+"NewRewardServer" {
					continue
				}
				locked := c.mustPassBefore(fn, fa, func(in ssa.Instruction) bool {
					call := ir.CallOf(in)
					if call == nil {
						return false
					}
					if _, isDefer := in.(*ssa.Defer); isDefer {
						return false
					}
					n := ir.CalleeName(call)
					return (n == "sync.RWMutex.Lock" || n == "sync.RWMutex.RLock") && strings.HasSuffix(ir.Desc(call.Args[0]), ".lock")
				})
				key := "C29a/RewardServer." + fld + "/accessed-under-lock-in=" + ir.FuncName(fn)
				if perFn[key] {
					continue
				}
				perFn[key] = true
				isLock := func(in ssa.Instruction) bool {
					call := ir.CallOf(in)
					if call == nil {
						return false
					}
					if _, isDefer := in.(*ssa.Defer); isDefer {
						return false
					}
					n := ir.CalleeName(call)
					return (n == "sync.RWMutex.Lock" || n == "sync.RWMutex.RLock") && strings.HasSuffix(ir.Desc(call.Args[0]), ".lock")
				}
				if !locked {
					// lock held by every caller? (helper documented as "call with the lock held")
					top := fn
					for top.Parent() != nil {
						top = top.Parent()
					}
					refs := c.References(top)
					all := len(refs) > 0
					for _, r := range refs {
						if !c.mustPassBefore(r.Fn, r.Instr, isLock) {
							all = false
						}
					}
					if all {
						c.OK(key, c.P.InstrPos(fa), "every caller holds rws.lock at the call site")
						continue
					}
				}
				if locked {
					c.OK(key, c.P.InstrPos(fa), "rws.lock taken earlier on every path")
				} else {
					c.Fail(key, c.P.InstrPos(fa), "the reward map is accessed without the reward server's mutex: concurrent SendNewProof / claim iterations race (a better proof can be lost)")
				}
			}
		}

		c.Rule("C29b best proof: in saveProofInMemory the overwrite of an existing proof for a session is dominated by the false outcome of stored.CuSum >= proof.CuSum; first proofs are inserted on the not-found outcomes; the function returns the stored CU without overwriting otherwise")
		var updates []Site
		ir.EachInstr(save, func(in ssa.Instruction) {
			if mu, ok := in.(*ssa.MapUpdate); ok && strings.HasSuffix(ir.Desc(mu.Map), ".proofs") {
				updates = append(updates, Site{Fn: save, Instr: in})
			}
		})
		if len(updates) != 2 {
			c.Fail("C29b/saveProofInMemory/proof-updates", c.P.Pos(save.Pos()), "expected two stores into an existing consumer's proofs map (new session / better proof), found "+itoa(len(updates)))
		}
		nGuarded, nFirst := 0, 0
		for _, u := range updates {
			facts := ir.GuardFacts(u.Instr)
			better, notFound := false, false
			for _, f := range facts {
				x, op, y, ok := splitCmp(f)
				if ok && op == "<" && strings.HasSuffix(x, ".CuSum") && y == "param#2.CuSum" {
					better = true
				}
				if strings.HasPrefix(f, "!") && strings.Contains(f, ".proofs[param#2.SessionId]#1") {
					notFound = true
				}
			}
			switch {
			case better:
				nGuarded++
				c.OK("C29b/saveProofInMemory/overwrite-only-if-better", c.P.InstrPos(u.Instr), "stored.CuSum < proof.CuSum")
			case notFound:
				nFirst++
				c.OK("C29b/saveProofInMemory/insert-first-proof", c.P.InstrPos(u.Instr), "no proof stored yet for this session")
			default:
				c.Fail("C29b/saveProofInMemory/overwrite-only-if-better", c.P.InstrPos(u.Instr), "a stored proof can be replaced by one with a lower or equal cumulative CU (arrival order decides what is claimed)")
			}
		}
		if len(updates) == 2 && (nGuarded != 1 || nFirst != 1) {
			c.Fail("C29b/saveProofInMemory/one-insert-one-guarded-overwrite", c.P.Pos(save.Pos()), "expected one first-insert and one guarded overwrite")
		}
		// the proof stored is the one given
		for _, u := range updates {
			mu := u.Instr.(*ssa.MapUpdate)
			if ir.Desc(mu.Key) == "param#2.SessionId" && ir.Desc(mu.Value) == "param#2" {
				c.OK("C29b/saveProofInMemory/stores-given-proof-under-its-session", c.P.InstrPos(u.Instr), "proofs[proof.SessionId] = proof")
			} else {
				c.Fail("C29b/saveProofInMemory/stores-given-proof-under-its-session", c.P.InstrPos(u.Instr), ir.Desc(mu.Key)+" := "+ir.Desc(mu.Value))
			}
		}

		c.Rule("C29c window: gatherRewardsForClaim prepares a consumer's proofs for claiming only past the false outcome of epoch < earliestSavedEpoch and the false outcome of IsEpochValidForUse(epoch, currentEpoch - validityDistance); the consumer's entry is deleted from the epoch's map in the same iteration; too-old epochs are dropped; currentEpoch - validityDistance cannot wrap")
		prep := c.CallsByName(gather, false, rwK+"ConsumerRewards.PrepareRewardsForClaim")
		if len(prep) != 1 {
			c.Fail("C29c/gatherRewardsForClaim/one-prepare-site", c.P.Pos(gather.Pos()), "expected one PrepareRewardsForClaim call")
		}
		c.RequireGuards("C29c", prep, "PrepareRewardsForClaim",
			FactHas("not-too-old", "param#2 <= ", "next(range("),
			CallIs(false, "protocol/lavasession.IsEpochValidForUse"),
		)
		for _, s := range c.CallsByName(gather, false, "protocol/lavasession.IsEpochValidForUse") {
			a := argDescs(ir.CallOf(s.Instr))
			if strings.Contains(a[0], "next(range(") && strings.Contains(a[1], "param#1") && strings.Contains(a[1], " - ") {
				c.OK("C29c/gatherRewardsForClaim/active-window=current-distance", c.P.InstrPos(s.Instr), a[1])
			} else {
				c.Fail("C29c/gatherRewardsForClaim/active-window=current-distance", c.P.InstrPos(s.Instr), strings.Join(a, ","))
			}
		}
		// claimed => removed from memory in the same iteration
		for _, p := range prep {
			r := c.MustPassOpt(gather, p.Instr, func(in ssa.Instruction) bool {
				call := ir.CallOf(in)
				return call != nil && ir.CalleeName(call) == "builtin:delete" && strings.HasSuffix(ir.Desc(call.Args[0]), ".consumerRewards")
			}, nil, func(iff *ssa.If, edge bool) bool {
				return ErrNonNil(rwK + "ConsumerRewards.PrepareRewardsForClaim").Match(ir.Guard{If: iff, Edge: edge})
			})
			// the search runs to function returns; accept if the delete is in the same block chain before the loop continues
			okDel := false
			for _, in := range successorsUntilHeader(gather, p.Instr) {
				if call := ir.CallOf(in); call != nil && ir.CalleeName(call) == "builtin:delete" && strings.HasSuffix(ir.Desc(call.Args[0]), ".consumerRewards") {
					okDel = true
				}
			}
			if okDel || r.OK {
				c.OK("C29c/gatherRewardsForClaim/claimed=>removed-from-memory", c.P.InstrPos(p.Instr), "delete(epochRewards.consumerRewards, consumer) follows in the same iteration")
			} else {
				c.Fail("C29c/gatherRewardsForClaim/claimed=>removed-from-memory", c.P.InstrPos(p.Instr), "proofs handed to a claim stay in memory: they are claimed again at the next epoch")
			}
		}
		c.RequireNoUnsignedWrap("C29c", rwK+"RewardServer.gatherRewardsForClaim", 1)

		c.Rule("C29d retries: updatePaymentRequestAttempt removes a session after a successful claim, counts failed attempts, and deletes the session (memory and DB) once attempts >= MaxPaymentRequestsRetiresForSession; gatherFailedRequestPaymentsToRetry drops sessions whose epoch left chain memory")
		var dels []Site
		for _, s := range c.CallsByName(upd, false, "builtin:delete") {
			dels = append(dels, s)
		}
		if len(dels) != 2 {
			c.Fail("C29d/updatePaymentRequestAttempt/two-deletes", c.P.Pos(upd.Pos()), "expected a delete on success and a delete at the retry bound")
		}
		bound, succ := false, false
		for _, d := range dels {
			for _, f := range ir.GuardFacts(d.Instr) {
				if strings.Contains(f, ".paymentRequestRetryAttempts") && strings.Contains(f, " <= ") {
					bound = true
				}
				if f == "param#1" {
					succ = true
				}
			}
		}
		if bound {
			c.OK("C29d/updatePaymentRequestAttempt/dropped-at-retry-bound", c.P.Pos(upd.Pos()), "delete dominated by attempts >= MaxPaymentRequestsRetiresForSession")
		} else {
			c.Fail("C29d/updatePaymentRequestAttempt/dropped-at-retry-bound", c.P.Pos(upd.Pos()), "a failing claim is retried without bound")
		}
		if succ {
			c.OK("C29d/updatePaymentRequestAttempt/removed-on-success", c.P.Pos(upd.Pos()), "delete dominated by success")
		} else {
			c.Fail("C29d/updatePaymentRequestAttempt/removed-on-success", c.P.Pos(upd.Pos()), "a successfully claimed session stays in the retry list")
		}
		incOK := false
		ir.EachInstr(upd, func(in ssa.Instruction) {
			if st, ok := in.(*ssa.Store); ok {
				if fa, ok := st.Addr.(*ssa.FieldAddr); ok && strings.HasSuffix(ir.FieldKey(fa), ".paymentRequestRetryAttempts") {
					if b, ok := st.Val.(*ssa.BinOp); ok && b.Op.String() == "+" {
						incOK = true
					}
				}
			}
		})
		if incOK {
			c.OK("C29d/updatePaymentRequestAttempt/attempts++", c.P.Pos(upd.Pos()), "attempt counter incremented on failure")
		} else {
			c.Fail("C29d/updatePaymentRequestAttempt/attempts++", c.P.Pos(upd.Pos()), "failed attempts are not counted")
		}
		if gf := c.Fn(rwK + "RewardServer.gatherFailedRequestPaymentsToRetry"); gf != nil {
			var apps []Site
			ir.EachInstr(gf, func(in ssa.Instruction) {
				if call, ok := in.(*ssa.Call); ok && ir.CalleeName(&call.Call) == "builtin:append" && strings.Contains(ir.TypeName(call.Type()), "RelaySession") {
					apps = append(apps, Site{Fn: gf, Instr: in})
				}
			})
			if len(apps) != 1 {
				c.Fail("C29d/gatherFailedRequestPaymentsToRetry/one-retry-append", c.P.Pos(gf.Pos()), "expected one append of a session to retry")
			}
			c.RequireGuards("C29d", apps, "retry-append", FactHas("epoch-still-in-memory", "conv<int64>(param#0) <= ", ".relaySession.Epoch)"))
		}
		c.Rule("C29e snapshot handling: the snapshot is read back into memory exactly when a chain's DB is first registered (restoreRewardsFromDB is called only by AddDataBase, past the false outcome of DBExists: a later restore would overwrite newer in-memory proofs with the older snapshotted ones and re-install claimed proofs); a whole epoch is dropped from the snapshot (DeleteEpochRewards) only past epoch < earliest-saved-epoch, i.e. when it can no longer be claimed — never while a claim for it may still fail and be retried after a restart")
		const rsv = "protocol/rpcprovider/rewardserver."
		c.RequireCallers("C29e", rsv+"RewardServer.restoreRewardsFromDB", rsv+"RewardServer.AddDataBase")
		if adb := c.Fn(rsv + "RewardServer.AddDataBase"); adb != nil {
			c.RequireGuards("C29e", c.CallsByName(adb, false, rsv+"RewardServer.restoreRewardsFromDB"), "restore", CallIs(false, rsv+"RewardDB.DBExists"))
		}
		nDel := 0
		var delSites []Site
		if der := c.Fn(rsv + "RewardDB.DeleteEpochRewards"); der != nil {
			delSites = c.References(der)
		}
		for _, ds := range delSites {
			fn := ds.Fn
			if !inProd(fn) {
				continue
			}
			sites := []Site{ds}
			nDel += len(sites)
			c.RequireGuards("C29e", sites, "drop-epoch-from-snapshot", GuardSpec{Name: "epoch<earliest-saved-epoch", Match: func(g ir.Guard) bool {
				x, op, y, ok := splitCmp(g.Fact)
				if !ok || op != "<" {
					return false
				}
				return strings.HasPrefix(x, "next(range(") && strings.HasSuffix(x, "#1") &&
					(y == "param#2" && ir.FuncName(fn) == rsv+"RewardServer.gatherRewardsForClaim" || strings.HasPrefix(y, "call("+rsv+"RewardServer.getEarliestBlockInMemoryWithRetry)("))
			}})
		}
		if nDel < 2 {
			c.Undecided("C29e: expected the two DeleteEpochRewards sites (gatherRewardsForClaim, restoreRewardsFromDB), found %d", nDel)
		}
		c.Rule("C29f nothing is lost between the snapshot, the map and the transactions: in RewardDB.buildEpochRewardsMap the not-found outcome of each lookup (epoch, consumer, session) inserts this entry's proof under the looked-up key before the next entry is read; lavaslices.SplitGenericSliceIntoChunks gives every chunk its own backing array (the make is inside the chunk loop, no buffer is re-sliced to length zero and reused) — chunks that alias one buffer all carry the last chunk's proofs, so some proofs are claimed several times and the others never")
		if bm := c.Fn(rsv + "RewardDB.buildEpochRewardsMap"); bm != nil {
			nLook, bad := 0, ""
			var at ssa.Instruction
			ir.EachInstr(bm, func(in ssa.Instruction) {
				lk, ok := in.(*ssa.Lookup)
				if !ok || !lk.CommaOk || lk.Referrers() == nil {
					return
				}
				var okv ssa.Value
				for _, r := range *lk.Referrers() {
					if ex, isEx := r.(*ssa.Extract); isEx && ex.Index == 1 {
						okv = ex
					}
				}
				if okv == nil || okv.Referrers() == nil {
					return
				}
				nLook++
				handled := false
				for _, r := range *okv.Referrers() {
					iff, isIf := r.(*ssa.If)
					if !isIf {
						continue
					}
					// follow the !ok edge up to the loop header; it must pass an insertion under the same key
					miss := iff.Block().Succs[1]
					lp := innermostLoop(bm, iff.Block())
					inserts := func(b *ssa.BasicBlock) bool {
						for _, x := range b.Instrs {
							switch y := x.(type) {
							case *ssa.MapUpdate:
								if ir.Desc(y.Key) == ir.Desc(lk.Index) {
									return true
								}
							}
						}
						return false
					}
					if lp == nil {
						continue
					}
					avoid := ir.Reachable(miss, func(x *ssa.BasicBlock) bool { return inserts(x) || !lp.Blocks[x] && x != lp.Header })
					if inserts(miss) || !avoid[lp.Header] {
						handled = true
					}
				}
				if !handled {
					bad, at = "the not-found outcome of the lookup by "+trunc(ir.Desc(lk.Index), 60)+" does not insert the entry under that key", in
				}
			})
			switch {
			case nLook < 3:
				c.Undecided("C29f: expected the three lookups (epoch, consumer, session) in buildEpochRewardsMap, found %d", nLook)
			case bad != "":
				c.Fail("C29f/buildEpochRewardsMap/not-found=>inserted", c.P.InstrPos(at), "when the snapshot is read back, "+bad+": proofs still in the DB never reach the in-memory map and are never claimed")
			default:
				c.OK("C29f/buildEpochRewardsMap/not-found=>inserted", c.P.Pos(bm.Pos()), "each of the three not-found outcomes inserts under the looked-up key")
			}
		}
		if sp := c.P.Fn("utils/lavaslices.SplitGenericSliceIntoChunks"); sp != nil {
			nMk, bad := 0, ""
			var at ssa.Instruction
			ir.EachInstr(sp, func(in ssa.Instruction) {
				switch x := in.(type) {
				case *ssa.MakeSlice:
					if strings.HasPrefix(x.Type().String(), "[][]") {
						return
					}
					nMk++
					if innermostLoop(sp, x.Block()) == nil {
						bad, at = "allocates the chunk buffer once, outside the chunk loop", in
					}
				case *ssa.Slice:
					if k, ok := x.High.(*ssa.Const); ok && isIntConst(k) && k.Int64() == 0 {
						bad, at = "re-slices a buffer to length zero and reuses it for the next chunk", in
					}
				}
			})
			switch {
			case bad != "":
				c.Fail("C29f/SplitGenericSliceIntoChunks/each-chunk-owns-its-array", c.P.InstrPos(at), "SplitGenericSliceIntoChunks "+bad+": the returned chunks alias one backing array")
			case nMk == 0:
				c.Undecided("C29f: no chunk allocation found in SplitGenericSliceIntoChunks")
			default:
				c.OK("C29f/SplitGenericSliceIntoChunks/each-chunk-owns-its-array", c.P.Pos(sp.Pos()), "make([]T, 0, chunkSize) inside the chunk loop")
			}
		} else {
			c.Undecided("C29f: utils/lavaslices.SplitGenericSliceIntoChunks not found")
		}
		c.NotCovered("restart/snapshot histories (crash points); DB persistence; timing of the claim loop")
	})
}

// successorsUntilHeader lists the instructions reachable from `from` within the same
// iteration of the innermost loop containing it.
func successorsUntilHeader(fn *ssa.Function, from ssa.Instruction) []ssa.Instruction {
	var out []ssa.Instruction
	b := from.Block()
	loop := innermostLoop(fn, b)
	after := false
	for _, in := range b.Instrs {
		if after {
			out = append(out, in)
		}
		if in == from {
			after = true
		}
	}
	stop := func(x *ssa.BasicBlock) bool { return loop != nil && x == loop.Header }
	for blk := range ir.Reachable(b, stop) {
		if blk == b {
			continue
		}
		out = append(out, blk.Instrs...)
	}
	return out
}
