package rules

import (
	"go/token"
	"strings"

	"golang.org/x/tools/go/ssa"

	"lavaverif/checker/ir"
)

func init() {
	register("C04", "other", func(c *Ctx) {
		c.Explain = "Credited CU never exceeds signed CU or the epoch allowance — necessary structural conditions: no unsigned subtraction on the crediting path can wrap (a wrap manufactures ~2^64 CU), every value EnforceClientCUsUsageInEpoch can return is the relay's CU, zero, or a wrap-safe remainder, the per-epoch counter it is judged on is read and written through the same transaction-local cache layer, the downtime factor multiplies the allowance exactly once, QoS can only scale the credit down, and what is charged to project and subscription is the signed CU."
		enf := c.Fn(pk + "Keeper.EnforceClientCUsUsageInEpoch")
		rp := c.Fn(pk + "msgServer.RelayPayment")
		charge := c.Fn(pk + "Keeper.chargeCuToSubscriptionAndCreditProvider")
		add := c.Fn(pk + "EpochCuCache.AddEpochPayment")
		if enf == nil || rp == nil || charge == nil || add == nil {
			return
		}
		c.Rule("C04a unsigned-wrap: every unsigned subtraction in EnforceClientCUsUsageInEpoch, CalculateEffectiveAllowedCuPerEpochFromPolicies, RelayPayment and the subscription/project charge functions is dominated by a comparison establishing subtrahend <= minuend (or is an audited belief)")
		c.RequireNoUnsignedWrap("C04a", pk+"Keeper.EnforceClientCUsUsageInEpoch", 3, SubAudit{"param#3 - param#1", "belief: totalCUInEpochForUserProvider is AddEpochPayment's return value, which already includes this relay's CU (rules C04c provenance and C04d returns-updated-counter), so total >= relayCU"})
		c.RequireNoUnsignedWrap("C04a", pk+"Keeper.CalculateEffectiveAllowedCuPerEpochFromPolicies", 1)
		c.RequireNoUnsignedWrap("C04a", pk+"msgServer.RelayPayment", 1, SubAudit{".CuSum", "belief: rejectedCu was increased by relay.CuSum at the top of the same iteration (both statements are unconditional in the accepted path); used for an event only"})
		c.RequireNoUnsignedWrap("C04a", "x/subscription/keeper.Keeper.ChargeComputeUnitsToSubscription", 1)

		c.Rule("C04b return shape: every non-error return of EnforceClientCUsUsageInEpoch yields the relay CU parameter, the constant 0, or a wrap-safe subtraction")
		for _, r := range c.SuccessReturns(enf) {
			v := RetVal(r.Instr.(*ssa.Return), 0)
			key := "C04b/EnforceClientCUsUsageInEpoch/return=" + trunc(ir.DescN(v, 3), 80)
			switch x := v.(type) {
			case *ssa.Parameter:
				if ir.Desc(x) == "param#1" {
					c.OK(key, c.P.InstrPos(r.Instr), "the relay's own CU")
				} else {
					c.Fail(key, c.P.InstrPos(r.Instr), "returns a parameter other than relayCU")
				}
			case *ssa.Const:
				if isZeroConst(x) {
					c.OK(key, c.P.InstrPos(r.Instr), "zero")
				} else {
					c.Fail(key, c.P.InstrPos(r.Instr), "returns a non-zero constant")
				}
			case *ssa.BinOp:
				if x.Op == token.SUB {
					if ok, why := leProved(x.X, x.Y, x.Block(), 3); ok {
						c.OK(key, c.P.InstrPos(r.Instr), "remainder, "+why)
					} else {
						c.Fail(key, c.P.InstrPos(r.Instr), "credited CU is an unguarded unsigned difference")
					}
				} else {
					c.Fail(key, c.P.InstrPos(r.Instr), "credited CU computed by "+x.Op.String())
				}
			default:
				c.Fail(key, c.P.InstrPos(r.Instr), "credited CU of unexpected shape: "+ir.DescN(v, 4))
			}
		}

		c.Rule("C04c inputs: RelayPayment passes to EnforceClientCUsUsageInEpoch the signed relay.CuSum, the allowance returned by ValidatePairingForClient and the per-epoch total returned by AddEpochPayment; the credited value handed to chargeCuToSubscriptionAndCreditProvider derives from EnforceClientCUsUsageInEpoch's result")
		for _, s := range c.CallsIn(rp, enf, true) {
			a := ir.CallOf(s.Instr).Args
			n := len(a)
			chk := func(name string, v ssa.Value, field, callee string) {
				fields, calls := BackwardDeps(v)
				key := "C04c/RelayPayment/Enforce-arg/" + name
				if (field == "" || fields[field]) && (callee == "" || calls[callee]) {
					c.OK(key, c.P.InstrPos(s.Instr), trunc(ir.DescN(v, 3), 120))
				} else {
					c.Fail(key, c.P.InstrPos(s.Instr), "unexpected provenance: "+trunc(ir.Desc(v), 200))
				}
			}
			chk("relayCU", a[n-6], "x/pairing/types.RelaySession.CuSum", "")
			chk("allowedCU", a[n-5], "", pk+"Keeper.ValidatePairingForClient")
			chk("totalCUInEpoch", a[n-4], "", pk+"EpochCuCache.AddEpochPayment")
		}
		for _, s := range c.CallsIn(rp, charge, true) {
			a := ir.CallOf(s.Instr).Args
			_, calls := BackwardDeps(a[len(a)-1])
			if calls[pk+"Keeper.EnforceClientCUsUsageInEpoch"] {
				c.OK("C04c/RelayPayment/credit-derives-from-Enforce", c.P.InstrPos(s.Instr), "cuAfterQos ← rewardedCU")
			} else {
				c.Fail("C04c/RelayPayment/credit-derives-from-Enforce", c.P.InstrPos(s.Instr), "the credited amount does not derive from the enforced amount: "+trunc(ir.Desc(a[len(a)-1]), 200))
			}
		}

		c.Rule("C04d one cache layer: inside a payment message the per-epoch CU counters are read and written only through the EpochCuCache accessors (a direct store read misses the CU added earlier in the same message); AddEpochPayment returns the counter it just wrote")
		direct := []string{"GetProviderConsumerEpochCu", "SetProviderConsumerEpochCu", "GetProviderEpochCu", "SetProviderEpochCu", "GetProviderEpochComplainerCu", "SetProviderEpochComplainerCu"}
		for _, f := range c.P.AllFuncs {
			tn := topName(f)
			if !strings.HasPrefix(tn, pk+"EpochCuCache.") && tn != pk+"msgServer.RelayPayment" {
				continue
			}
			for _, d := range direct {
				for _, s := range c.CallsByName(f, false, pk+"Keeper."+d) {
					c.Fail("C04d/"+tn+"/direct-store-access="+d, c.P.InstrPos(s.Instr), "per-epoch counter accessed past the transaction-local cache: relays batched in one message do not see each other's CU")
				}
			}
		}
		cachedPairs := [][2]string{{"GetProviderConsumerEpochCuCached", "SetProviderConsumerEpochCuCached"}, {"GetProviderEpochCuCached", "SetProviderEpochCuCached"}}
		for _, p := range cachedPairs {
			g := c.CallsByName(add, false, pk+"EpochCuCache."+p[0])
			s := c.CallsByName(add, false, pk+"EpochCuCache."+p[1])
			if len(g) == 1 && len(s) == 1 {
				c.OK("C04d/AddEpochPayment/cached-read-modify-write="+p[0], c.P.InstrPos(s[0].Instr), "read and written through the same cache")
			} else {
				c.Fail("C04d/AddEpochPayment/cached-read-modify-write="+p[0], c.P.Pos(add.Pos()), "expected exactly one cached read and one cached write of the counter")
			}
		}
		for _, r := range c.AllReturns(add) {
			v := RetVal(r.Instr.(*ssa.Return), 0)
			if strings.HasSuffix(ir.Desc(v), ".Cu") {
				c.OK("C04d/AddEpochPayment/returns-updated-counter", c.P.InstrPos(r.Instr), ir.DescN(v, 3))
			} else {
				c.Fail("C04d/AddEpochPayment/returns-updated-counter", c.P.InstrPos(r.Instr), "returns "+ir.DescN(v, 4))
			}
		}

		c.Rule("C04e downtime factor: GetDowntimeFactor is applied only in EnforceClientCUsUsageInEpoch, as a single multiplication of the epoch allowance parameter; the allowance stored in / read from the per-block pairing cache is the unscaled value returned by getPairingForClient")
		c.RequireCallers("C04e", "x/downtime/keeper.Keeper.GetDowntimeFactor", pk+"Keeper.EnforceClientCUsUsageInEpoch", "x/downtime/keeper.queryServer.QueryDowntime")
		nm := 0
		ir.EachInstr(enf, func(in ssa.Instruction) {
			b, ok := in.(*ssa.BinOp)
			if !ok || b.Op != token.MUL {
				return
			}
			d := ir.Desc(b)
			if strings.Contains(d, "DowntimeKeeper.GetDowntimeFactor)") {
				nm++
				if strings.Contains(d, "param#2") {
					c.OK("C04e/EnforceClientCUsUsageInEpoch/limit=allowance*factor", c.P.InstrPos(in), d)
				} else {
					c.Fail("C04e/EnforceClientCUsUsageInEpoch/limit=allowance*factor", c.P.InstrPos(in), "factor multiplies something other than the epoch allowance: "+d)
				}
			}
		})
		if nm != 1 {
			c.Fail("C04e/EnforceClientCUsUsageInEpoch/single-multiplication", c.P.Pos(enf.Pos()), "expected exactly one multiplication by the downtime factor, found "+itoa(nm))
		}
		if vp := c.Fn(pk + "Keeper.ValidatePairingForClient"); vp != nil {
			for _, s := range c.CallsByName(vp, true, pk+"Keeper.SetPairingRelayCache") {
				a := ir.CallOf(s.Instr).Args
				v := a[len(a)-1]
				ok := true
				seen := map[ssa.Value]bool{}
				var walk func(v ssa.Value)
				walk = func(v ssa.Value) {
					if seen[v] {
						return
					}
					seen[v] = true
					switch x := v.(type) {
					case *ssa.Phi:
						for _, e := range x.Edges {
							walk(e)
						}
					case *ssa.Extract:
						if call, _ := callOfValue(x); call == nil || (ir.CalleeName(&call.Call) != pk+"Keeper.getPairingForClient" && ir.CalleeName(&call.Call) != pk+"Keeper.GetPairingRelayCache") {
							ok = false
						}
					default:
						ok = false
					}
				}
				walk(v)
				if ok {
					c.OK("C04e/ValidatePairingForClient/cached-allowance-unscaled", c.P.InstrPos(s.Instr), "stored allowance is getPairingForClient's / the cache's own value")
				} else {
					c.Fail("C04e/ValidatePairingForClient/cached-allowance-unscaled", c.P.InstrPos(s.Instr), "the allowance written to the per-block cache is a computed value (a scaled allowance would be scaled again on a cache hit): "+ir.DescN(v, 4))
				}
			}
			for _, r := range c.SuccessReturns(vp) {
				v := RetVal(r.Instr.(*ssa.Return), 1)
				if b, isBin := v.(*ssa.BinOp); isBin {
					c.Fail("C04e/ValidatePairingForClient/returned-allowance-unscaled", c.P.InstrPos(r.Instr), "returned allowance is computed by "+b.Op.String())
				}
			}
		}

		c.Rule("C04f QoS and charging: the QoS-adjusted credit is Dec(rewardedCU).Mul(QoS*w + (1-w)).TruncateInt (a factor built from the consumer's QoS score and the weight parameter, no other multiplier), chargeCuToSubscriptionAndCreditProvider charges project and subscription the signed relay.CuSum and tracks the adjusted credit, returning an error if any of the three fails")
		muls := 0
		ir.EachInstr(rp, func(in ssa.Instruction) {
			call, ok := in.(*ssa.Call)
			if !ok || ir.CalleeName(&call.Call) != "cosmossdk.io/math.LegacyDec.Mul" {
				return
			}
			d := ir.Desc(call)
			if !strings.Contains(d, "EnforceClientCUsUsageInEpoch") {
				return
			}
			muls++
			arg := ir.Desc(call.Call.Args[1])
			if strings.HasPrefix(arg, "call(cosmossdk.io/math.LegacyDec.Add)(call(cosmossdk.io/math.LegacyDec.Mul)(") && strings.Contains(arg, "QualityOfServiceReport.ComputeQoS)") && strings.Contains(arg, "Keeper.QoSWeight)") && strings.Contains(arg, "LegacyDec.Sub)(") {
				c.OK("C04f/RelayPayment/qos-factor-shape", c.P.InstrPos(in), "QoS*w + (1-w)")
			} else {
				c.Fail("C04f/RelayPayment/qos-factor-shape", c.P.InstrPos(in), "credit multiplied by a factor that is not QoS*w+(1-w): "+trunc(arg, 240))
			}
		})
		if muls != 1 {
			c.Fail("C04f/RelayPayment/single-credit-multiplier", c.P.Pos(rp.Pos()), "expected exactly one multiplication of the enforced credit, found "+itoa(muls))
		}
		want := map[string]string{
			"invoke:x/pairing/types.ProjectsKeeper.ChargeComputeUnitsToProject":          "param#2.CuSum",
			"invoke:x/pairing/types.SubscriptionKeeper.ChargeComputeUnitsToSubscription": "param#2.CuSum",
			"invoke:x/pairing/types.SubscriptionKeeper.AddTrackedCu":                     "param#3",
		}
		var errSpecs []GuardSpec
		for callee, wantArg := range want {
			ss := c.CallsByName(charge, false, callee)
			key := "C04f/chargeCuToSubscriptionAndCreditProvider/" + shortNames([]string{callee})
			if len(ss) != 1 {
				c.Fail(key, c.P.Pos(charge.Pos()), "expected exactly one call, found "+itoa(len(ss)))
				continue
			}
			found := false
			for _, a := range argDescs(ir.CallOf(ss[0].Instr)) {
				if a == wantArg {
					found = true
				}
			}
			if found {
				c.OK(key, c.P.InstrPos(ss[0].Instr), "amount = "+wantArg)
			} else {
				c.Fail(key, c.P.InstrPos(ss[0].Instr), "amount is not "+wantArg+": "+strings.Join(argDescs(ir.CallOf(ss[0].Instr)), ","))
			}
			errSpecs = append(errSpecs, ErrNil(callee))
		}
		c.RequireGuards("C04f", c.SuccessReturns(charge), "return-nil", errSpecs...)
		c.auditQueryOnly("C04f", "x/subscription/keeper.Keeper.EstimatedProviderRewards", "x/subscription/keeper.Keeper.Estimated")
		c.RequireCallers("C04f", "x/subscription/keeper.Keeper.AddTrackedCu", pk+"Keeper.chargeCuToSubscriptionAndCreditProvider", "x/subscription/keeper.Keeper.EstimatedProviderRewards")
		c.Rule("C04g every configured limit counts: in CalculateEffectiveAllowedCuPerEpochFromPolicies a policy's epoch limit is taken into account under EpochCuLimit != 0 and its total limit under TotalCuLimit != 0, each independently of the other field")
		if ce := c.Fn(pk + "Keeper.CalculateEffectiveAllowedCuPerEpochFromPolicies"); ce != nil {
			seen := map[string]bool{}
			ir.EachInstr(ce, func(in ssa.Instruction) {
				call := ir.CallOf(in)
				if call == nil || ir.CalleeName(call) != "builtin:append" {
					return
				}
				which := ""
				if sl, ok := call.Args[1].(*ssa.Slice); ok {
					if arr, ok := sl.X.(*ssa.Alloc); ok && arr.Referrers() != nil {
						for _, r := range *arr.Referrers() {
							if ia, ok := r.(*ssa.IndexAddr); ok {
								walkStores(ia, func(v ssa.Value) {
									d := ir.Desc(v)
									if strings.Contains(d, "GetEpochCuLimit)(") || strings.HasSuffix(d, ".EpochCuLimit") {
										which = "EpochCuLimit"
									}
									if strings.Contains(d, "GetTotalCuLimit)(") || strings.HasSuffix(d, ".TotalCuLimit") {
										which = "TotalCuLimit"
									}
								})
							}
						}
					}
				}
				if which == "" {
					return
				}
				other := map[string]string{"EpochCuLimit": "TotalCuLimit", "TotalCuLimit": "EpochCuLimit"}[which]
				own, foreign := false, ""
				for _, f := range ir.GuardFacts(in) {
					if strings.Contains(f, "."+which+" != const(0))") {
						own = true
					}
					if strings.Contains(f, "."+other) {
						foreign = f
					}
				}
				seen[which] = true
				key := "C04g/CalculateEffectiveAllowedCuPerEpochFromPolicies/" + which + "-counted-when-non-zero"
				if own && foreign == "" {
					c.OK(key, c.P.InstrPos(in), "")
				} else {
					c.Fail(key, c.P.InstrPos(in), "a policy's "+which+" is taken into account only under a condition on "+other+" ("+trunc(foreign, 80)+"): a policy that sets only "+which+" is ignored, so the stricter limit does not apply")
				}
			})
			if !seen["EpochCuLimit"] || !seen["TotalCuLimit"] {
				c.Undecided("C04g: the per-policy limit collection was not found in CalculateEffectiveAllowedCuPerEpochFromPolicies")
			}
		}
		c.NotCovered("the numeric bounds themselves (credited <= signed, sum over an epoch <= allowance*factor); decimal rounding")
	})
}
