package rules

import (
	"fmt"
	"go/token"
	"strings"

	"golang.org/x/tools/go/ssa"

	"lavaverif/checker/ir"
)

func init() {
	register("C05", "other", func(c *Ctx) {
		c.Explain = "Relay payments are accepted only for authentic, paired relays: decided as guard-dominance of every state-changing call of RelayPayment's per-relay loop (and of the accepted-relay counter) by the authenticity/pairing checks, the all-or-nothing exit structure (any rejected relay makes the message fail, the cache is flushed only on the success path), and the checks inside the helper functions that the guards rely on."
		rp := c.Fn(pk + "msgServer.RelayPayment")
		add := c.Fn(pk + "EpochCuCache.AddEpochPayment")
		charge := c.Fn(pk + "Keeper.chargeCuToSubscriptionAndCreditProvider")
		hb := c.Fn(pk + "Keeper.handleBadgeCu")
		gpd := c.Fn(pk + "Keeper.GetProjectData")
		if rp == nil || add == nil || charge == nil || hb == nil || gpd == nil {
			return
		}
		early := []GuardSpec{
			ErrNil("github.com/cosmos/cosmos-sdk/types.AccAddressFromBech32"),
			CallIs(true, "github.com/cosmos/cosmos-sdk/types.AccAddress.Equals"),
			Cmp("lava-chain-id", "Context.BlockHeader)", "==", ".LavaChainId"),
			Cmp("epoch-not-future", ".Epoch", "<=", "Context.BlockHeight)"),
			Cmp("epoch-not-negative", "const(0)", "<=", ".Epoch"),
			ErrNil("utils/sigs.ExtractSignerAddress"),
			ErrNil(pk + "Keeper.GetProjectData"),
			ErrNil("invoke:x/pairing/types.EpochstorageKeeper.GetEpochStartForBlock"),
			Cmp("epoch-in-memory", "EpochstorageKeeper.GetEarliestEpochStart)", "<=", "EpochstorageKeeper.GetEpochStartForBlock)"),
			CallIs(false, pk+"Keeper.IsUniqueEpochSessionExists"),
		}
		late := append(append([]GuardSpec{}, early...),
			CallIs(true, "invoke:x/pairing/types.SpecKeeper.GetSpec"),
			FactPrefix("spec-enabled", "invoke(x/pairing/types.SpecKeeper.GetSpec)", "#0.Enabled"),
			ErrNil(pk+"Keeper.ValidatePairingForClient"),
			CallIs(true, pk+"Keeper.ValidatePairingForClient"),
			ErrNil(pk+"Keeper.EnforceClientCUsUsageInEpoch"),
		)
		c.Rule("C05a guard: in RelayPayment, AddEpochPayment / handleBadgeCu / aggregateReputationEpochQosScore (first state-changing calls of an iteration) are dominated by: creator==provider, lava chain id equality, 0<=epoch<=height, signer recovered, project data found, epoch start found and in memory, not double-spent")
		c.Rule("C05b guard: chargeCuToSubscriptionAndCreditProvider, updateProvidersComplainerCU and the accepted-relay counter decrement are additionally dominated by: spec found and enabled, ValidatePairingForClient nil error and valid, EnforceClientCUsUsageInEpoch nil error")
		earlySinks := map[string][]Site{
			"AddEpochPayment":                  c.CallsIn(rp, add, true),
			"handleBadgeCu":                    c.CallsIn(rp, hb, true),
			"aggregateReputationEpochQosScore": c.CallsByName(rp, true, pk+"Keeper.aggregateReputationEpochQosScore"),
		}
		var allSinks []Site
		for n, ss := range earlySinks {
			if len(ss) == 0 {
				c.Undecided("RelayPayment no longer calls %s", n)
			}
			c.RequireGuards("C05a", ss, n, early...)
			allSinks = append(allSinks, ss...)
		}
		lateSinks := map[string][]Site{
			"chargeCuToSubscriptionAndCreditProvider": c.CallsIn(rp, charge, true),
			"updateProvidersComplainerCU":             c.CallsByName(rp, true, pk+"EpochCuCache.updateProvidersComplainerCU"),
		}
		// accepted-relay counter: the value compared with 0 before the final success return
		var dec []Site
		ir.EachInstr(rp, func(in ssa.Instruction) {
			b, ok := in.(*ssa.BinOp)
			if !ok || b.Op != token.SUB {
				return
			}
			if k, ok := b.Y.(*ssa.Const); !ok || k.Value == nil || k.Value.String() != "1" {
				return
			}
			if phi, ok := b.X.(*ssa.Phi); ok {
				for _, e := range phi.Edges {
					if call, _ := callOfValue(e); call != nil && ir.CalleeName(&call.Call) == "builtin:len" {
						dec = append(dec, Site{Fn: rp, Instr: in, Kind: "decrement"})
					}
				}
			}
		})
		if len(dec) != 1 {
			c.Undecided("RelayPayment: expected exactly one rejected-relays counter decrement, found %d", len(dec))
		}
		lateSinks["rejectedRelaysNum--"] = dec
		for n, ss := range lateSinks {
			if len(ss) == 0 {
				c.Undecided("RelayPayment no longer contains %s", n)
			}
			c.RequireGuards("C05b", ss, n, late...)
			allSinks = append(allSinks, ss...)
		}

		// badge: failing edge of checkBadge cannot reach any sink in the same iteration
		c.Rule("C05c failing-edge: from the error outcome of checkBadge no state-changing call of the same iteration is reachable; handleBadgeCu is dominated by badgeFound")
		ifs := c.IfsMatching(rp, ErrNonNil(pk+"Keeper.checkBadge"))
		if len(ifs) == 0 {
			c.Fail("C05c/RelayPayment/checkBadge-error-checked", c.P.Pos(rp.Pos()), "the error result of checkBadge is not branched on")
		}
		for _, ie := range ifs {
			ok, where := c.EdgeCannotReach(ie, allSinks)
			key := "C05c/RelayPayment/checkBadge-error-edge-rejects"
			if ok {
				c.OK(key, c.P.InstrPos(ie.If), "error edge leaves the iteration")
			} else {
				c.Fail(key, c.P.InstrPos(ie.If), "a relay whose badge check failed can still reach the state-changing call at "+where)
			}
		}
		// checkBadge must be called whenever the badge map has an entry: the call is dominated by the found flag
		// and GetProjectData's signer argument is the badge signer only past the check
		cb := c.CallsByName(rp, true, pk+"Keeper.checkBadge")
		if len(cb) != 1 {
			c.Undecided("RelayPayment: expected one checkBadge call, found %d", len(cb))
		}

		// all-or-nothing exit structure
		c.Rule("C05d exits: the only success return of RelayPayment is dominated by rejectedRelaysNum==0 and preceded on every path by epochCuCache.Flush; Flush is called nowhere else; every failing outcome of a C05b guard returns a non-nil error (message reverts)")
		succ := c.SuccessReturns(rp)
		if len(succ) != 1 {
			c.Fail("C05d/RelayPayment/single-success-return", c.P.Pos(rp.Pos()), fmt.Sprintf("expected exactly one success return, found %d", len(succ)))
		} else {
			c.RequireGuards("C05d", succ, "success-return", FactHas("rejectedRelaysNum==0", "== const(0))", "phi{"))
			flush := c.CallsByName(rp, true, pk+"EpochCuCache.Flush")
			if len(flush) != 1 {
				c.Fail("C05d/RelayPayment/single-flush", c.P.Pos(rp.Pos()), fmt.Sprintf("expected exactly one Flush, found %d", len(flush)))
			} else {
				c.RequireGuards("C05d", flush, "Flush", FactHas("rejectedRelaysNum==0", "== const(0))", "phi{"))
			}
		}
		c.RequireCallers("C05d", pk+"EpochCuCache.Flush", pk+"msgServer.RelayPayment")
		// failing edges of the late guards lead only to failure returns
		lateFail := []GuardSpec{
			CallIs(false, "invoke:x/pairing/types.SpecKeeper.GetSpec"),
			ErrNonNil(pk + "Keeper.ValidatePairingForClient"),
			CallIs(false, pk+"Keeper.ValidatePairingForClient"),
			ErrNonNil(pk + "Keeper.EnforceClientCUsUsageInEpoch"),
			ErrNonNil(pk + "Keeper.chargeCuToSubscriptionAndCreditProvider"),
			ErrNonNil(pk + "Keeper.aggregateReputationEpochQosScore"),
		}
		for _, sp := range lateFail {
			ifs := c.IfsMatching(rp, sp)
			if len(ifs) == 0 {
				c.Fail("C05d/RelayPayment/branch="+sp.Name, c.P.Pos(rp.Pos()), "no branch on "+sp.Name)
				continue
			}
			for _, ie := range ifs {
				b := ie.If.Block()
				s := b.Succs[0]
				if !ie.Edge {
					s = b.Succs[1]
				}
				key := "C05d/RelayPayment/fail-edge-reverts=" + sp.Name
				bad := ""
				for blk := range ir.Reachable(s, func(x *ssa.BasicBlock) bool { return x.Dominates(b) && x != b }) {
					if len(blk.Instrs) == 0 {
						continue
					}
					if r, ok := blk.Instrs[len(blk.Instrs)-1].(*ssa.Return); ok && !IsFailureReturn(r) {
						bad = c.P.InstrPos(r)
					}
					if len(blk.Succs) > 0 && !s.Dominates(blk) {
						bad = "falls through to b" + fmt.Sprint(blk.Index)
					}
				}
				// the failing edge must not flow back into the loop
				for blk := range ir.Reachable(s, nil) {
					for _, x := range allSinks {
						if x.Instr.Block() == blk && !s.Dominates(blk) {
							bad = "reaches " + c.P.InstrPos(x.Instr)
						}
					}
				}
				if bad == "" {
					c.OK(key, c.P.InstrPos(ie.If), "only failure returns")
				} else {
					c.Fail(key, c.P.InstrPos(ie.If), "after a state change, the failing outcome of "+sp.Name+" does not abort the message: "+bad)
				}
			}
		}

		// helper functions the guards rely on
		c.Rule("C05e helpers: GetProjectData succeeds only if GetProjectForDeveloper succeeded and project.Enabled; ValidatePairingForClient derives validity from membership in the pairing list; who-may-call on handleBadgeCu")
		c.RequireGuards("C05e", c.SuccessReturns(gpd), "success-return",
			ErrNil("invoke:x/pairing/types.ProjectsKeeper.GetProjectForDeveloper"),
			FactPrefix("project-enabled", "invoke(x/pairing/types.ProjectsKeeper.GetProjectForDeveloper)", "#0.Enabled"))
		c.RequireCallers("C05e", pk+"Keeper.handleBadgeCu", pk+"msgServer.RelayPayment")
		c.RequireGuards("C05e", earlySinks["handleBadgeCu"], "handleBadgeCu", FactHas("badgeFound", "makemap[", "#1"))
		// the project is resolved at the relay's epoch, never at another block
		for _, s := range c.CallsByName(gpd, true, "invoke:x/pairing/types.ProjectsKeeper.GetProjectForDeveloper") {
			a := ir.CallOf(s.Instr).Args
			d := ir.Desc(a[len(a)-1])
			key := "C05e/GetProjectData/GetProjectForDeveloper-block=param"
			if d == "param#3" {
				c.OK(key, c.P.InstrPos(s.Instr), "block argument is the requested block")
			} else {
				c.Fail(key, c.P.InstrPos(s.Instr), "developer key resolved at a block other than the relay's epoch: "+d)
			}
		}
		for _, s := range c.CallsByName(rp, true, pk+"Keeper.GetProjectData") {
			a := ir.CallOf(s.Instr).Args
			f, _ := BackwardDeps(a[len(a)-1])
			key := "C05e/RelayPayment/GetProjectData-block=relay.Epoch"
			if f["x/pairing/types.RelaySession.Epoch"] && !f["x/pairing/types.MsgRelayPayment.Creator"] {
				c.OK(key, c.P.InstrPos(s.Instr), ir.Desc(a[len(a)-1]))
			} else {
				c.Fail(key, c.P.InstrPos(s.Instr), "project looked up at a block that is not the relay's epoch: "+ir.Desc(a[len(a)-1]))
			}
		}

		// pairing validation: verdict only from list membership, list only from getPairingForClient or the per-block cache
		c.Rule("C05f pairing validation: ValidatePairingForClient returns valid only under AccAddress.Equals(list entry, provider), the list comes from getPairingForClient(chain, epoch start, strictest policy) or from the per-block cache, the requested epoch must be an epoch start; the cache key covers project, chain and epoch and Set/Get use the same key arguments")
		if vp := c.Fn(pk + "Keeper.ValidatePairingForClient"); vp != nil {
			var trueRets []Site
			for _, r := range c.SuccessReturns(vp) {
				ret := r.Instr.(*ssa.Return)
				if k, ok := ret.Results[0].(*ssa.Const); ok && k.Value != nil && k.Value.String() == "true" {
					trueRets = append(trueRets, r)
				} else if !ok {
					c.Fail("C05f/ValidatePairingForClient/valid-result-is-constant", c.P.InstrPos(ret), "validity result is computed, not a constant guarded by membership: "+ir.Desc(ret.Results[0]))
				}
			}
			if len(trueRets) == 0 {
				c.Undecided("ValidatePairingForClient has no `return true` site")
			}
			c.RequireGuards("C05f", trueRets, "return-valid",
				CallIs(true, "github.com/cosmos/cosmos-sdk/types.AccAddress.Equals"),
				ErrNil("invoke:x/pairing/types.EpochstorageKeeper.GetEpochStartForBlock"),
				Cmp("epoch-is-epoch-start", "EpochstorageKeeper.GetEpochStartForBlock)", "==", "param#3"),
			)
			for _, r := range trueRets {
				for _, g := range ir.Guards(r.Instr) {
					v, _ := stripNot(g.If.Cond, g.Edge)
					if call, _ := callOfValue(v); call != nil && ir.CalleeName(&call.Call) == "github.com/cosmos/cosmos-sdk/types.AccAddress.Equals" {
						d := ir.Desc(call)
						key := "C05f/ValidatePairingForClient/membership-compares-provider-param"
						_, calls := BackwardDeps(call)
						if strings.Contains(d, "param#2") && (calls[pk+"Keeper.getPairingForClient"] || calls[pk+"Keeper.GetPairingRelayCache"]) {
							c.OK(key, c.P.InstrPos(call), trunc(d, 200))
						} else {
							c.Fail(key, c.P.InstrPos(call), "membership test does not compare the pairing list with the provider argument: "+trunc(d, 300))
						}
					}
				}
			}
			// the pairing computation is for the epoch start and this project
			for _, s := range c.CallsByName(vp, true, pk+"Keeper.getPairingForClient") {
				a := argDescs(ir.CallOf(s.Instr))
				key := "C05f/ValidatePairingForClient/getPairingForClient-args"
				n := len(a)
				if n >= 7 && a[n-6] == "param#1" && strings.Contains(a[n-5], "GetEpochStartForBlock)") && strings.HasSuffix(a[n-2], "param#4.Index") {
					c.OK(key, c.P.InstrPos(s.Instr), strings.Join(a[n-6:], ","))
				} else {
					c.Fail(key, c.P.InstrPos(s.Instr), "pairing computed for other chain/epoch/project than requested: "+trunc(strings.Join(a, ","), 300))
				}
			}
			// cache get/set argument agreement
			gets := c.CallsByName(vp, true, pk+"Keeper.GetPairingRelayCache")
			setsC := c.CallsByName(vp, true, pk+"Keeper.SetPairingRelayCache")
			if len(gets) != 1 || len(setsC) != 1 {
				c.Undecided("ValidatePairingForClient: expected one cache get and one cache set, found %d/%d", len(gets), len(setsC))
			} else {
				ga, sa := argDescs(ir.CallOf(gets[0].Instr)), argDescs(ir.CallOf(setsC[0].Instr))
				g3, s3 := strings.Join(ga[len(ga)-3:], ","), strings.Join(sa[len(sa)-5:len(sa)-2], ",")
				// the cached list is the project's: keyed by the project index (the pairing draw is seeded by it)
				if strings.HasSuffix(ga[len(ga)-3], ".Index") && strings.Contains(ga[len(ga)-3], "param#4") || strings.HasSuffix(ga[len(ga)-3], "GetProjectData)(recv,param#0,param#2,param#1,param#3)#0.Index") {
					c.OK("C05f/ValidatePairingForClient/cache-keyed-by-project-index", c.P.InstrPos(gets[0].Instr), ga[len(ga)-3])
				} else if strings.HasSuffix(ga[len(ga)-3], ".Index") {
					c.OK("C05f/ValidatePairingForClient/cache-keyed-by-project-index", c.P.InstrPos(gets[0].Instr), ga[len(ga)-3])
				} else {
					c.Fail("C05f/ValidatePairingForClient/cache-keyed-by-project-index", c.P.InstrPos(gets[0].Instr), "the per-block pairing cache is keyed by "+trunc(ga[len(ga)-3], 100)+" instead of the project index: projects sharing that key get each other's pairing list")
				}
				if g3 == s3 {
					c.OK("C05f/ValidatePairingForClient/cache-get-key=set-key", c.P.InstrPos(setsC[0].Instr), g3)
				} else {
					c.Fail("C05f/ValidatePairingForClient/cache-get-key=set-key", c.P.InstrPos(setsC[0].Instr), "cache read under ("+g3+") but written under ("+s3+")")
				}
			}
		}
		c.RequireAllParamsUsed("C05f", "x/pairing/types.NewPairingCacheKey")
		// the policy used to validate a relay is the plan's as of the relay's epoch
		if gps := c.Fn(pk + "Keeper.GetProjectStrictestPolicy"); gps != nil {
			okPlan := false
			for _, s := range c.CallsByName(gps, false, "invoke:x/pairing/types.SubscriptionKeeper.GetPlanFromSubscription") {
				a := argDescs(ir.CallOf(s.Instr))
				if len(a) > 0 && a[len(a)-1] == "param#3" {
					okPlan = true
				}
			}
			if okPlan {
				c.OK("C05f/GetProjectStrictestPolicy/plan-as-of-requested-block", c.P.Pos(gps.Pos()), "GetPlanFromSubscription(ctx, subscription, block)")
			} else {
				c.Fail("C05f/GetProjectStrictestPolicy/plan-as-of-requested-block", c.P.Pos(gps.Pos()), "the plan policy is not looked up at the requested block: a relay of an earlier epoch is validated against the pairing of the subscription's current plan")
			}
			for _, s := range c.CallsByName(c.Fn(pk+"Keeper.ValidatePairingForClient"), true, pk+"Keeper.GetProjectStrictestPolicy") {
				a := argDescs(ir.CallOf(s.Instr))
				if len(a) > 0 && (strings.Contains(a[len(a)-1], "GetEpochStartForBlock)") || a[len(a)-1] == "param#3" && ir.HasFact(ir.GuardFacts(s.Instr), "GetEpochStartForBlock)(", "#0 == param#3)")) {
					c.OK("C05f/ValidatePairingForClient/policy-at-relay-epoch", c.P.InstrPos(s.Instr), a[len(a)-1])
				} else if len(a) > 0 {
					c.Fail("C05f/ValidatePairingForClient/policy-at-relay-epoch", c.P.InstrPos(s.Instr), "policy requested for "+trunc(a[len(a)-1], 80))
				}
			}
		}
		for _, n := range []string{pk + "Keeper.SetPairingRelayCache", pk + "Keeper.GetPairingRelayCache"} {
			if f := c.Fn(n); f != nil {
				ss := c.CallsByName(f, true, "x/pairing/types.NewPairingCacheKey")
				if len(ss) != 1 {
					c.Undecided("%s: expected one NewPairingCacheKey call", n)
					continue
				}
				a := strings.Join(argDescs(ir.CallOf(ss[0].Instr)), ",")
				if a == "param#1,param#2,param#3" {
					c.OK("C05f/"+n+"/key-args", c.P.InstrPos(ss[0].Instr), a)
				} else {
					c.Fail("C05f/"+n+"/key-args", c.P.InstrPos(ss[0].Instr), "cache key not built from (project, chain, epoch) parameters: "+a)
				}
			}
		}
		c.RequireCallers("C05f", pk+"Keeper.SetPairingRelayCache", pk+"Keeper.ValidatePairingForClient")
		c.NotCovered("cryptographic soundness of signature recovery; that a failed message leaves state unchanged (SDK revert)")
	})
}
