package rules

import (
	"fmt"
	"go/token"

	"golang.org/x/tools/go/ssa"

	"lavaverif/checker/ir"
)

func init() {
	register("C05", "other", func(c *Ctx) {
		c.Explain = "Relay payments are accepted only for authentic, paired relays: decided as guard-dominance of every state-changing call of RelayPayment's per-relay loop (and of the accepted-relay counter) by the authenticity/pairing checks, the all-or-nothing exit structure (any rejected relay makes the message fail, the cache is flushed only on the success path), and the checks inside the helper functions that the guards rely on."
		rp := c.Fn(pk + "msgServer.RelayPayment")
		add := c.Fn(pk + "EpochCuCache.AddEpochPayment")
		charge := c.Fn(pk + "Keeper.chargeCuToSubscriptionAndCreditProvider")
		hb := c.Fn(pk + "Keeper.handleBadgeCu")
		gpd := c.Fn(pk + "Keeper.GetProjectData")
		if rp == nil || add == nil || charge == nil || hb == nil || gpd == nil {
			return
		}
		early := []GuardSpec{
			ErrNil("github.com/cosmos/cosmos-sdk/types.AccAddressFromBech32"),
			CallIs(true, "github.com/cosmos/cosmos-sdk/types.AccAddress.Equals"),
			Cmp("lava-chain-id", "Context.BlockHeader)", "==", ".LavaChainId"),
			Cmp("epoch-not-future", ".Epoch", "<=", "Context.BlockHeight)"),
			Cmp("epoch-not-negative", "const(0)", "<=", ".Epoch"),
			ErrNil("utils/sigs.ExtractSignerAddress"),
			ErrNil(pk + "Keeper.GetProjectData"),
			ErrNil("invoke:x/pairing/types.EpochstorageKeeper.GetEpochStartForBlock"),
			Cmp("epoch-in-memory", "EpochstorageKeeper.GetEarliestEpochStart)", "<=", "EpochstorageKeeper.GetEpochStartForBlock)"),
			CallIs(false, pk+"Keeper.IsUniqueEpochSessionExists"),
		}
		late := append(append([]GuardSpec{}, early...),
			CallIs(true, "invoke:x/pairing/types.SpecKeeper.GetSpec"),
			FactPrefix("spec-enabled", "invoke(x/pairing/types.SpecKeeper.GetSpec)", "#0.Enabled"),
			ErrNil(pk+"Keeper.ValidatePairingForClient"),
			CallIs(true, pk+"Keeper.ValidatePairingForClient"),
			ErrNil(pk+"Keeper.EnforceClientCUsUsageInEpoch"),
		)
		c.Rule("C05a guard: in RelayPayment, AddEpochPayment / handleBadgeCu / aggregateReputationEpochQosScore (first state-changing calls of an iteration) are dominated by: creator==provider, lava chain id equality, 0<=epoch<=height, signer recovered, project data found, epoch start found and in memory, not double-spent")
		c.Rule("C05b guard: chargeCuToSubscriptionAndCreditProvider, updateProvidersComplainerCU and the accepted-relay counter decrement are additionally dominated by: spec found and enabled, ValidatePairingForClient nil error and valid, EnforceClientCUsUsageInEpoch nil error")
		earlySinks := map[string][]Site{
			"AddEpochPayment": c.CallsIn(rp, add, true),
			"handleBadgeCu":   c.CallsIn(rp, hb, true),
			"aggregateReputationEpochQosScore": c.CallsByName(rp, true, pk+"Keeper.aggregateReputationEpochQosScore"),
		}
		var allSinks []Site
		for n, ss := range earlySinks {
			if len(ss) == 0 {
				c.Undecided("RelayPayment no longer calls %s", n)
			}
			c.RequireGuards("C05a", ss, n, early...)
			allSinks = append(allSinks, ss...)
		}
		lateSinks := map[string][]Site{
			"chargeCuToSubscriptionAndCreditProvider": c.CallsIn(rp, charge, true),
			"updateProvidersComplainerCU":             c.CallsByName(rp, true, pk+"EpochCuCache.updateProvidersComplainerCU"),
		}
		// accepted-relay counter: the value compared with 0 before the final success return
		var dec []Site
		ir.EachInstr(rp, func(in ssa.Instruction) {
			b, ok := in.(*ssa.BinOp)
			if !ok || b.Op != token.SUB {
				return
			}
			if k, ok := b.Y.(*ssa.Const); !ok || k.Value == nil || k.Value.String() != "1" {
				return
			}
			if phi, ok := b.X.(*ssa.Phi); ok {
				for _, e := range phi.Edges {
					if call, _ := callOfValue(e); call != nil && ir.CalleeName(&call.Call) == "builtin:len" {
						dec = append(dec, Site{Fn: rp, Instr: in, Kind: "decrement"})
					}
				}
			}
		})
		if len(dec) != 1 {
			c.Undecided("RelayPayment: expected exactly one rejected-relays counter decrement, found %d", len(dec))
		}
		lateSinks["rejectedRelaysNum--"] = dec
		for n, ss := range lateSinks {
			if len(ss) == 0 {
				c.Undecided("RelayPayment no longer contains %s", n)
			}
			c.RequireGuards("C05b", ss, n, late...)
			allSinks = append(allSinks, ss...)
		}

		// badge: failing edge of checkBadge cannot reach any sink in the same iteration
		c.Rule("C05c failing-edge: from the error outcome of checkBadge no state-changing call of the same iteration is reachable; handleBadgeCu is dominated by badgeFound")
		ifs := c.IfsMatching(rp, ErrNonNil(pk+"Keeper.checkBadge"))
		if len(ifs) == 0 {
			c.Fail("C05c/RelayPayment/checkBadge-error-checked", c.P.Pos(rp.Pos()), "the error result of checkBadge is not branched on")
		}
		for _, ie := range ifs {
			ok, where := c.EdgeCannotReach(ie, allSinks)
			key := "C05c/RelayPayment/checkBadge-error-edge-rejects"
			if ok {
				c.OK(key, c.P.InstrPos(ie.If), "error edge leaves the iteration")
			} else {
				c.Fail(key, c.P.InstrPos(ie.If), "a relay whose badge check failed can still reach the state-changing call at "+where)
			}
		}
		// checkBadge must be called whenever the badge map has an entry: the call is dominated by the found flag
		// and GetProjectData's signer argument is the badge signer only past the check
		cb := c.CallsByName(rp, true, pk+"Keeper.checkBadge")
		if len(cb) != 1 {
			c.Undecided("RelayPayment: expected one checkBadge call, found %d", len(cb))
		}

		// all-or-nothing exit structure
		c.Rule("C05d exits: the only success return of RelayPayment is dominated by rejectedRelaysNum==0 and preceded on every path by epochCuCache.Flush; Flush is called nowhere else; every failing outcome of a C05b guard returns a non-nil error (message reverts)")
		succ := c.SuccessReturns(rp)
		if len(succ) != 1 {
			c.Fail("C05d/RelayPayment/single-success-return", c.P.Pos(rp.Pos()), fmt.Sprintf("expected exactly one success return, found %d", len(succ)))
		} else {
			c.RequireGuards("C05d", succ, "success-return", FactHas("rejectedRelaysNum==0", "== const(0))", "phi{"))
			flush := c.CallsByName(rp, true, pk+"EpochCuCache.Flush")
			if len(flush) != 1 {
				c.Fail("C05d/RelayPayment/single-flush", c.P.Pos(rp.Pos()), fmt.Sprintf("expected exactly one Flush, found %d", len(flush)))
			} else {
				c.RequireGuards("C05d", flush, "Flush", FactHas("rejectedRelaysNum==0", "== const(0))", "phi{"))
			}
		}
		c.RequireCallers("C05d", pk+"EpochCuCache.Flush", pk+"msgServer.RelayPayment")
		// failing edges of the late guards lead only to failure returns
		lateFail := []GuardSpec{
			CallIs(false, "invoke:x/pairing/types.SpecKeeper.GetSpec"),
			ErrNonNil(pk + "Keeper.ValidatePairingForClient"),
			CallIs(false, pk+"Keeper.ValidatePairingForClient"),
			ErrNonNil(pk + "Keeper.EnforceClientCUsUsageInEpoch"),
			ErrNonNil(pk + "Keeper.chargeCuToSubscriptionAndCreditProvider"),
			ErrNonNil(pk + "Keeper.aggregateReputationEpochQosScore"),
		}
		for _, sp := range lateFail {
			ifs := c.IfsMatching(rp, sp)
			if len(ifs) == 0 {
				c.Fail("C05d/RelayPayment/branch="+sp.Name, c.P.Pos(rp.Pos()), "no branch on "+sp.Name)
				continue
			}
			for _, ie := range ifs {
				b := ie.If.Block()
				s := b.Succs[0]
				if !ie.Edge {
					s = b.Succs[1]
				}
				key := "C05d/RelayPayment/fail-edge-reverts=" + sp.Name
				bad := ""
				for blk := range ir.Reachable(s, func(x *ssa.BasicBlock) bool { return x.Dominates(b) && x != b }) {
					if len(blk.Instrs) == 0 {
						continue
					}
					if r, ok := blk.Instrs[len(blk.Instrs)-1].(*ssa.Return); ok && !IsFailureReturn(r) {
						bad = c.P.InstrPos(r)
					}
					if len(blk.Succs) > 0 && !s.Dominates(blk) {
						bad = "falls through to b" + fmt.Sprint(blk.Index)
					}
				}
				// the failing edge must not flow back into the loop
				for blk := range ir.Reachable(s, nil) {
					for _, x := range allSinks {
						if x.Instr.Block() == blk && !s.Dominates(blk) {
							bad = "reaches " + c.P.InstrPos(x.Instr)
						}
					}
				}
				if bad == "" {
					c.OK(key, c.P.InstrPos(ie.If), "only failure returns")
				} else {
					c.Fail(key, c.P.InstrPos(ie.If), "after a state change, the failing outcome of "+sp.Name+" does not abort the message: "+bad)
				}
			}
		}

		// helper functions the guards rely on
		c.Rule("C05e helpers: GetProjectData succeeds only if GetProjectForDeveloper succeeded and project.Enabled; ValidatePairingForClient derives validity from membership in the pairing list; who-may-call on handleBadgeCu")
		c.RequireGuards("C05e", c.SuccessReturns(gpd), "success-return",
			ErrNil("invoke:x/pairing/types.ProjectsKeeper.GetProjectForDeveloper"),
			FactPrefix("project-enabled", "invoke(x/pairing/types.ProjectsKeeper.GetProjectForDeveloper)", "#0.Enabled"))
		c.RequireCallers("C05e", pk+"Keeper.handleBadgeCu", pk+"msgServer.RelayPayment")
		c.RequireGuards("C05e", earlySinks["handleBadgeCu"], "handleBadgeCu", FactHas("badgeFound", "makemap[", "#1"))
		c.NotCovered("cryptographic soundness of signature recovery; that a failed message leaves state unchanged (SDK revert)")
	})
}
