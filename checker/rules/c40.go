package rules

import (
	"go/token"
	"strings"

	"golang.org/x/tools/go/ssa"

	"lavaverif/checker/ir"
)

const scK = "x/pairing/keeper/scores."

func init() {
	register("C40", "other", func(c *Ctx) {
		c.Explain = "Provider selection for pairing is proportional to stake and geo score — structural part (shape of the draw only): PickProviders seeds its generator from the epoch hash data it is given, draws Int63n(round(effective total)) + 1 per slot, walks the candidates accumulating the Score of those valid for the slot and picks the first one whose rounded running sum reaches the draw, then removes the winner from the totals before the next slot; the totals are the sum of the same Score over all candidates not marked skipped; the stake requirement scores a provider by its total stake when positive and by 1 otherwise, never by zero. Proportionality within statistical tolerance and the geo score values are not decided."
		pp := c.Fn(scK + "PickProviders")
		ct := c.Fn(scK + "CalculateTotalScoresForGroup")
		ap := c.Fn(scK + "AddProviderToSelection")
		ss := c.Fn(scK + "StakeReq.Score")
		if pp == nil || ct == nil || ap == nil || ss == nil {
			return
		}
		c.Rule("C40a draw: the random value is Int63n(RoundInt64(effective total)) + 1 on a generator created from the hashData parameter; the candidate loop adds providerScore.Score under IsValidForSelection(slot group) and appends the provider under randomValue <= RoundInt64(running sum); RemoveProviderFromSelection follows the append in the same iteration")
		var draw *ssa.BinOp
		ir.EachInstr(pp, func(in ssa.Instruction) {
			if b, ok := in.(*ssa.BinOp); ok && b.Op == token.ADD && strings.HasPrefix(ir.Desc(b), "(call(math/rand.Rand.Int63n)(call(utils/rand.New)(param#3),call(cosmossdk.io/math.LegacyDec.RoundInt64)(") && strings.HasSuffix(ir.Desc(b), " + const(1))") {
				draw = b
			}
		})
		if draw != nil {
			c.OK("C40a/PickProviders/draw∈[1,round(total)]-seeded-from-epoch-hash", c.P.InstrPos(draw), "")
		} else {
			c.Fail("C40a/PickProviders/draw∈[1,round(total)]-seeded-from-epoch-hash", c.P.Pos(pp.Pos()), "the per-slot draw is no longer Int63n(RoundInt64(total)) + 1 on rand.New(hashData)")
		}
		var acc, app, rem ssa.Instruction
		ir.EachInstr(pp, func(in ssa.Instruction) {
			call := ir.CallOf(in)
			if call == nil {
				return
			}
			switch ir.CalleeName(call) {
			case "cosmossdk.io/math.LegacyDec.Add":
				if strings.HasSuffix(ir.Desc(call.Args[1]), ".Score") {
					acc = in
				}
			case "builtin:append":
				if strings.Contains(ir.TypeName(call.Args[0].Type()), "StakeEntry") {
					app = in
				}
			case scK + "RemoveProviderFromSelection":
				rem = in
			}
		})
		if acc == nil || app == nil || rem == nil {
			c.Fail("C40a/PickProviders/scan-accumulate-pick-remove", c.P.Pos(pp.Pos()), "the candidate scan no longer accumulates Score, appends the winner and removes it from the totals")
		} else {
			okValid := false
			for _, g := range ir.Guards(acc) {
				v, edge := stripNot(g.If.Cond, g.Edge)
				if cl, _ := callOfValue(v); cl != nil && edge && ir.CalleeName(&cl.Call) == scK+"PairingScore.IsValidForSelection" {
					okValid = true
				}
			}
			okPick := false
			for _, g := range ir.Guards(app) {
				b, ok := g.If.Cond.(*ssa.BinOp)
				if ok && g.Edge && (b.Op == token.LEQ && b.X == ssa.Value(draw) || b.Op == token.GEQ && b.Y == ssa.Value(draw)) && strings.Contains(ir.Desc(b), "RoundInt64)(call(cosmossdk.io/math.LegacyDec.Add)(") {
					okPick = true
				}
			}
			okRemove := rem.Block() == app.Block() && instrBefore(app, rem)
			if okValid && okPick && okRemove {
				c.OK("C40a/PickProviders/scan-accumulate-pick-remove", c.P.InstrPos(app), "valid candidates only; first running sum >= draw wins; winner leaves the totals")
			} else {
				c.Fail("C40a/PickProviders/scan-accumulate-pick-remove", c.P.InstrPos(app), "valid-only="+boolStr(okValid)+" pick-at-first-cumulative>=draw="+boolStr(okPick)+" removed-after-pick="+boolStr(okRemove))
			}
		}

		c.Rule("C40b totals: CalculateTotalScoresForGroup folds AddProviderToSelection over every score; AddProviderToSelection adds providerScore.Score to the total unless SkipForSelection")
		okFold := false
		for _, s := range c.CallsIn(ct, ap, false) {
			if innermostLoop(ct, s.Instr.Block()) != nil && strings.HasPrefix(ir.Desc(ir.CallOf(s.Instr).Args[0]), "param#0[") {
				okFold = true
			}
		}
		okAdd := false
		ir.EachInstr(ap, func(in ssa.Instruction) {
			call := ir.CallOf(in)
			if call != nil && ir.CalleeName(call) == "cosmossdk.io/math.LegacyDec.Add" && ir.Desc(call.Args[0]) == "param#2" && ir.Desc(call.Args[1]) == "param#0.Score" && ir.HasFact(ir.GuardFacts(in), "!param#0.SkipForSelection") {
				okAdd = true
			}
		})
		if okFold && okAdd {
			c.OK("C40b/totals=Σ-Score-of-non-skipped-candidates", c.P.Pos(ct.Pos()), "")
		} else {
			c.Fail("C40b/totals=Σ-Score-of-non-skipped-candidates", c.P.Pos(ct.Pos()), "the total the draw is scaled by is not the sum of the candidates' Score")
		}

		c.Rule("C40c stake score: StakeReq.Score returns NewDecFromInt(provider.TotalStake()) under IsPositive and one otherwise")
		okPos, okOne := false, true
		for _, r := range c.AllReturns(ss) {
			ret := r.Instr.(*ssa.Return)
			d := ir.Desc(ret.Results[0])
			switch {
			case strings.HasPrefix(d, "call(cosmossdk.io/math.LegacyNewDecFromInt)(call(x/epochstorage/types.StakeEntry.TotalStake)("):
				if ir.HasFact(ir.GuardFacts(ret), "call(cosmossdk.io/math.Int.IsPositive)(") {
					okPos = true
				}
			case d == "call(cosmossdk.io/math.LegacyOneDec)()":
			default:
				okOne = false
			}
		}
		if okPos && okOne {
			c.OK("C40c/StakeReq.Score/stake-when-positive-else-one", c.P.Pos(ss.Pos()), "never zero: every eligible provider keeps a positive weight")
		} else {
			c.Fail("C40c/StakeReq.Score/stake-when-positive-else-one", c.P.Pos(ss.Pos()), "the stake score is no longer the provider's positive total stake (or 1): a provider can get weight zero")
		}
		c.Rule("C40d scores are recomputed when a slot's requirement changes: PairingSlotGroup.Subtract puts a requirement into the difference both when the other group lacks its key and when the other group's requirement for that key is not Equal; C40e geo cost: GeoReq.Score → CalcGeoCost → CalcGeoLatency pass (required geolocation, provider geolocations) in that order, and the latency is looked up as GEO_LATENCY_MAP[required][provider]")
		if sub := c.Fn(scK + "PairingSlotGroup.Subtract"); sub != nil {
			absent, differs := false, false
			ir.EachInstr(sub, func(in ssa.Instruction) {
				mu, ok := in.(*ssa.MapUpdate)
				if !ok {
					return
				}
				for _, f := range ir.GuardFacts(mu) {
					if strings.HasPrefix(f, "!") && strings.Contains(f, ".Reqs[") && strings.HasSuffix(f, "#1") {
						absent = true
					}
					if strings.HasPrefix(f, "!invoke("+scK+"ScoreReq.Equal)(") {
						differs = true
					}
				}
			})
			if absent && differs {
				c.OK("C40d/PairingSlotGroup.Subtract/diff=absent-or-not-equal", c.P.Pos(sub.Pos()), "")
			} else {
				c.Fail("C40d/PairingSlotGroup.Subtract/diff=absent-or-not-equal", c.P.Pos(sub.Pos()), "a requirement present in both slot groups with a different value (another geolocation) is no longer in the difference: its score component is never recomputed for the later slots")
			}
		}
		if cg := c.Fn(scK + "CalcGeoCost"); cg != nil {
			sites := c.CallsByName(cg, false, scK+"CalcGeoLatency")
			ok := len(sites) == 1
			for _, s := range sites {
				call := ir.CallOf(s.Instr)
				if ir.Desc(call.Args[0]) != "param#0" || ir.Desc(call.Args[1]) != "param#1" || innermostLoop(cg, s.Instr.Block()) != nil {
					ok = false
				}
			}
			if ok {
				c.OK("C40e/CalcGeoCost/CalcGeoLatency(required,providers)", c.P.Pos(cg.Pos()), "")
			} else {
				c.Fail("C40e/CalcGeoCost/CalcGeoLatency(required,providers)", c.P.Pos(cg.Pos()), "CalcGeoLatency is not called once with (required geolocation, provider geolocations): the latency table is keyed by the required geolocation and is not symmetric")
			}
		}
		if cl := c.Fn(scK + "CalcGeoLatency"); cl != nil {
			okLookup := false
			ir.EachInstr(cl, func(in ssa.Instruction) {
				if lk, ok := in.(*ssa.Lookup); ok && strings.Contains(ir.Desc(lk.X), "GEO_LATENCY_MAP") && ir.Desc(lk.Index) == "param#0" {
					okLookup = true
				}
			})
			if okLookup {
				c.OK("C40e/CalcGeoLatency/table[required][provider]", c.P.Pos(cl.Pos()), "")
			} else {
				c.Fail("C40e/CalcGeoLatency/table[required][provider]", c.P.Pos(cl.Pos()), "the latency table is not indexed first by the required geolocation")
			}
		}
		if gs := c.Fn(scK + "GeoReq.Score"); gs != nil {
			for _, s := range c.CallsByName(gs, false, scK+"CalcGeoCost") {
				call := ir.CallOf(s.Instr)
				if strings.Contains(ir.Desc(call.Args[0]), "recv.Geo") && strings.Contains(ir.Desc(call.Args[1]), ".Provider.Geolocation") {
					c.OK("C40e/GeoReq.Score/CalcGeoCost(slot-geo,provider-geos)", c.P.InstrPos(s.Instr), "")
				} else {
					c.Fail("C40e/GeoReq.Score/CalcGeoCost(slot-geo,provider-geos)", c.P.InstrPos(s.Instr), "CalcGeoCost("+trunc(ir.Desc(call.Args[0]), 60)+", "+trunc(ir.Desc(call.Args[1]), 60)+")")
				}
			}
		}
		c.Rule("C40f geo table orientation: CalcGeoLatency looks the latency up as GEO_LATENCY_MAP[required geo][provider geo] — outer key its first parameter, inner key the element of the provider's geolocations — (the table is not symmetric), and GeoReq.Score hands it its own Geo first. C40g the product does not eat its factors: CalcPairingScore multiplies the stored components into a fresh accumulator seeded with one and calls no in-place (…Mut) decimal operation — LegacyDec shares its big.Int, so an in-place product seeded with a component overwrites that stored component, and the next slot group's incremental re-score multiplies it in again")
		if cg := c.Fn("x/pairing/keeper/scores.CalcGeoLatency"); cg != nil {
			outerOK, innerOK, n := false, false, 0
			ir.EachInstr(cg, func(in ssa.Instruction) {
				lk, ok := in.(*ssa.Lookup)
				if !ok {
					return
				}
				n++
				xd := ir.Desc(lk.X)
				if strings.Contains(xd, "GEO_LATENCY_MAP") && !strings.Contains(xd, "[") {
					outerOK = len(cg.Params) == 2 && lk.Index == ssa.Value(cg.Params[0])
				} else {
					innerOK = strings.HasPrefix(ir.Desc(lk.Index), "param#1[")
				}
			})
			if n == 2 && outerOK && innerOK {
				c.OK("C40f/CalcGeoLatency/table[required][provider]", c.P.Pos(cg.Pos()), "GEO_LATENCY_MAP[reqGeo][pGeo]")
			} else {
				c.Fail("C40f/CalcGeoLatency/table[required][provider]", c.P.Pos(cg.Pos()), "the latency table is not consulted as GEO_LATENCY_MAP[required geo][provider geo] (outer key = first parameter, inner key = a provider geolocation): the table is asymmetric, so swapped keys give other providers the maximum latency")
			}
			if gs := c.Fn("x/pairing/keeper/scores.GeoReq.Score"); gs != nil {
				okCall := false
				for _, s := range c.CallsByName(gs, false, "x/pairing/keeper/scores.CalcGeoCost") {
					if d := ir.Desc(unconv(ir.CallOf(s.Instr).Args[0])); strings.HasSuffix(d, ".Geo") && (strings.HasPrefix(d, "recv") || strings.Contains(d, "GeoReq")) {
						okCall = true
					}
				}
				if cc := c.Fn("x/pairing/keeper/scores.CalcGeoCost"); cc != nil && okCall {
					okCall = false
					for _, s := range c.CallsByName(cc, false, "x/pairing/keeper/scores.CalcGeoLatency") {
						a := ir.CallOf(s.Instr).Args
						if len(a) == 2 && len(cc.Params) == 2 && a[0] == ssa.Value(cc.Params[0]) && a[1] == ssa.Value(cc.Params[1]) {
							okCall = true
						}
					}
				}
				if okCall {
					c.OK("C40f/GeoReq.Score/required-geo-first", c.P.Pos(gs.Pos()), "")
				} else {
					c.Fail("C40f/GeoReq.Score/required-geo-first", c.P.Pos(gs.Pos()), "GeoReq.Score does not pass its own required geolocation as CalcGeoLatency's first argument")
				}
			}
		}
		if cps := c.Fn("x/pairing/keeper/scores.CalcPairingScore"); cps != nil {
			bad, allFactors := "", ""
			var at, allAt ssa.Instruction
			defer func() {
				if allFactors == "" {
					c.OK("C40g/CalcPairingScore/product-over-all-stored-components", c.P.Pos(cps.Pos()), "range over score.ScoreComponents")
				} else {
					c.Fail("C40g/CalcPairingScore/product-over-all-stored-components", c.P.InstrPos(allAt), "the provider's score "+allFactors+": for the second and later slot groups only the differing requirement is re-scored, so the stake factor drops out of the product")
				}
			}()
			ir.EachInstr(cps, func(in ssa.Instruction) {
				if call := ir.CallOf(in); call != nil {
					n := ir.CalleeName(call)
					if strings.HasPrefix(n, "cosmossdk.io/math.LegacyDec.") && strings.HasSuffix(n, "Mut") {
						bad, at = "calls the in-place "+n, in
					}
				}
				if st, ok := in.(*ssa.Store); ok {
					if fa, ok := st.Addr.(*ssa.FieldAddr); ok && ir.FieldKey(fa) == "x/pairing/keeper/scores.PairingScore.Score" {
						seedOK := false
						for _, leaf := range phiLeaves(st.Val) {
							if cl, ok := leaf.(*ssa.Call); ok && calleeOrAlias(&cl.Call) == "cosmossdk.io/math.LegacyOneDec" {
								seedOK = true
							} else if cl, ok := leaf.(*ssa.Call); !ok || ir.CalleeName(&cl.Call) != "cosmossdk.io/math.LegacyDec.Mul" {
								bad, at = "builds the score from "+trunc(ir.Desc(leaf), 80), in
							} else if f := ir.DescN(cl.Call.Args[1], 8); !(strings.HasPrefix(f, "next(range(") && strings.Contains(f, ".ScoreComponents") && strings.HasSuffix(f, "#2")) {
								// the factors are all stored components (stake and geo), not only those re-scored for this slot group's diff
								allFactors, allAt = "multiplies "+trunc(f, 90)+" rather than every entry of ScoreComponents", in
							}
						}
						if !seedOK && bad == "" {
							bad, at = "does not seed the product with a fresh one", in
						}
					}
				}
			})
			if bad == "" {
				c.OK("C40g/CalcPairingScore/fresh-accumulator-no-in-place-ops", c.P.Pos(cps.Pos()), "score = OneDec()·Π components through value-returning Mul")
			} else {
				c.Fail("C40g/CalcPairingScore/fresh-accumulator-no-in-place-ops", c.P.InstrPos(at), "CalcPairingScore "+bad+": a stored score component can be overwritten by the running product and is multiplied in again when the next slot group re-scores only its differing requirements")
			}
		}
		c.NotCovered("proportionality within statistical tolerance over epoch hashes; geo score values; rounding of scores below one; mixed-filter slots")
	})
}
