package rules

import (
	"fmt"
	"go/token"
	"strings"

	"golang.org/x/tools/go/ssa"

	"lavaverif/checker/ir"
)

func init() {
	register("C12", "other", func(c *Ctx) {
		c.Explain = "Subscriptions live exactly as long as paid for — structural part: the price charged is the plan price times the months bought in this purchase with the annual discount decided on those months; both purchase paths read and modify the subscription entry at the next epoch; the remaining monthly CU is only ever reset to the monthly total or decreased under a sufficiency guard; the remaining duration is only decreased by one under a non-zero guard; every branch of the monthly expiry either re-arms exactly one month timer (through the reset function) or removes the subscription together with its projects."
		create := c.Fn(sk + "Keeper.CreateSubscription")
		future := c.Fn(sk + "Keeper.CreateFutureSubscription")
		adv := c.Fn(sk + "Keeper.advanceMonth")
		reset := c.Fn(sk + "Keeper.resetSubscriptionDetailsAndAppendEntry")
		remove := c.Fn(sk + "Keeper.RemoveExpiredSubscription")
		if create == nil || future == nil || adv == nil || reset == nil || remove == nil {
			return
		}

		c.Rule("C12a price: in CreateSubscription and CreateFutureSubscription the price is plan.GetPrice() multiplied by the `duration` parameter, the discount helper is given that same parameter, and the discount helper compares its duration argument with MONTHS_IN_YEAR; the charged coin and the credited amount share that price (C10c)")
		for _, fn := range []*ssa.Function{create, future} {
			name := ir.FuncName(fn)
			// duration parameter index: the only uint64 parameter named duration
			dur := ""
			for i := 0; i < fn.Signature.Params().Len(); i++ {
				if fn.Signature.Params().At(i).Name() == "duration" {
					dur = fmt.Sprintf("param#%d", i)
				}
			}
			if dur == "" {
				c.Undecided("%s has no `duration` parameter", name)
				continue
			}
			nm := 0
			ir.EachInstr(fn, func(in ssa.Instruction) {
				call, ok := in.(*ssa.Call)
				if !ok || ir.CalleeName(&call.Call) != "cosmossdk.io/math.Int.MulRaw" {
					return
				}
				if _, calls := BackwardDeps(call.Call.Args[0]); !calls["x/plans/types.Plan.GetPrice"] {
					return
				}
				nm++
				if ir.Desc(call.Call.Args[1]) == "conv<int64>("+dur+")" {
					c.OK("C12a/"+name+"/price=planPrice*duration", c.P.InstrPos(in), ir.Desc(call))
				} else {
					c.Fail("C12a/"+name+"/price=planPrice*duration", c.P.InstrPos(in), "plan price multiplied by "+ir.Desc(call.Call.Args[1])+" instead of the months bought")
				}
			})
			if nm != 1 {
				c.Fail("C12a/"+name+"/single-price-multiplication", c.P.Pos(fn.Pos()), "expected exactly one multiplication of the plan price, found "+itoa(nm))
			}
			ds := c.CallsByName(fn, false, sk+"Keeper.applyPlanDiscountIfEligible")
			if len(ds) != 1 {
				c.Fail("C12a/"+name+"/single-discount-call", c.P.Pos(fn.Pos()), "expected exactly one discount decision, found "+itoa(len(ds)))
			}
			for _, s := range ds {
				a := argDescs(ir.CallOf(s.Instr))
				if a[1] == dur {
					c.OK("C12a/"+name+"/discount-decided-on-months-bought", c.P.InstrPos(s.Instr), "applyPlanDiscountIfEligible("+a[1]+", …)")
				} else {
					c.Fail("C12a/"+name+"/discount-decided-on-months-bought", c.P.InstrPos(s.Instr), "the annual discount is decided on "+a[1]+", not on the months bought in this purchase")
				}
			}
		}
		if ad := c.Fn(sk + "Keeper.applyPlanDiscountIfEligible"); ad != nil {
			var stores []Site
			ir.EachInstr(ad, func(in ssa.Instruction) {
				if st, ok := in.(*ssa.Store); ok {
					stores = append(stores, Site{Fn: ad, Instr: st})
				}
			})
			if len(stores) == 0 {
				c.Undecided("applyPlanDiscountIfEligible no longer writes the price")
			}
			c.RequireGuards("C12a", stores, "price:=discounted", Cmp("months>=12", c.Const("utils", "MONTHS_IN_YEAR"), "<=", "param#0"))
		}

		c.Rule("C12b same entry: both purchase paths look the subscription up with subsFS.FindEntry at GetNextEpoch(current block) and write it back with ModifyEntry at that entry's own block (an upgrade made earlier in the epoch lives at the next epoch)")
		for _, fn := range []*ssa.Function{create, future} {
			name := ir.FuncName(fn)
			fe := c.CallsByName(fn, false, "x/fixationstore/types.FixationStore.FindEntry")
			var subFinds []Site
			for _, s := range fe {
				if strings.HasSuffix(ir.Desc(ir.CallOf(s.Instr).Args[0]), ".subsFS") {
					subFinds = append(subFinds, s)
				}
			}
			if len(subFinds) != 1 {
				c.Fail("C12b/"+name+"/single-subscription-lookup", c.P.Pos(fn.Pos()), "expected exactly one subsFS.FindEntry, found "+itoa(len(subFinds)))
				continue
			}
			a := ir.CallOf(subFinds[0].Instr).Args
			_, calls := BackwardDeps(a[3])
			if calls["invoke:x/subscription/types.EpochstorageKeeper.GetNextEpoch"] {
				c.OK("C12b/"+name+"/lookup-at-next-epoch", c.P.InstrPos(subFinds[0].Instr), ir.Desc(a[3]))
			} else {
				c.Fail("C12b/"+name+"/lookup-at-next-epoch", c.P.InstrPos(subFinds[0].Instr), "subscription looked up at "+ir.Desc(a[3])+", not at the next epoch: an upgrade made in this epoch is not seen")
			}
			// no second way of fetching the subscription in a purchase path
			for _, alt := range []string{sk + "Keeper.GetSubscription", sk + "Keeper.GetSubscriptionForBlock"} {
				for _, s := range c.CallsByName(fn, false, alt) {
					c.Fail("C12b/"+name+"/no-current-block-lookup", c.P.InstrPos(s.Instr), "purchase path fetches the subscription with "+alt+" (current block) instead of the next-epoch lookup")
				}
			}
			for _, s := range c.CallsByName(fn, false, "x/fixationstore/types.FixationStore.ModifyEntry") {
				ma := argDescs(ir.CallOf(s.Instr))
				if strings.HasSuffix(ma[0], ".subsFS") && strings.HasSuffix(ma[3], ".Block") {
					c.OK("C12b/"+name+"/modify-found-entry", c.P.InstrPos(s.Instr), ma[3])
				} else if strings.HasSuffix(ma[0], ".subsFS") {
					c.Fail("C12b/"+name+"/modify-found-entry", c.P.InstrPos(s.Instr), "entry modified at "+ma[3])
				}
			}
		}

		c.Rule("C12c monthly CU: Subscription.MonthCuLeft is stored only as MonthCuTotal (reset at a month boundary / creation) or as MonthCuLeft-cu under a guard establishing cu <= MonthCuLeft; MonthCuTotal comes from the plan policy's total CU limit")
		nleft := 0
		for _, f := range c.P.AllFuncs {
			tn := topName(f)
			if !inProd(f) || strings.Contains(strings.ToLower(tn), "migrat") || strings.Contains(tn, ".Unmarshal") {
				continue
			}
			fn := f
			ir.EachInstr(fn, func(in ssa.Instruction) {
				st, ok := in.(*ssa.Store)
				if !ok {
					return
				}
				fa, ok := st.Addr.(*ssa.FieldAddr)
				if !ok || ir.FieldKey(fa) != "x/subscription/types.Subscription.MonthCuLeft" {
					return
				}
				nleft++
				d := ir.Desc(st.Val)
				key := "C12c/" + tn + "/MonthCuLeft:="
				switch {
				case strings.HasSuffix(d, ".MonthCuTotal") || strings.Contains(d, "GetTotalCuLimit") || strings.HasSuffix(d, ".TotalCuLimit"):
					c.OK(key+"reset", c.P.InstrPos(in), d)
				default:
					if b, ok := st.Val.(*ssa.BinOp); ok && b.Op == token.SUB && strings.HasSuffix(ir.Desc(b.X), ".MonthCuLeft") {
						if ok2, why := leProved(b.X, b.Y, b.Block(), 3); ok2 {
							c.OK(key+"decrement", c.P.InstrPos(in), why)
						} else {
							c.Fail(key+"decrement", c.P.InstrPos(in), "MonthCuLeft is decreased without a dominating check that enough is left (unsigned wrap = practically unlimited CU)")
						}
					} else if isZeroConst(st.Val) {
						c.OK(key+"zero", c.P.InstrPos(in), "exhausted")
					} else {
						c.Fail(key+"other", c.P.InstrPos(in), "MonthCuLeft assigned "+trunc(d, 160))
					}
				}
			})
		}
		if nleft < 2 {
			c.Undecided("expected >=2 stores to Subscription.MonthCuLeft, found %d", nleft)
		}
		// reset happens on every month boundary: resetSubscriptionDetailsAndAppendEntry assigns MonthCuLeft before appending
		okReset := false
		ir.EachInstr(reset, func(in ssa.Instruction) {
			if st, ok := in.(*ssa.Store); ok {
				if fa, ok := st.Addr.(*ssa.FieldAddr); ok && ir.FieldKey(fa) == "x/subscription/types.Subscription.MonthCuLeft" && ir.Desc(st.Val) == "param#1.MonthCuTotal" {
					for _, ap := range c.CallsByName(reset, false, "x/fixationstore/types.FixationStore.AppendEntry") {
						if instrBefore(in, ap.Instr) {
							okReset = true
						}
					}
				}
			}
		})
		if okReset {
			c.OK("C12c/resetSubscriptionDetailsAndAppendEntry/resets-before-append", c.P.Pos(reset.Pos()), "MonthCuLeft = MonthCuTotal precedes AppendEntry")
		} else {
			c.Fail("C12c/resetSubscriptionDetailsAndAppendEntry/resets-before-append", c.P.Pos(reset.Pos()), "the month entry is appended without resetting the remaining CU to the plan total")
		}

		c.Rule("C12d duration: Subscription.DurationLeft is decreased only by one under a DurationLeft != 0 guard; other stores are additions of the months bought, the months of an activated advance purchase, 0 (upgrade) or 1 (auto-renewal)")
		for _, f := range c.P.AllFuncs {
			tn := topName(f)
			if !strings.HasPrefix(tn, sk) || strings.Contains(strings.ToLower(tn), "migrat") {
				continue
			}
			fn := f
			ir.EachInstr(fn, func(in ssa.Instruction) {
				st, ok := in.(*ssa.Store)
				if !ok {
					return
				}
				fa, ok := st.Addr.(*ssa.FieldAddr)
				if !ok || ir.FieldKey(fa) != "x/subscription/types.Subscription.DurationLeft" {
					return
				}
				d := ir.Desc(st.Val)
				key := "C12d/" + tn + "/DurationLeft:="
				b, isBin := st.Val.(*ssa.BinOp)
				switch {
				case isBin && b.Op == token.SUB:
					if ir.Desc(b.Y) == "const(1)" {
						if ok2, why := leProved(b.X, b.Y, b.Block(), 2); ok2 {
							c.OK(key+"minus-one", c.P.InstrPos(in), why)
						} else {
							c.Fail(key+"minus-one", c.P.InstrPos(in), "DurationLeft-1 without a non-zero guard")
						}
					} else {
						c.Fail(key+"decrease", c.P.InstrPos(in), "DurationLeft decreased by "+ir.Desc(b.Y))
					}
				case isBin && b.Op == token.ADD:
					if strings.Contains(d, "param#") {
						c.OK(key+"plus-bought", c.P.InstrPos(in), d)
					} else {
						c.Fail(key+"increase", c.P.InstrPos(in), "DurationLeft increased by something that is not the months bought: "+d)
					}
				case d == "const(0)" || d == "const(1)" || strings.HasSuffix(d, ".DurationBought"):
					c.OK(key+"set", c.P.InstrPos(in), d)
				default:
					c.Fail(key+"other", c.P.InstrPos(in), "DurationLeft assigned "+trunc(d, 140))
				}
			})
		}

		c.Rule("C12e expiry: in advanceMonth, past the existence check, every path reaches exactly one of: resetSubscriptionDetailsAndAppendEntry (arms the next month timer and appends the month entry), renewSubscription (which resets), RemoveExpiredSubscription, or the negative-duration recovery; RemoveExpiredSubscription deletes the projects before the entry; the reset function arms exactly one timer")
		arm := IsCallTo(sk+"Keeper.resetSubscriptionDetailsAndAppendEntry", sk+"Keeper.renewSubscription", sk+"Keeper.RemoveExpiredSubscription", sk+"Keeper.handleZeroDurationLeftForSubscription")
		var start ssa.Instruction
		for _, ie := range c.IfsMatching(adv, CallIs(true, sk+"Keeper.verifySubExists")) {
			b := ie.If.Block()
			s := b.Succs[0]
			if !ie.Edge {
				s = b.Succs[1]
			}
			start = s.Instrs[0]
		}
		if start == nil {
			c.Fail("C12e/advanceMonth/existence-check", c.P.Pos(adv.Pos()), "no verifySubExists branch")
		} else {
			r := c.MustPass(adv, start, arm, nil)
			if r.OK {
				c.OK("C12e/advanceMonth/every-path-rearms-or-removes", c.P.Pos(adv.Pos()), "all paths")
			} else {
				c.Fail("C12e/advanceMonth/every-path-rearms-or-removes", c.P.Pos(adv.Pos()), "a month expiry path neither re-arms the month timer nor removes the subscription: the subscription would live forever without further expiries — "+r.Witness)
			}
			// removal only when no months are left and nothing renews
			c.RequireGuards("C12e", c.CallsByName(adv, false, sk+"Keeper.resetSubscriptionDetailsAndAppendEntry")[:1], "reset(months-left)", FactHas("months-left>0", "(const(0) < ", ".DurationLeft)"))
		}
		if n := len(c.CallsByName(reset, false, "x/timerstore/types.TimerStore.AddTimerByBlockTime")); n == 1 {
			c.OK("C12e/resetSubscriptionDetailsAndAppendEntry/arms-one-timer", c.P.Pos(reset.Pos()), "one AddTimerByBlockTime")
		} else {
			c.Fail("C12e/resetSubscriptionDetailsAndAppendEntry/arms-one-timer", c.P.Pos(reset.Pos()), "expected exactly one month timer to be armed, found "+itoa(n))
		}
		dp := c.CallsByName(remove, false, sk+"Keeper.delAllProjectsFromSubscription")
		de := c.CallsByName(remove, false, "x/fixationstore/types.FixationStore.DelEntry")
		if len(dp) == 1 && len(de) == 1 && instrBefore(dp[0].Instr, de[0].Instr) {
			c.OK("C12e/RemoveExpiredSubscription/projects-then-entry", c.P.Pos(remove.Pos()), "projects deleted before the subscription entry")
		} else {
			c.Fail("C12e/RemoveExpiredSubscription/projects-then-entry", c.P.Pos(remove.Pos()), "the subscription is removed without (first) removing its projects")
		}
		// every project of the expiring subscription is visited: a failed deletion does not end the loop
		if dap := c.Fn(sk + "Keeper.delAllProjectsFromSubscription"); dap != nil {
			dels := c.CallsByName(dap, false, "invoke:x/subscription/types.ProjectsKeeper.DeleteProject")
			if len(dels) != 1 {
				c.Undecided("C12e: expected one DeleteProject call in delAllProjectsFromSubscription, found %d", len(dels))
			} else if loop := innermostLoop(dap, dels[0].Instr.Block()); loop == nil {
				c.Fail("C12e/delAllProjectsFromSubscription/visits-every-project", c.P.InstrPos(dels[0].Instr), "projects are not deleted in a loop over the subscription's projects")
			} else {
				bad := ""
				for b := range loop.Blocks {
					for _, s := range b.Succs {
						if !loop.Blocks[s] && b != loop.Header {
							bad = c.P.Pos(b.Instrs[len(b.Instrs)-1].Pos())
						}
					}
				}
				if bad == "" {
					c.OK("C12e/delAllProjectsFromSubscription/visits-every-project", c.P.InstrPos(dels[0].Instr), "the only exit of the loop is the end of the project list")
				} else {
					c.Fail("C12e/delAllProjectsFromSubscription/visits-every-project", c.P.InstrPos(dels[0].Instr), "the loop over the subscription's projects can end early ("+bad+"): one project that fails to delete leaves all later projects alive after the subscription is gone")
				}
			}
		}
		c.auditQueryOnly("C12e", sk+"Keeper.EstimatedPoolsRewards", sk+"Keeper.Estimated")
		c.auditQueryOnly("C12e", sk+"Keeper.EstimatedProviderRewards", sk+"Keeper.Estimated")
		c.RequireCallers("C12e", sk+"Keeper.advanceMonth", sk+"NewKeeper", sk+"Keeper.EstimatedPoolsRewards", sk+"Keeper.EstimatedProviderRewards")
		c.NotCovered("month counting over histories, calendar arithmetic of NextMonth, the exact discount percentage")
	})
}
