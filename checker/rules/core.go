// Package rules holds the per-property rule instances and the obligation/evidence
// plumbing shared by all of them.
package rules

import (
	"encoding/json"
	"fmt"
	"os"
	"path/filepath"
	"sort"
	"strconv"
	"strings"
	"time"

	"golang.org/x/tools/go/ssa"

	"lavaverif/checker/ir"
)

type Status string

const (
	Discharged Status = "discharged"
	Audited    Status = "audited"
	Violation  Status = "violation"
	Known      Status = "known-finding"
	Info       Status = "cross-reference"
)

type Obligation struct {
	Key        string `json:"key"`
	Pos        string `json:"pos,omitempty"`
	Status     Status `json:"status"`
	Detail     string `json:"detail,omitempty"`
	NonTrivial bool   `json:"-"`
}

type Ctx struct {
	P       *ir.Program
	Prop    string
	Tier    string
	Obls    []Obligation
	Undec   []string
	Rules   []string // rule texts applied
	Funcs   map[string]bool
	NotCov  []string
	Level   string
	Assume  []string
	Explain string
}

type propDef struct {
	id    string
	level string
	run   func(c *Ctx)
}

var registry = map[string]*propDef{}

func register(id, level string, run func(c *Ctx)) {
	registry[id] = &propDef{id: id, level: level, run: run}
}

func IDs() []string {
	var ids []string
	for id := range registry {
		ids = append(ids, id)
	}
	sort.Strings(ids)
	return ids
}

// ---- recording --------------------------------------------------------------

func (c *Ctx) Rule(text string) { c.Rules = append(c.Rules, text) }

func (c *Ctx) NotCovered(text string) { c.NotCov = append(c.NotCov, text) }

func (c *Ctx) Assumes(text string) { c.Assume = append(c.Assume, text) }

func (c *Ctx) add(o Obligation) {
	// keys are unique per run; repeated keys get #n
	n := 0
	for _, e := range c.Obls {
		if e.Key == o.Key || strings.HasPrefix(e.Key, o.Key+"#") {
			n++
		}
	}
	if n > 0 {
		o.Key = o.Key + "#" + strconv.Itoa(n+1)
	}
	c.Obls = append(c.Obls, o)
}

func (c *Ctx) OK(key, pos, detail string) {
	c.add(Obligation{Key: key, Pos: pos, Status: Discharged, Detail: detail, NonTrivial: true})
}

// OKTrivial records an existence-style match that needed no path/dataflow argument.
func (c *Ctx) OKTrivial(key, pos, detail string) {
	c.add(Obligation{Key: key, Pos: pos, Status: Discharged, Detail: detail})
}

func (c *Ctx) Audit(key, pos, reason string) {
	c.add(Obligation{Key: key, Pos: pos, Status: Audited, Detail: reason})
}

func (c *Ctx) Fail(key, pos, detail string) {
	c.add(Obligation{Key: key, Pos: pos, Status: Violation, Detail: detail, NonTrivial: true})
}

func (c *Ctx) Note(key, pos, detail string) {
	c.add(Obligation{Key: key, Pos: pos, Status: Info, Detail: detail})
}

// Undecided marks the run as unable to decide (anchor missing, count below the frozen
// minimum…). It is never reported as "held".
func (c *Ctx) Undecided(format string, a ...any) {
	c.Undec = append(c.Undec, fmt.Sprintf(format, a...))
}

// Fn resolves a function key; a missing anchor makes the run undecided.
func (c *Ctx) Fn(name string) *ssa.Function {
	fn := c.P.Fn(name)
	if fn == nil || fn.Blocks == nil {
		c.Undecided("anchor function %s not found (renamed or removed?)", name)
		return nil
	}
	if c.Funcs == nil {
		c.Funcs = map[string]bool{}
	}
	c.Funcs[name] = true
	return fn
}

// ---- known findings ---------------------------------------------------------

type KnownFinding struct {
	Property string `json:"property"`
	Key      string `json:"key"`
	What     string `json:"what"`
	Status   string `json:"status"` // "known" | "fixed"
	Commit   string `json:"commit,omitempty"`
	Line     string `json:"line,omitempty"` // for fixed entries: the textual record
}

func loadKnown(path string) ([]KnownFinding, error) {
	b, err := os.ReadFile(path)
	if err != nil {
		if os.IsNotExist(err) {
			return nil, nil
		}
		return nil, err
	}
	var f struct {
		Findings []KnownFinding `json:"findings"`
	}
	if err := json.Unmarshal(b, &f); err != nil {
		return nil, err
	}
	return f.Findings, nil
}

// ---- run + evidence ---------------------------------------------------------

func Run(p *ir.Program, id, tier, outDir, knownPath string, t0 time.Time) int {
	def, ok := registry[id]
	if !ok {
		fmt.Printf("UNDECIDED property=%s: no check registered\n", id)
		return 2
	}
	if boxedTypes == nil {
		initBoxed(p)
	}
	c := &Ctx{P: p, Prop: id, Tier: tier, Level: def.level}
	func() {
		defer func() {
			if r := recover(); r != nil {
				c.Undecided("engine panic: %v", r)
			}
		}()
		def.run(c)
	}()
	known, err := loadKnown(knownPath)
	if err != nil {
		c.Undecided("known findings file unreadable: %v", err)
	}
	// thorough tier: results of the both-ways test on the kept seeded changes
	selftest := SelfTests[id]
	for _, st := range selftest {
		if st.Outcome == "NOT-DETECTED" {
			c.Undecided("self-test: the seeded change %s is recorded as detected but the rules no longer report it (%s) — the check has become weaker", st.Seed, st.Detail)
		}
	}
	// apply known findings: exact key match, status "known" only
	nviol := 0
	var knownLines, violLines []string
	for i := range c.Obls {
		o := &c.Obls[i]
		if o.Status != Violation {
			continue
		}
		matched := false
		for _, k := range known {
			if k.Property == id && k.Status == "known" && k.Key == o.Key {
				matched = true
				o.Status = Known
				knownLines = append(knownLines, fmt.Sprintf("KNOWN-FINDING: property=%s %s %s — %s", id, o.Key, o.Pos, k.What))
				break
			}
		}
		if !matched {
			nviol++
			violLines = append(violLines, fmt.Sprintf("  %s  %s\n      %s", o.Key, o.Pos, o.Detail))
		}
	}
	seed := 0
	if s := os.Getenv("VERIF_SEED"); s != "" {
		seed, _ = strconv.Atoi(s)
	}
	// evidence
	counts := map[Status]int{}
	nontriv := map[string]bool{}
	var samples []any
	for _, o := range c.Obls {
		counts[o.Status]++
		if o.NonTrivial {
			nontriv[o.Key] = true
		}
	}
	for _, o := range c.Obls {
		if len(samples) >= 12 {
			break
		}
		if o.NonTrivial {
			samples = append(samples, o)
		}
	}
	if len(samples) == 0 {
		for _, o := range c.Obls {
			if len(samples) >= 5 {
				break
			}
			samples = append(samples, o)
		}
	}
	var fnames []string
	for f := range c.Funcs {
		fnames = append(fnames, f)
	}
	sort.Strings(fnames)
	obligations := counts[Discharged] + counts[Audited] + counts[Violation] + counts[Known]
	discharged := counts[Discharged] + counts[Audited]
	cov := map[string]any{
		"explanation":         c.Explain + " Rules applied: " + strings.Join(c.Rules, " || "),
		"obligations":         obligations,
		"discharged":          discharged,
		"evaluations":         len(c.Obls),
		"distinct_nontrivial": len(nontriv),
		"rule":                "one obligation per rule instance × matching construct in /repo's current source; non-trivial = needed a dominance / path / call-graph / dataflow argument (not a mere existence match); keyed by rule+construct, so distinct by construction",
		"samples":             samples,
		"checker_cmd":         fmt.Sprintf("/verif/bin/lavacheck -prop %s -tier %s", id, tier),
		"trusted_base":        []string{"go/types + go/ssa (x/tools v0.29.0) model of Go semantics", "cosmos-sdk / third-party packages behave as documented (analysed from export data only)", "frozen rule tables in /verif/checker/rules confirmed by reading"},
		"packages_loaded":     len(p.Pkgs),
		"functions_in_program": len(p.AllFuncs),
		"functions_analysed":  fnames,
		"audited_exceptions":  counts[Audited],
		"known_findings":      counts[Known],
		"cross_references":    counts[Info],
		"not_covered":         c.NotCov,
		"all_obligations":     c.Obls,
		"undecided":           c.Undec,
		"exhaustive":          true,
	}
	if tier == "thorough" {
		cov["seeded_change_selftest"] = map[string]any{
			"what":    "each kept seeded change recorded as detected is applied to the current tree as a source overlay (the files it touches are copied, patched and substituted; nothing is executed) and the same rules are run on the result; it must be reported there. A miss makes this run UNDECIDED, never a violation.",
			"results": selftest,
		}
	}
	ev := map[string]any{
		"property_id": id,
		"tier":        tier,
		"seed":        seed,
		"level":       c.Level,
		"coverage":    cov,
		"assumptions": append([]string{"static analysis of the source tree at " + p.Dir + "; decides the structural clauses listed under rules, not the value clauses listed under not_covered"}, c.Assume...),
		"wall_s":      time.Since(t0).Seconds(),
		"violations":  nviol,
	}
	_ = os.MkdirAll(outDir, 0o755)
	b, _ := json.MarshalIndent(ev, "", " ")
	if err := os.WriteFile(filepath.Join(outDir, id+".json"), b, 0o644); err != nil {
		fmt.Printf("UNDECIDED property=%s: cannot write evidence: %v\n", id, err)
		return 2
	}
	for _, l := range knownLines {
		fmt.Println(l)
	}
	fmt.Printf("property=%s tier=%s obligations=%d discharged=%d audited=%d known=%d violations=%d cross-ref=%d functions=%d wall=%.1fs\n",
		id, tier, obligations, counts[Discharged], counts[Audited], counts[Known], nviol, counts[Info], len(fnames), time.Since(t0).Seconds())
	if nviol > 0 {
		replay := filepath.Join(outDir, id+".violation.txt")
		txt := fmt.Sprintf("property %s — violations on %s\n%s\n\nrules:\n  %s\n", id, p.Dir, strings.Join(violLines, "\n"), strings.Join(c.Rules, "\n  "))
		_ = os.WriteFile(replay, []byte(txt), 0o644)
		fmt.Println(strings.Join(violLines, "\n"))
		fmt.Printf("VIOLATION property=%s replay=%s\n", id, replay)
		return 1
	}
	_ = os.Remove(filepath.Join(outDir, id+".violation.txt")) // a replay file of an earlier, violating run is stale now
	if len(c.Undec) > 0 {
		for _, u := range c.Undec {
			fmt.Printf("UNDECIDED property=%s: %s\n", id, u)
		}
		return 2
	}
	return 0
}
