// Package ir loads lavanet/lava from disk (type-checked syntax + SSA) and offers the
// resolved-program helpers the rule engines are written against. Nothing here runs
// lava code.
package ir

import (
	"fmt"
	"go/token"
	"go/types"
	"os"
	"path/filepath"
	"sort"
	"strings"

	"golang.org/x/tools/go/packages"
	"golang.org/x/tools/go/ssa"
	"golang.org/x/tools/go/ssa/ssautil"
)

const ModPath = "github.com/lavanet/lava/v5/"

type Program struct {
	Dir     string
	Fset    *token.FileSet
	Pkgs    []*packages.Package
	Prog    *ssa.Program
	SSAPkgs []*ssa.Package
	// Funcs: every source-level function/method/closure of the loaded lava packages,
	// keyed by short qualified name (see FuncName).
	Funcs    map[string]*ssa.Function
	AllFuncs []*ssa.Function
	byPkg    map[string]*packages.Package
}

// Load type-checks the given patterns under dir (default ./...) with the real build's
// flags and builds SSA for the root packages (dependencies from export data).
// Overlay, when set before Load, replaces (or adds) source files by absolute path: the
// analysed program is the tree at dir with these files substituted. Used by the
// thorough tier to analyse a seeded change without copying the tree.
var Overlay map[string][]byte

func Load(dir string, patterns ...string) (*Program, error) {
	if len(patterns) == 0 {
		patterns = []string{"./..."}
	}
	env := os.Environ()
	env = append(env, "GOFLAGS=-mod=mod", "GOPROXY=off", "GOSUMDB=off", "GOTOOLCHAIN=local", "GOWORK=off")
	cfg := &packages.Config{
		Mode:    packages.LoadSyntax | packages.NeedModule,
		Dir:     dir,
		Env:     env,
		Tests:   false,
		Overlay: Overlay,
	}
	pkgs, err := packages.Load(cfg, patterns...)
	if err != nil {
		return nil, err
	}
	if len(pkgs) == 0 {
		return nil, fmt.Errorf("no packages loaded from %s %v", dir, patterns)
	}
	var errs []string
	for _, p := range pkgs {
		for _, e := range p.Errors {
			errs = append(errs, e.Error())
		}
	}
	if len(errs) > 0 {
		if len(errs) > 10 {
			errs = errs[:10]
		}
		return nil, fmt.Errorf("load/type errors: %s", strings.Join(errs, "; "))
	}
	prog, ssapkgs := ssautil.Packages(pkgs, ssa.InstantiateGenerics)
	prog.Build()
	p := &Program{Dir: dir, Fset: pkgs[0].Fset, Pkgs: pkgs, Prog: prog, Funcs: map[string]*ssa.Function{}, byPkg: map[string]*packages.Package{}}
	for i, sp := range ssapkgs {
		if sp == nil {
			return nil, fmt.Errorf("no SSA for package %s", pkgs[i].PkgPath)
		}
		p.SSAPkgs = append(p.SSAPkgs, sp)
		p.byPkg[pkgs[i].PkgPath] = pkgs[i]
	}
	p.index()
	return p, nil
}

func (p *Program) index() {
	seen := map[*ssa.Function]bool{}
	var add func(fn *ssa.Function)
	add = func(fn *ssa.Function) {
		if fn == nil || seen[fn] {
			return
		}
		seen[fn] = true
		if fn.Blocks == nil && fn.Synthetic == "" {
			// external / bodiless: still index by name
		}
		if fn.Synthetic != "" && !strings.HasPrefix(fn.Synthetic, "instance of") && !strings.HasPrefix(fn.Synthetic, "package initializer") {
			return
		}
		name := FuncName(fn)
		if old, ok := p.Funcs[name]; ok && old != fn {
			// generic instances share a name with their origin; keep the origin
			if fn.Origin() != nil {
				p.AllFuncs = append(p.AllFuncs, fn)
				for _, a := range fn.AnonFuncs {
					add(a)
				}
				return
			}
		}
		p.Funcs[name] = fn
		p.AllFuncs = append(p.AllFuncs, fn)
		for _, a := range fn.AnonFuncs {
			add(a)
		}
	}
	for _, sp := range p.SSAPkgs {
		for _, m := range sp.Members {
			switch m := m.(type) {
			case *ssa.Function:
				add(m)
			case *ssa.Type:
				t := m.Type()
				for _, tt := range []types.Type{t, types.NewPointer(t)} {
					ms := p.Prog.MethodSets.MethodSet(tt)
					for i := 0; i < ms.Len(); i++ {
						sel := ms.At(i)
						fobj, ok := sel.Obj().(*types.Func)
						if !ok || fobj.Pkg() == nil || fobj.Pkg() != sp.Pkg {
							continue
						}
						// only methods declared on this type (not promoted)
						if len(sel.Index()) != 1 {
							continue
						}
						if fn := p.Prog.FuncValue(fobj); fn != nil {
							add(fn)
						}
					}
				}
			}
		}
	}
	// generic instantiations reachable from the above
	for fn := range ssautil.AllFunctions(p.Prog) {
		if fn.Origin() != nil && fn.Pkg == nil && fn.Origin().Pkg != nil && p.isLavaSSAPkg(fn.Origin().Pkg) {
			if !seen[fn] {
				seen[fn] = true
				p.AllFuncs = append(p.AllFuncs, fn)
				for _, a := range fn.AnonFuncs {
					if !seen[a] {
						seen[a] = true
						p.AllFuncs = append(p.AllFuncs, a)
					}
				}
			}
		}
	}
	sort.Slice(p.AllFuncs, func(i, j int) bool {
		a, b := p.AllFuncs[i], p.AllFuncs[j]
		if FuncName(a) != FuncName(b) {
			return FuncName(a) < FuncName(b)
		}
		return a.Pos() < b.Pos()
	})
}

func (p *Program) isLavaSSAPkg(sp *ssa.Package) bool {
	for _, q := range p.SSAPkgs {
		if q == sp {
			return true
		}
	}
	return false
}

// ShortPkg strips the module prefix.
func ShortPkg(path string) string {
	if path == strings.TrimSuffix(ModPath, "/") {
		return "."
	}
	return strings.TrimPrefix(path, ModPath)
}

// FuncName gives the construct key of a function: pkg.Func, pkg.Recv.Method (pointer
// receivers not distinguished), closures as parent$N.
func FuncName(fn *ssa.Function) string {
	if fn == nil {
		return "<nil>"
	}
	if fn.Parent() != nil {
		// closure: parent name + index suffix taken from the ssa name
		n := fn.Name()
		if i := strings.LastIndex(n, "$"); i >= 0 {
			return FuncName(fn.Parent()) + n[i:]
		}
		return FuncName(fn.Parent()) + "$" + n
	}
	if o := fn.Origin(); o != nil {
		fn = o
	}
	pkg := ""
	if fn.Pkg != nil {
		pkg = ShortPkg(fn.Pkg.Pkg.Path())
	} else if fn.Object() != nil && fn.Object().Pkg() != nil {
		pkg = ShortPkg(fn.Object().Pkg().Path())
	}
	if recv := fn.Signature.Recv(); recv != nil {
		return pkg + "." + typeBaseName(recv.Type()) + "." + fn.Name()
	}
	return pkg + "." + fn.Name()
}

func typeBaseName(t types.Type) string {
	for {
		if pt, ok := t.(*types.Pointer); ok {
			t = pt.Elem()
			continue
		}
		break
	}
	if n, ok := t.(*types.Named); ok {
		return n.Obj().Name()
	}
	if a, ok := t.(*types.Alias); ok {
		return a.Obj().Name()
	}
	return t.String()
}

// TypeName gives pkg.Type for a named type (pointers stripped), short package path.
func TypeName(t types.Type) string {
	for {
		if pt, ok := t.(*types.Pointer); ok {
			t = pt.Elem()
			continue
		}
		break
	}
	switch n := t.(type) {
	case *types.Named:
		if n.Obj().Pkg() == nil {
			return n.Obj().Name()
		}
		return ShortPkg(n.Obj().Pkg().Path()) + "." + n.Obj().Name()
	case *types.Alias:
		return TypeName(types.Unalias(n))
	}
	return types.TypeString(t, func(p *types.Package) string { return ShortPkg(p.Path()) })
}

// Fn returns the function with that key or nil.
func (p *Program) Fn(name string) *ssa.Function { return p.Funcs[name] }

// Pos renders a position relative to the repo dir.
func (p *Program) Pos(pos token.Pos) string {
	if !pos.IsValid() {
		return "-"
	}
	ps := p.Fset.Position(pos)
	rel, err := filepath.Rel(p.Dir, ps.Filename)
	if err != nil {
		rel = ps.Filename
	}
	return fmt.Sprintf("%s:%d", rel, ps.Line)
}

// InstrPos gives the best position for an instruction (falls back to the function).
func (p *Program) InstrPos(in ssa.Instruction) string {
	if in == nil {
		return "-"
	}
	if in.Pos().IsValid() {
		return p.Pos(in.Pos())
	}
	// look for a nearby positioned instruction in the block
	if b := in.Block(); b != nil {
		for _, j := range b.Instrs {
			if j.Pos().IsValid() {
				return p.Pos(j.Pos()) + "~"
			}
		}
	}
	if in.Parent() != nil {
		return p.Pos(in.Parent().Pos()) + "~"
	}
	return "-"
}

// Package returns the go/packages package for a short or full path.
func (p *Program) Package(path string) *packages.Package {
	if q, ok := p.byPkg[path]; ok {
		return q
	}
	return p.byPkg[ModPath+path]
}

// WithClosures returns fn and all functions nested in it.
func WithClosures(fn *ssa.Function) []*ssa.Function {
	out := []*ssa.Function{fn}
	for _, a := range fn.AnonFuncs {
		out = append(out, WithClosures(a)...)
	}
	return out
}

// CalleeName returns the resolved callee key of a call: a static callee's FuncName, or
// for interface invokes "invoke:<iface type>.<method>", or "dynamic" for func values.
func CalleeName(c *ssa.CallCommon) string {
	if c.IsInvoke() {
		return "invoke:" + TypeName(c.Value.Type()) + "." + c.Method.Name()
	}
	if f := c.StaticCallee(); f != nil {
		return StaticName(f)
	}
	if b, ok := c.Value.(*ssa.Builtin); ok {
		return "builtin:" + b.Name()
	}
	return "dynamic"
}

// StaticName: FuncName for lava functions; for external functions pkgpath.Recv.Name with
// the full import path.
func StaticName(f *ssa.Function) string {
	// bound method closures / thunks: unwrap
	if f.Synthetic != "" && f.Object() != nil {
		if fo, ok := f.Object().(*types.Func); ok {
			return objFuncName(fo)
		}
	}
	if f.Object() != nil {
		if fo, ok := f.Object().(*types.Func); ok {
			if f.Origin() != nil {
				if oo, ok := f.Origin().Object().(*types.Func); ok {
					return objFuncName(oo)
				}
			}
			return objFuncName(fo)
		}
	}
	return FuncName(f)
}

func objFuncName(fo *types.Func) string {
	pkg := ""
	if fo.Pkg() != nil {
		pkg = ShortPkg(fo.Pkg().Path())
	}
	sig := fo.Type().(*types.Signature)
	if recv := sig.Recv(); recv != nil {
		return pkg + "." + typeBaseName(recv.Type()) + "." + fo.Name()
	}
	return pkg + "." + fo.Name()
}

// CallOf returns the CallCommon of a call-like instruction (Call, Defer, Go).
func CallOf(in ssa.Instruction) *ssa.CallCommon {
	switch c := in.(type) {
	case *ssa.Call:
		return &c.Call
	case *ssa.Defer:
		return &c.Call
	case *ssa.Go:
		return &c.Call
	}
	return nil
}

// EachInstr visits every instruction of fn (not of nested closures).
func EachInstr(fn *ssa.Function, f func(ssa.Instruction)) {
	for _, b := range fn.Blocks {
		for _, in := range b.Instrs {
			f(in)
		}
	}
}
