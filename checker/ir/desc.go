package ir

import (
	"fmt"
	"go/constant"
	"go/token"
	"go/types"
	"sort"
	"strings"

	"golang.org/x/tools/go/ssa"
)

// Desc renders an SSA value as a canonical expression over *resolved* entities
// (callee keys, field objects, parameter indices), independent of local names, source
// layout and statement order. Rules match on these descriptors.
//
//	call(<callee>)(args…)   invoke(<iface>.<m>)(recv,args…)   <x>.Field   <x>[i]
//	param#i  recv  const(v)  nil  global(pkg.Name)  (a op b)  !a  phi{a|b}  <t>#i (tuple elem)
func Desc(v ssa.Value) string { return desc(v, 6, map[ssa.Value]bool{}) }

// DescN with explicit depth.
func DescN(v ssa.Value, depth int) string { return desc(v, depth, map[ssa.Value]bool{}) }

func desc(v ssa.Value, depth int, seen map[ssa.Value]bool) string {
	if v == nil {
		return "<nil>"
	}
	if depth <= 0 {
		return "…"
	}
	switch x := v.(type) {
	case *ssa.Const:
		if x.Value == nil {
			if _, ok := x.Type().Underlying().(*types.Basic); ok {
				return "const(zero)"
			}
			return "nil"
		}
		if x.Value.Kind() == constant.String {
			return "const(" + x.Value.ExactString() + ")"
		}
		return "const(" + x.Value.String() + ")"
	case *ssa.Parameter:
		fn := x.Parent()
		for i, p := range fn.Params {
			if p == x {
				if fn.Signature.Recv() != nil {
					if i == 0 {
						return "recv"
					}
					return fmt.Sprintf("param#%d", i-1)
				}
				return fmt.Sprintf("param#%d", i)
			}
		}
		return "param?"
	case *ssa.FreeVar:
		return "free(" + x.Name() + ")"
	case *ssa.Global:
		pk := ""
		if x.Pkg != nil {
			pk = ShortPkg(x.Pkg.Pkg.Path()) + "."
		}
		return "global(" + pk + x.Name() + ")"
	case *ssa.Function:
		return "func(" + StaticName(x) + ")"
	case *ssa.Builtin:
		return "builtin(" + x.Name() + ")"
	case *ssa.Call:
		return descCall(&x.Call, depth, seen)
	case *ssa.Extract:
		return desc(x.Tuple, depth, seen) + fmt.Sprintf("#%d", x.Index)
	case *ssa.FieldAddr:
		return desc(x.X, depth-1, seen) + "." + fieldName(x.X.Type(), x.Field)
	case *ssa.Field:
		return desc(x.X, depth-1, seen) + "." + fieldName(x.X.Type(), x.Field)
	case *ssa.IndexAddr:
		return desc(x.X, depth-1, seen) + "[" + descIdx(x.Index, depth-1, seen) + "]"
	case *ssa.Index:
		return desc(x.X, depth-1, seen) + "[" + descIdx(x.Index, depth-1, seen) + "]"
	case *ssa.Lookup:
		return desc(x.X, depth-1, seen) + "[" + desc(x.Index, depth-1, seen) + "]"
	case *ssa.UnOp:
		switch x.Op {
		case token.MUL:
			return desc(x.X, depth, seen) // load: transparent
		case token.NOT:
			return "!" + desc(x.X, depth-1, seen)
		case token.ARROW:
			return "recv<-(" + desc(x.X, depth-1, seen) + ")"
		}
		return x.Op.String() + desc(x.X, depth-1, seen)
	case *ssa.BinOp:
		l, r := desc(x.X, depth-1, seen), desc(x.Y, depth-1, seen)
		switch x.Op {
		case token.ADD, token.MUL, token.AND, token.OR, token.XOR:
			// commutative: canonical operand order (strings excluded: + is concatenation)
			if b, ok := x.Type().Underlying().(*types.Basic); ok && b.Info()&types.IsString == 0 && r < l {
				l, r = r, l
			}
		}
		return "(" + l + " " + x.Op.String() + " " + r + ")"
	case *ssa.Phi:
		if seen[v] {
			return "phi↺"
		}
		seen[v] = true
		defer delete(seen, v)
		var parts []string
		for _, e := range x.Edges {
			parts = append(parts, desc(e, depth-1, seen))
		}
		sort.Strings(parts)
		parts = dedup(parts)
		return "phi{" + strings.Join(parts, "|") + "}"
	case *ssa.Alloc:
		if sv := SingleStore(x); sv != nil && !seen[v] {
			seen[v] = true
			defer delete(seen, v)
			return desc(sv, depth, seen)
		}
		return "local(" + TypeName(x.Type().(*types.Pointer).Elem()) + ")"
	case *ssa.MakeInterface:
		return desc(x.X, depth, seen)
	case *ssa.ChangeType:
		return desc(x.X, depth, seen)
	case *ssa.ChangeInterface:
		return desc(x.X, depth, seen)
	case *ssa.Convert:
		return "conv<" + TypeName(x.Type()) + ">(" + desc(x.X, depth-1, seen) + ")"
	case *ssa.TypeAssert:
		return "assert<" + TypeName(x.AssertedType) + ">(" + desc(x.X, depth-1, seen) + ")"
	case *ssa.Slice:
		return "slice(" + desc(x.X, depth-1, seen) + ")"
	case *ssa.MakeClosure:
		return "closure(" + FuncName(x.Fn.(*ssa.Function)) + ")"
	case *ssa.MakeMap:
		return "makemap"
	case *ssa.MakeSlice:
		return "makeslice"
	case *ssa.MakeChan:
		return "makechan"
	case *ssa.Range:
		return "range(" + desc(x.X, depth-1, seen) + ")"
	case *ssa.Next:
		return "next(" + desc(x.Iter, depth-1, seen) + ")"
	case *ssa.Select:
		return "select"
	case *ssa.SliceToArrayPointer:
		return desc(x.X, depth, seen)
	case *ssa.MultiConvert:
		return desc(x.X, depth, seen)
	}
	return fmt.Sprintf("?%T", v)
}

// SingleStore: if the local variable a is assigned exactly once as a whole (the spill of
// a value receiver / parameter, or `x, ok := f()` of a struct whose address is taken
// later) and none of its fields or elements is stored to separately, return the stored
// value; the variable then denotes that value everywhere.
func SingleStore(a *ssa.Alloc) ssa.Value {
	refs := a.Referrers()
	if refs == nil {
		return nil
	}
	var val ssa.Value
	n := 0
	for _, r := range *refs {
		switch x := r.(type) {
		case *ssa.Store:
			if x.Addr == a {
				n++
				val = x.Val
			}
		case *ssa.FieldAddr:
			if addrWritten(x) {
				return nil
			}
		case *ssa.IndexAddr:
			if addrWritten(x) {
				return nil
			}
		case *ssa.UnOp, *ssa.DebugRef:
		default:
			// address escapes (call argument, closure capture …): a callee may write it
			if _, isCall := r.(ssa.CallInstruction); isCall {
				// value receivers are spilled and then passed by address to pointer
				// methods only if the source says so; treat as escaping
				return nil
			}
			if _, ok := r.(*ssa.MakeClosure); ok {
				return nil
			}
		}
	}
	if n != 1 {
		return nil
	}
	return val
}

func addrWritten(v ssa.Value) bool {
	refs := v.Referrers()
	if refs == nil {
		return false
	}
	for _, r := range *refs {
		switch x := r.(type) {
		case *ssa.Store:
			if x.Addr == v {
				return true
			}
		case *ssa.FieldAddr:
			if addrWritten(x) {
				return true
			}
		case *ssa.IndexAddr:
			if addrWritten(x) {
				return true
			}
		case ssa.CallInstruction:
			return true
		}
	}
	return false
}

// descIdx renders slice/array indices: constants verbatim, anything else as "i" (loop
// counters carry no meaning for the rules and their phi webs only add noise).
func descIdx(v ssa.Value, depth int, seen map[ssa.Value]bool) string {
	if c, ok := v.(*ssa.Const); ok {
		return desc(c, depth, seen)
	}
	return "i"
}

func descCall(c *ssa.CallCommon, depth int, seen map[ssa.Value]bool) string {
	var args []string
	if c.IsInvoke() {
		args = append(args, desc(c.Value, depth-1, seen))
	}
	for _, a := range c.Args {
		args = append(args, desc(a, depth-1, seen))
	}
	name := CalleeName(c)
	if name == "dynamic" {
		name = "dyn:" + desc(c.Value, depth-1, seen)
	}
	if c.IsInvoke() {
		return "invoke(" + strings.TrimPrefix(name, "invoke:") + ")(" + strings.Join(args, ",") + ")"
	}
	return "call(" + name + ")(" + strings.Join(args, ",") + ")"
}

func fieldName(t types.Type, i int) string {
	for {
		if pt, ok := t.Underlying().(*types.Pointer); ok {
			t = pt.Elem()
			continue
		}
		break
	}
	st, ok := t.Underlying().(*types.Struct)
	if !ok || i >= st.NumFields() {
		return fmt.Sprintf("f%d", i)
	}
	return st.Field(i).Name()
}

// FieldOf returns the struct field object addressed by a FieldAddr/Field instruction.
func FieldOf(v ssa.Value) *types.Var {
	var t types.Type
	var i int
	switch x := v.(type) {
	case *ssa.FieldAddr:
		t, i = x.X.Type(), x.Field
	case *ssa.Field:
		t, i = x.X.Type(), x.Field
	default:
		return nil
	}
	for {
		if pt, ok := t.Underlying().(*types.Pointer); ok {
			t = pt.Elem()
			continue
		}
		break
	}
	st, ok := t.Underlying().(*types.Struct)
	if !ok || i >= st.NumFields() {
		return nil
	}
	return st.Field(i)
}

// FieldKey gives "pkg.Type.Field" for a FieldAddr/Field instruction.
func FieldKey(v ssa.Value) string {
	var t types.Type
	var i int
	switch x := v.(type) {
	case *ssa.FieldAddr:
		t, i = x.X.Type(), x.Field
	case *ssa.Field:
		t, i = x.X.Type(), x.Field
	default:
		return ""
	}
	return TypeName(t) + "." + fieldName(t, i)
}

func dedup(s []string) []string {
	var out []string
	for i, x := range s {
		if i == 0 || x != s[i-1] {
			out = append(out, x)
		}
	}
	return out
}
