package ir

import (
	"go/token"
	"strings"

	"golang.org/x/tools/go/ssa"
)

// Guard is a branch decision that every path from the function entry to some program
// point has taken: the If in block Block was left through its true (Edge) or false edge.
type Guard struct {
	If    *ssa.If
	Block *ssa.BasicBlock
	Edge  bool
	Fact  string // canonical fact known to hold (see Fact)
}

// edgeDominates reports whether the CFG edge from->to dominates block target: to
// dominates target and every other predecessor of to is itself dominated by to (loop
// back edges), so reaching target implies having traversed from->to.
func edgeDominates(from, to, target *ssa.BasicBlock) bool {
	if !to.Dominates(target) {
		return false
	}
	for _, p := range to.Preds {
		if p == from {
			continue
		}
		if !to.Dominates(p) {
			return false
		}
	}
	return true
}

// GuardsOfBlock lists, innermost first, the branch decisions that dominate block b.
func GuardsOfBlock(b *ssa.BasicBlock) []Guard {
	var out []Guard
	for d := b.Idom(); d != nil; d = d.Idom() {
		if len(d.Instrs) == 0 {
			continue
		}
		iff, ok := d.Instrs[len(d.Instrs)-1].(*ssa.If)
		if !ok || len(d.Succs) != 2 || d.Succs[0] == d.Succs[1] {
			continue
		}
		t := edgeDominates(d, d.Succs[0], b)
		f := edgeDominates(d, d.Succs[1], b)
		if t == f {
			continue
		}
		out = append(out, Guard{If: iff, Block: d, Edge: t, Fact: Fact(iff.Cond, t)})
	}
	return out
}

// Guards lists the dominating branch decisions of an instruction.
func Guards(in ssa.Instruction) []Guard { return GuardsOfBlock(in.Block()) }

// GuardFacts is Guards reduced to the fact strings.
func GuardFacts(in ssa.Instruction) []string {
	var out []string
	for _, g := range Guards(in) {
		out = append(out, g.Fact)
	}
	return out
}

var negOp = map[token.Token]token.Token{
	token.EQL: token.NEQ, token.NEQ: token.EQL,
	token.LSS: token.GEQ, token.GEQ: token.LSS,
	token.GTR: token.LEQ, token.LEQ: token.GTR,
}
var swapOp = map[token.Token]token.Token{
	token.GTR: token.LSS, token.GEQ: token.LEQ,
	token.LSS: token.GTR, token.LEQ: token.GEQ,
	token.EQL: token.EQL, token.NEQ: token.NEQ,
}

// Fact renders "cond is <edge>" canonically: negations are pushed into comparison
// operators, > and >= are rewritten to < and <= by swapping operands, operands of == and
// != are ordered (nil / constants last), so that `a<b`, `b>a`, `!(a>=b)` and the
// switch-form all give the same string.
func Fact(cond ssa.Value, edge bool) string {
	for {
		if u, ok := cond.(*ssa.UnOp); ok && u.Op == token.NOT {
			cond = u.X
			edge = !edge
			continue
		}
		break
	}
	if b, ok := cond.(*ssa.BinOp); ok {
		if _, isCmp := negOp[b.Op]; isCmp {
			op := b.Op
			if !edge {
				op = negOp[op]
			}
			x, y := Desc(b.X), Desc(b.Y)
			switch op {
			case token.GTR, token.GEQ:
				op = swapOp[op]
				x, y = y, x
			case token.EQL, token.NEQ:
				if rank(x) > rank(y) || (rank(x) == rank(y) && x > y) {
					x, y = y, x
				}
			}
			return "(" + x + " " + op.String() + " " + y + ")"
		}
	}
	d := Desc(cond)
	if !edge {
		return "!" + d
	}
	return d
}

func rank(s string) int {
	switch {
	case s == "nil":
		return 3
	case strings.HasPrefix(s, "const("):
		return 2
	}
	return 1
}

// HasFact reports whether any of the facts satisfies all of the given substrings.
func HasFact(facts []string, subs ...string) bool {
	for _, f := range facts {
		ok := true
		for _, s := range subs {
			if !strings.Contains(f, s) {
				ok = false
				break
			}
		}
		if ok {
			return true
		}
	}
	return false
}

// Reachable computes the set of blocks reachable from start without entering any block
// for which stop returns true (start itself is entered unconditionally).
func Reachable(start *ssa.BasicBlock, stop func(*ssa.BasicBlock) bool) map[*ssa.BasicBlock]bool {
	seen := map[*ssa.BasicBlock]bool{start: true}
	work := []*ssa.BasicBlock{start}
	for len(work) > 0 {
		b := work[len(work)-1]
		work = work[:len(work)-1]
		for _, s := range b.Succs {
			if seen[s] || (stop != nil && stop(s)) {
				continue
			}
			seen[s] = true
			work = append(work, s)
		}
	}
	return seen
}

// Loop is a natural loop: Header dominates every block of Blocks, and every block of
// Blocks reaches a back edge to Header without leaving the loop.
type Loop struct {
	Header *ssa.BasicBlock
	Blocks map[*ssa.BasicBlock]bool
}

// NaturalLoops computes the natural loops of fn (loops sharing a header are merged).
func NaturalLoops(fn *ssa.Function) []*Loop {
	byHeader := map[*ssa.BasicBlock]*Loop{}
	var order []*ssa.BasicBlock
	for _, n := range fn.Blocks {
		for _, h := range n.Succs {
			if !h.Dominates(n) {
				continue
			}
			l := byHeader[h]
			if l == nil {
				l = &Loop{Header: h, Blocks: map[*ssa.BasicBlock]bool{h: true}}
				byHeader[h] = l
				order = append(order, h)
			}
			// blocks that reach n without passing h
			work := []*ssa.BasicBlock{n}
			for len(work) > 0 {
				b := work[len(work)-1]
				work = work[:len(work)-1]
				if l.Blocks[b] {
					continue
				}
				l.Blocks[b] = true
				work = append(work, b.Preds...)
			}
		}
	}
	var out []*Loop
	for _, h := range order {
		out = append(out, byHeader[h])
	}
	return out
}

// SameIterationReach: block to is reachable from block from without re-entering the
// header of the innermost loop that contains both (i.e. within one iteration of it). When
// no loop contains both, plain reachability.
func SameIterationReach(fn *ssa.Function, from, to *ssa.BasicBlock) bool {
	var best *Loop
	for _, l := range NaturalLoops(fn) {
		if l.Blocks[from] && l.Blocks[to] && (best == nil || len(l.Blocks) < len(best.Blocks)) {
			best = l
		}
	}
	if from == to {
		return true
	}
	if best == nil {
		return Reachable(from, nil)[to]
	}
	return Reachable(from, func(b *ssa.BasicBlock) bool { return b == best.Header })[to]
}
