#!/usr/bin/env python3
"""keep_seed.py <src dir> <seed name> <verify RESULT line> <detected: yes|no|partial> <by which obligation keys / why missed>"""
import json, os, shutil, sys
src, name, result, detected, by = sys.argv[1:6]
dst = os.path.join('/verif/seeded', name)
os.makedirs(dst, exist_ok=True)
for f in ('patch.diff', 'demo_test.go.txt'):
    shutil.copy(os.path.join(src, f), os.path.join(dst, f))
m = json.load(open(os.path.join(src, 'meta.json')))
out = {
    'property': m['property'],
    'summary': m.get('summary'),
    'why_breaks': m.get('why_breaks'),
    'needs_to_manifest': m.get('needs_to_manifest'),
    'demo_cmd': m.get('demo_cmd'),
    'author': 'independent sub-agent given only the property text and a scratch worktree',
    'confirmed_by_me': {
        'how': '/verif/tools/verify_seed.sh in a scratch git worktree of /repo (never /repo itself): git apply; go build ./...; demo with patch (must fail) and without (must pass); existing tests of the touched modules with the patch',
        'result': result,
    },
    'checker_verdict': {'detected': detected, 'by': by,
                        'how': '/verif/tools/seedcheck.sh <patch> <prop> (lavacheck -repo <scratch worktree with patch applied>)'},
}
json.dump(out, open(os.path.join(dst, 'meta.json'), 'w'), indent=1)
print('kept', dst)
