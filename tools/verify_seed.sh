#!/bin/bash
# usage: verify_seed.sh <seed dir with patch.diff, demo_test.go.txt, meta.json> <scratch worktree> [full]
# Confirms, in a scratch worktree (never /repo): the patch applies and builds; the demo
# fails with it and passes without it; the existing tests of the touched modules (or the
# whole suite with "full") still pass with it. Prints one RESULT line.
set -u
SD=$1; WT=$2; FULL=${3:-}
export GOFLAGS=-mod=mod GOPROXY=off GOSUMDB=off GOTOOLCHAIN=local GOWORK=off
cd "$WT" || exit 3
git checkout -q -- . && git clean -fdq
DEMO=$(python3 -c "import json;print(json.load(open('$SD/meta.json'))['demo_cmd'])")
# strip env assignments the agents may have prefixed; they are exported above
git apply "$SD/patch.diff" || { echo "RESULT $SD apply=FAIL"; exit 1; }
if ! go build ./... >/tmp/vs_build.$$ 2>&1; then echo "RESULT $SD build=FAIL"; tail -5 /tmp/vs_build.$$; exit 1; fi
bash -c "$DEMO" >"$SD/demo_with.log" 2>&1; with=$?
git apply -R "$SD/patch.diff"
bash -c "$DEMO" >"$SD/demo_without.log" 2>&1; without=$?
git checkout -q -- . && git clean -fdq
git apply "$SD/patch.diff"
if [ -n "$FULL" ]; then PK="./..."; else
PK=$(grep '^+++ b/' "$SD/patch.diff" | sed 's|^+++ b/||' | awk -F/ '{ if ($1=="x"||$1=="protocol"||$1=="ecosystem") print "./"$1"/"$2"/..."; else print "./"$1"/..." }' | sort -u | tr '\n' ' ')
fi
go test -vet=off -count=1 -timeout 25m $PK >"$SD/existing_with.log" 2>&1; ex=$?
git checkout -q -- . && git clean -fdq
nfail=$(grep -c '^FAIL\|^--- FAIL' "$SD/existing_with.log")
echo "RESULT $SD apply=ok build=ok demo_with_patch_exit=$with demo_without_patch_exit=$without existing_tests_exit=$ex fails=$nfail pkgs=[$PK]"
rm -f /tmp/vs_build.$$
