#!/usr/bin/env python3
"""Regenerates the generated part of DESIGN.md (between the BEGIN/END GENERATED markers)
from evidence/*.json, seeded/*/meta.json, known_findings.json and tools/claims.json."""
import glob, json, os, re

V = '/verif'
claims = json.load(open(f'{V}/tools/claims.json'))
known = json.load(open(f'{V}/known_findings.json'))['findings']
props = [json.loads(l) for l in open(f'{V}/properties.jsonl')]


def esc(s):
    return (s or '').replace('|', '\\|').replace('\n', ' ')


def short(s, n):
    s = esc(s)
    return s if len(s) <= n else s[: n - 1] + '…'


seeds = {}
for d in sorted(glob.glob(f'{V}/seeded/*/')):
    m = json.load(open(d + 'meta.json'))
    seeds.setdefault(m['property'], []).append((os.path.basename(d.rstrip('/')), m))

out = []
out.append('### 9.1 Status per property (generated from evidence/*.json)\n')
out.append('| id | title | status | obligations (discharged / audited / known) | cross-refs | seeded changes (detected/kept) |')
out.append('|---|---|---|---|---|---|')
for p in props:
    pid = p['id']
    c = claims.get(pid, {})
    evp = f'{V}/evidence/{pid}.json'
    if 'na' in c or pid not in claims:
        out.append(f"| {pid} | {short(p['title'], 60)} | not applicable | – | – | – |")
        continue
    ob = '?'
    xr = '?'
    if os.path.exists(evp):
        e = json.load(open(evp))['coverage']
        disc = e['discharged'] - e['audited_exceptions']
        ob = f"{e['obligations']} ({disc} / {e['audited_exceptions']} / {e['known_findings']})"
        xr = str(e['cross_references'])
    sl = seeds.get(pid, [])
    det = sum(1 for _, m in sl if str(m['checker_verdict']['detected']).startswith('yes'))
    out.append(f"| {pid} | {short(p['title'], 60)} | claimed ({'proof' if pid == 'C09' else 'other'}) | {ob} | {xr} | {det}/{len(sl)} |")
out.append('')

out.append('### 9.2 Genuine defects found by the checks\n')
out.append('| property | obligation that reported it | outcome | what fails |')
out.append('|---|---|---|---|')
for k in known:
    outcome = f"fixed in /repo `{k['commit']}`" if k['status'] == 'fixed' else '**known finding** (not repaired)'
    out.append(f"| {k['property']} | `{short(k['key'], 95)}` | {outcome} | {short(k['what'], 420)} |")
out.append('')

out.append('### 9.3 Seeded changes and what catches them (generated from seeded/*/meta.json)\n')
out.append('Every row was produced by a sub-agent that saw only the property text and its own scratch worktree, and was confirmed by `tools/verify_seed.sh` (applies, builds, demo fails with / passes without the change, existing tests of the touched modules pass). "blind" = the check as it stood before I looked at the change reported it; otherwise the note says what was added afterwards.\n')
out.append('| seed | change (one line) | verdict | reported by |')
out.append('|---|---|---|---|')
for pid in sorted(seeds):
    for name, m in seeds[pid]:
        v = m['checker_verdict']
        out.append(f"| {name} | {short(m.get('summary'), 170)} | {short(str(v.get('detected')), 230)} | `{short(str(v.get('by')), 150)}` |")
out.append('')
def tally(pred):
    blind = after = nodet = 0
    for pid in seeds:
        for name, m in seeds[pid]:
            if not pred(name):
                continue
            v = m['checker_verdict']
            det = str(v.get('detected'))
            t = (det + ' ' + str(v.get('by'))).lower()
            if not det.startswith('yes'):
                nodet += 1
            elif re.search(r'missed|added after|written after|rule added|after this seed|undecided|first version', t):
                after += 1
            else:
                blind += 1
    return f'{blind + after + nodet} kept changes — {blind} reported blind, {after} reported only after a rule was added or repaired, {nodet} not detected by the property they were written for.'
def rnd(name):
    if re.search(r'_[5-9]$', name):
        return 3
    return 2 if re.search(r'_[34]$', name) else 1
out.append('Tally, all rounds: ' + tally(lambda n: True) + '\n')
out.append('Tally, round 1 (`_1`, `_2`: the obvious sites): ' + tally(lambda n: rnd(n) == 1) + '\n')
out.append('Tally, round 2 (`_3`, `_4`: "less obvious sites", all run blind first): ' + tally(lambda n: rnd(n) == 2) + '\n')
if any(rnd(n) == 3 for pid in seeds for n, _ in seeds[pid]):
    out.append('Tally, round 3 (`_5`, `_6`: a third pair for twelve properties — first those whose round-2 pair was missed entirely, then four thin ones — all run blind first): ' + tally(lambda n: rnd(n) == 3) + '\n')

txt = '\n'.join(out)
p = f'{V}/DESIGN.md'
s = open(p).read()
b, e = '<!-- BEGIN GENERATED -->', '<!-- END GENERATED -->'
if b in s and e in s:
    s = s[: s.index(b) + len(b)] + '\n' + txt + '\n' + s[s.index(e):]
    open(p, 'w').write(s)
    print('DESIGN.md generated part updated:', len(txt), 'bytes')
else:
    print(txt)
