#!/bin/bash
# usage: round2.sh <ID>   — prepares /tmp/seed/<ID>b (prompt + scratch worktree) for a second round of seeded changes
set -e
ID=$1; D=/tmp/seed/${ID}c
mkdir -p $D
python3 /verif/tools/seed_prompt.py $ID 2 | sed "s#/tmp/seed/$ID/#/tmp/seed/${ID}c/#g" > $D/prompt.txt
cat >> $D/prompt.txt <<'X'

Additional note for this round: four changes for this property were already delivered by others; they covered the main function named in the property, dropped or weakened guards, and one or two helpers on the same path. Prefer LESS obvious ones: a different function or helper on the same path, a different clause of the statement, a refactoring that moves a check into a helper and subtly changes it, two cooperating sites, an off-by-one at a boundary, a changed argument or swapped pair of arguments, a state update dropped on a rare path.
X
[ -d $D/wt ] || git -C /repo worktree add --detach $D/wt main -q
echo prepared $D
