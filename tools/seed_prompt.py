import json,sys
pid=sys.argv[1]
n=int(sys.argv[2]) if len(sys.argv)>2 else 2
props={json.loads(l)['id']:json.loads(l) for l in open('/verif/properties.jsonl')}
p=props[pid]
print(f"""You are helping evaluate a verification effort for the Go project lavanet/lava (a Cosmos-SDK blockchain with pairing, subscription and reward modules, plus consumer/provider relay daemons). You have your own scratch git worktree of the repository at /tmp/seed/{pid}/wt (detached HEAD at the pinned commit). Work ONLY inside /tmp/seed/{pid}/ . Never read or write /repo or /verif.

Here is a semantic property of lava that should hold true:

  Title: {p['title']}
  Statement: {p['statement']}
  Quantifier: {p['quantifier']['text']}
  Relevant files (starting points): {', '.join(p['anchors']['files'])}

Your job: produce {n} DIFFERENT, independent, realistic code changes ("seeded defects") to lavanet/lava, each of which BREAKS this property, while the code still compiles and the existing test suite still passes. Think of the kind of bug a developer could plausibly introduce in a refactor or feature commit and that code review + the existing tests would miss. Prefer changes that need something specific to manifest (a particular interleaving, a crash/fault at a particular point, a multi-step sequence of operations, an unusual input, or two cooperating sites that each look fine alone) — NOT ones that ordinary use would expose at once. Keep each change small (a few lines up to a few dozen), in non-test production code only (no edits to *_test.go, testutil/, or go.mod). The {n} changes should differ in kind (e.g. one removes/weakens a check on one path, another reorders effects or drops a state update on a rare path, another breaks an invariant through a different function), and each must be a standalone patch against the pinned commit.

For each change k = 1..{n} deliver in /tmp/seed/{pid}/out/k/ :
  - patch.diff   : `git diff` of the production change only (must apply with `git apply` to a clean checkout of the pinned commit)
  - a demonstration: a new Go test file (e.g. demo_test.go.txt, with a header comment saying which package directory it must be copied into and under what filename) or small program that FAILS with the change applied and PASSES on the unchanged code, exercising the real code. The demo must fail because the property is broken, not because of a compile error.
  - meta.json    : {{"property": "{pid}", "summary": "...what was changed...", "why_breaks": "...", "needs_to_manifest": "...", "demo_cmd": "exact go test command run from the repo root", "existing_tests_run": "exact commands you ran to confirm existing tests still pass, and result"}}

Procedure per change: edit files in the worktree; `go build ./...`; run the existing tests of every package you touched and of the packages that import it most directly (e.g. `go test -vet=off -count=1 ./x/pairing/... ./x/subscription/...`) and confirm they PASS with your change; add the demo test, confirm it FAILS with the change and PASSES without it (use `git stash` / `git apply -R` to compare); write the three files; then `git checkout -- . && git clean -fdq` inside the worktree before starting the next change so each patch is independent. If an existing test fails with your change, the change is not acceptable — pick a different one.

Environment: no network. Prefix every shell command with:
  export GOFLAGS=-mod=mod GOPROXY=off GOSUMDB=off GOTOOLCHAIN=local; unset GOWORK
Go 1.23 is installed; the build cache is warm; a package's tests typically take 10 s – 3 min. x/ keeper tests use helpers from /tmp/seed/{pid}/wt/testutil (read them to write your demo quickly, e.g. testutil/common, testutil/keeper). Do not spend time on anything else; do not write reports beyond the files above. The machine is shared: use `go test -p 4`. When finished, reply with EXACTLY one line of the form `done: <number of changes fully confirmed>/<number attempted>` and NOTHING else — do NOT describe the changes in your reply (the descriptions belong in meta.json only).""")
