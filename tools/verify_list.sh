#!/bin/bash
# usage: verify_list.sh <logfile> <seeddir:worktree> ...   (normalises demo_cmd paths, then verify_seed.sh each)
LOG=$1; shift
for pair in "$@"; do
  sd=${pair%%:*}; wt=${pair##*:}
  python3 - "$sd" <<'P'
import json,sys,re
sd=sys.argv[1]
m=json.load(open(sd+'/meta.json'))
d=m['demo_cmd']; k=sd.rsplit('/',1)[1]
mm=re.match(r'^(.*?)\s*\(after copying (\S+) to (\S+?)\)?\s*$', d)
if mm:
    d=f'cp {mm.group(2)} {mm.group(3)} && {mm.group(1).strip()}'
d2=d.replace('<out>/'+k+'/demo_test.go.txt', sd+'/demo_test.go.txt')
if sd+'/demo_test.go.txt' not in d2:
    d2=re.sub(r'(?<![/\w])(out/\d+/)?demo_test\.go\.txt', sd+'/demo_test.go.txt', d2)
m['demo_cmd']=d2; json.dump(m,open(sd+'/meta.json','w'),indent=1)
P
  /verif/tools/verify_seed.sh $sd $wt
done > $LOG 2>&1
