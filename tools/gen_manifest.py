#!/usr/bin/env python3
"""Regenerates /verif/MANIFEST.json from the claims table below (tools/claims.json)."""
import json, os, sys

ROOT = os.path.dirname(os.path.dirname(os.path.abspath(__file__)))
props = [json.loads(l) for l in open(os.path.join(ROOT, 'properties.jsonl'))]
claims = json.load(open(os.path.join(ROOT, 'tools', 'claims.json')))
baseline = json.load(open('/root/.vp/BASELINE.json'))['cmd']

ENV = "GOFLAGS=-mod=mod GOPROXY=off GOSUMDB=off GOTOOLCHAIN=local GOWORK=off"
checks = []
na = []
for p in props:
    pid = p['id']
    c = claims.get(pid)
    if not c or c.get('na'):
        reason = (c or {}).get('na') or 'check not built yet (see DESIGN.md section 4 build order)'
        na.append({"property_id": pid, "reason": reason})
        continue
    checks.append({
        "property_id": pid,
        "quick_cmd": f"{ENV} /verif/bin/lavacheck -prop {pid} -tier quick",
        "thorough_cmd": f"{ENV} /verif/bin/lavacheck -prop {pid} -tier thorough",
        "evidence_file": f"/verif/evidence/{pid}.json",
        "replay_cmd_template": "cat {path}",
        "engine": "lavacheck",
        "level_claimed": {
            "category": c.get('level', 'other'),
            "text": c['text'],
            "design_ref": c.get('design_ref', f"DESIGN.md section 3, {pid}"),
        },
        "level_note": c.get('note', "Trusted: go/types + go/ssa model of Go (x/tools v0.29.0); third-party packages (cosmos-sdk, cometbft) analysed from export data and assumed to behave as documented; rule tables in /verif/checker/rules frozen after reading the code. Decides the structural clauses named in the text, not the value clauses listed as not covered."),
        "technique": c['technique'],
    })

m = {
    "version": 1,
    "setup_cmd": f"cd /verif/checker && {ENV} go build -o /verif/bin/lavacheck ./cmd/lavacheck && {ENV} /verif/bin/lavacheck -warm",
    "hooks": {
        "guard": "verif",
        "enable": "no hooks: nothing is executed, the checks read /repo's source with go/packages + go/ssa",
        "baseline_off_cmd": baseline,
        "source_commits": [],
        "add_only": True,
    },
    "engines": [{
        "name": "lavacheck",
        "path": "/verif/checker",
        "serves_properties": [c["property_id"] for c in checks],
        "kind_free_text": "repository-specific static analyser (guard dominance, must-pass-through, who-may-call/write, argument agreement, order-determinism, unsigned-wrap, lock discipline, encoding injectivity) over go/packages + go/ssa, x/tools v0.29.0",
    }],
    "checks": checks,
    "notes": "Static analysis only: every check re-loads /repo's working tree, type-checks it and analyses SSA/CFG/call graph; nothing in lava is executed. Exit 0 held, 1 VIOLATION, 2 UNDECIDED (anchor missing / load error; never reported as held). known_findings.json lists genuine defects recorded rather than repaired.",
    "not_applicable": na,
}
json.dump(m, open(os.path.join(ROOT, 'MANIFEST.json'), 'w'), indent=1)
print(f"{len(checks)} checks, {len(na)} not applicable")
