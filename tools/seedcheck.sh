#!/bin/bash
# usage: seedcheck.sh <patch.diff> <prop[,prop]> [worktree]
# Applies the patch to a scratch worktree of /repo (never /repo itself), runs the checks
# against it, prints the verdict lines, and restores the worktree.
set -u
PATCH=$1; PROPS=$2; WT=${3:-/tmp/seedwt}
export GOFLAGS=-mod=mod GOPROXY=off GOSUMDB=off GOTOOLCHAIN=local GOWORK=off
if [ ! -d "$WT" ]; then git -C /repo worktree add --detach "$WT" HEAD -q || exit 3; fi
git -C "$WT" checkout -q -- . && git -C "$WT" clean -fdq
git -C "$WT" checkout -q --detach main
if ! git -C "$WT" apply "$PATCH" 2>/dev/null; then
  if true; then
    echo "NOTE: patch conflicts with a later fix: commit; checking it on the pinned commit instead (baseline findings of that commit will show too)"
    git -C "$WT" checkout -q -f --detach a5f47af60 && git -C "$WT" clean -fdq && git -C "$WT" apply "$PATCH" || { echo "patch does not apply"; exit 3; }
  fi
fi
OUT=$(mktemp -d)
/verif/bin/lavacheck -repo "$WT" -out "$OUT" -prop "$PROPS" | grep -v "^      " | cut -c1-400
rc=${PIPESTATUS[0]}
git -C "$WT" checkout -q -- . && git -C "$WT" clean -fdq
rm -rf "$OUT"
echo "exit=$rc"
